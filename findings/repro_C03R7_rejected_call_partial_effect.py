"""Reproducer (C03, "if the API rejects a call ... the MDIB is exactly what it was before"): an API call that is rejected with an
exception has already changed the transaction; when the application handles the exception inside the transaction body, the
accepted part is committed.
  A. add_descriptor(d, state_container=<state of another descriptor>)      (fixed: 0e71a1f)
  B. ContextStateTransaction.write_entity(entity, [valid handle, invalid handle])   (fixed: a1cebbb)
  C. DescriptorTransaction.write_entities([e1, e2]) with e2 already written in this transaction: e2 is rejected after e1 was
     accepted   (known finding)
usage: repro_C03R7_rejected_call_partial_effect.py [repo root]; prints which cases reproduce; exit 1 if any does"""
import sys, pathlib, uuid
root = pathlib.Path(sys.argv[1] if len(sys.argv) > 1 else '/repo')
sys.path.insert(0, str(root / 'src'))
import sdc11073.definitions_sdc  # noqa: E402,F401
from sdc11073.mdib import ProviderMdib  # noqa: E402


def fresh():
    return ProviderMdib.from_mdib_file(str(root / 'tests' / '70041_MDIB_Final.xml'))


bad = []
# ---- A
mdib = fresh()
pm = mdib.data_model.pm_names
ch = mdib.entities.by_node_type(pm.ChannelDescriptor)[0]
metric = mdib.entities.by_parent_handle(ch.handle)[0]
v0 = mdib.mdib_version
new_ent = mdib.entities.new_entity(metric.node_type, 'repro_new_metric', ch.handle)
wrong_state = metric.state          # belongs to another descriptor
with mdib.descriptor_transaction() as mgr:
    try:
        mgr.add_descriptor(new_ent.descriptor, state_container=wrong_state)
    except ValueError:
        pass                          # the application handles the rejection
if mdib.descriptions.handle.get_one('repro_new_metric', allow_none=True) is not None or mdib.mdib_version != v0:
    bad.append('A: rejected add_descriptor created the descriptor (without state) / raised MdibVersion')
# ---- B
mdib = fresh()
loc = mdib.entities.by_node_type(pm.LocationContextDescriptor)[0]
st = loc.new_state(uuid.uuid4().hex)
v0 = mdib.mdib_version
with mdib.context_state_transaction() as mgr:
    try:
        mgr.write_entity(loc, [st.Handle, 'no_such_handle'])
    except KeyError:
        pass
if mdib.context_states.handle.get_one(st.Handle, allow_none=True) is not None or mdib.mdib_version != v0:
    bad.append('B: rejected ContextStateTransaction.write_entity committed the handles before the invalid one')
# ---- C
mdib = fresh()
chs = mdib.entities.by_node_type(pm.ChannelDescriptor)
ch1, ch2 = chs[0], chs[1]
dv1 = mdib.descriptions.handle.get_one(ch1.handle).DescriptorVersion
with mdib.descriptor_transaction() as mgr:
    mgr.write_entity(ch2)
    try:
        mgr.write_entities([ch1, ch2])     # ch2 is rejected ("already in updated set") after ch1 was accepted
    except ValueError:
        pass
if mdib.descriptions.handle.get_one(ch1.handle).DescriptorVersion != dv1:
    bad.append('C: rejected DescriptorTransaction.write_entities committed the entity in front of the rejected one')
for b in bad:
    print('REPRODUCED', b)
print('FAIL' if bad else 'PASS')
sys.exit(1 if bad else 0)
