"""After an accepted Unsubscribe the subscription must be unknown: Renew/GetStatus shall get a fault."""
import time, types
from unittest import mock
import sdc11073.definitions_sdc as d
from sdc11073.provider.subscriptionmgr import PathDispatchingSubscriptionsManager
from sdc11073.pysoap.soapenvelope import Fault

mf = mock.MagicMock()
mf.mk_reply_soap_message.side_effect = lambda req, payload, **kw: payload
mgr = PathDispatchingSubscriptionsManager(d.SdcV1Definitions, mf, mock.MagicMock())
class NS(types.SimpleNamespace):
    __hash__ = object.__hash__
sub = NS(reference_parameters=[], path_suffix='abc', identifier_uuid=types.SimpleNamespace(hex='abc'),
                            notify_to_url=types.SimpleNamespace(netloc='x'), unsubscribed_at=None,
                            remaining_seconds=10.0, is_valid=True, renew=mock.MagicMock(), is_closed=lambda: False,
                            close_by_subscription_manager=lambda: None)
mgr._subscriptions.add_object(sub)
req = mock.MagicMock()
req.message_data.p_msg.header_info_block.reference_parameters = []
req.path_elements = ['abc']
r1 = mgr.on_unsubscribe_request(req)
assert not isinstance(r1, Fault), 'unsubscribe of a known subscription must succeed'
r2 = mgr.on_get_status_request(req)
r3 = mgr.on_unsubscribe_request(req)
mgr._run_housekeeping_thread = False
ok = isinstance(r2, Fault) and isinstance(r3, Fault) and not sub.renew.called
print('PASS' if ok else f'FAIL: after Unsubscribe, GetStatus -> {type(r2).__name__}, 2nd Unsubscribe -> {type(r3).__name__}')
raise SystemExit(0 if ok else 1)
