"""MultiStateEntity.update() / Entity.update() refresh the entity from the MDIB with shallow copies (and Entity.update raises).

update_from_other_container copies every property with copy.copy: list-valued members (Identification, Validator, ...) get a new
list that holds the SAME element objects as the MDIB state.  After entity.update(), a nested write on the entity changes the
committed MDIB state without any transaction.  Usage: repro_...py [repo root]  (exit 1 = defect present)
"""
import sys

ROOT = sys.argv[1] if len(sys.argv) > 1 else '/repo'
sys.path.insert(0, ROOT + '/src')

import sdc11073.definitions_sdc  # noqa: E402,F401
from sdc11073.mdib import ProviderMdib  # noqa: E402
from sdc11073.xml_types import pm_types  # noqa: E402

mdib = ProviderMdib.from_mdib_file(ROOT + '/tests/70041_MDIB_Final.xml')
descr = mdib.descriptions.NODETYPE.get_one(mdib.data_model.pm_names.PatientContextDescriptor)
with mdib.context_state_transaction() as mgr:
    st = mgr.mk_context_state(descr.Handle, 'pat1', set_associated=True)
    st.Identification = [pm_types.InstanceIdentifier(root='urn:hospital', extension_string='4711')]

problems = []
entity = mdib.entities.by_handle(descr.Handle)           # deep copies: fine
entity.states['pat1'].Identification[0].Root = 'urn:changed-before-update'
stored = mdib.context_states.handle.get_one('pat1')
if stored.Identification[0].Root != 'urn:hospital':
    problems.append('by_handle: the entity shares Identification members with the MDIB')
version_before = mdib.mdib_version
entity.update()                                           # refresh from the MDIB
entity.states['pat1'].Identification[0].Root = 'urn:changed-after-update'
stored = mdib.context_states.handle.get_one('pat1')
print('MDIB state after a nested write on the refreshed entity:', stored.Identification[0].Root, '(MdibVersion',
      version_before, '->', mdib.mdib_version, ')')
if stored.Identification[0].Root != 'urn:hospital':
    problems.append('MultiStateEntity.update(): a nested write on the entity changed the committed MDIB state, no transaction')

# single-state entity
metric = next(d for d in mdib.descriptions.objects if d.is_metric_descriptor and not d.is_realtime_sample_array_metric_descriptor)
ent2 = mdib.entities.by_handle(metric.Handle)
try:
    ent2.update()
    ent2.state.BodySite.append(pm_types.CodedValue('x'))
    if len(mdib.states.descriptor_handle.get_one(metric.Handle).BodySite) != 0:
        problems.append('Entity.update(): list shared with the MDIB state')
except Exception as ex:  # noqa: BLE001
    problems.append(f'Entity.update() raises {type(ex).__name__}: {ex}')

for p in problems:
    print('DEFECT:', p)
sys.exit(1 if problems else 0)
