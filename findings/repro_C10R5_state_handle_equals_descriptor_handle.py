"""A context state must not get the handle of an existing descriptor."""
import sdc11073.definitions_sdc
from sdc11073.mdib import ProviderMdib
from sdc11073.xml_types import pm_qnames
mdib = ProviderMdib.from_mdib_file('/repo/tests/70041_MDIB_Final.xml')
descr = mdib.entities.by_node_type(pm_qnames.PatientContextDescriptor)[0].descriptor
some_other_descriptor = mdib.entities.by_node_type(pm_qnames.NumericMetricDescriptor)[0].descriptor
try:
    with mdib.context_state_transaction() as mgr:
        mgr.mk_context_state(descr.Handle, context_state_handle=some_other_descriptor.Handle)
except ValueError as ex:
    print('PASS rejected:', ex); raise SystemExit(0)
dup = some_other_descriptor.Handle in mdib.descriptions.handle and some_other_descriptor.Handle in mdib.context_states.handle
print('FAIL: handle', some_other_descriptor.Handle, 'is now descriptor handle and context state handle:', dup)
raise SystemExit(1)
