"""ContainerProperty.get_py_value_from_node resolves the xsi:type of the sub element with the namespace map of the PARENT.

A prefix that is declared on the element itself (legal XML, what other SDC stacks write) is then unknown: a schema-valid
SetAlertState request cannot be read (KeyError).  ContainerListProperty (the list variant) uses the element's own map.
Usage: repro_C05_xsi_type_prefix_scope.py [repo root]   (exit 1 = defect present)
"""
import sys

ROOT = sys.argv[1] if len(sys.argv) > 1 else '/repo'
sys.path.insert(0, ROOT + '/src')

from lxml import etree  # noqa: E402

import sdc11073.definitions_sdc  # noqa: E402,F401
from sdc11073.xml_types import msg_types  # noqa: E402

MSG = 'http://standards.ieee.org/downloads/11073/11073-10207-2017/message'
PM = 'http://standards.ieee.org/downloads/11073/11073-10207-2017/participant'
XSI = 'http://www.w3.org/2001/XMLSchema-instance'

DOC_ROOT_DECL = f'''<msg:SetAlertState xmlns:msg="{MSG}" xmlns:pm="{PM}" xmlns:xsi="{XSI}">
 <msg:OperationHandleRef>op1</msg:OperationHandleRef>
 <msg:ProposedAlertState xsi:type="pm:AlertSignalState" DescriptorHandle="as1" ActivationState="On"/>
</msg:SetAlertState>'''
# the same document, the participant-model prefix is declared where it is used
DOC_LOCAL_DECL = f'''<msg:SetAlertState xmlns:msg="{MSG}" xmlns:xsi="{XSI}">
 <msg:OperationHandleRef>op1</msg:OperationHandleRef>
 <msg:ProposedAlertState xmlns:p="{PM}" xsi:type="p:AlertSignalState" DescriptorHandle="as1" ActivationState="On"/>
</msg:SetAlertState>'''

ok = True
for name, doc in (('prefix declared at the root', DOC_ROOT_DECL), ('prefix declared on the element', DOC_LOCAL_DECL)):
    node = etree.fromstring(doc.encode())
    try:
        req = msg_types.SetAlertState.from_node(node)
        print(f'{name}: read as {type(req.ProposedAlertState).__name__}, DescriptorHandle={req.ProposedAlertState.DescriptorHandle}')
        ok = ok and type(req.ProposedAlertState).__name__ == 'AlertSignalStateContainer'
    except Exception as ex:  # noqa: BLE001
        print(f'{name}: DEFECT - cannot be read: {type(ex).__name__}: {ex}')
        ok = False
sys.exit(0 if ok else 1)
