"""SoapClientAsync.async_post_message_to never looks at the HTTP status: an error answer with an empty body counts as delivered.

The async subscription manager is the provider default.  A subscriber that answers every notification with 503 (or 404) and no
body is never counted as a delivery failure: notify_errors stays 0, the subscription stays valid and keeps being sent to.  The
sync client raises HTTPReturnCodeError for the same answer.   Usage: repro_...py [repo root]   (exit 1 = defect present)
"""
import asyncio
import sys
import types

ROOT = sys.argv[1] if len(sys.argv) > 1 else '/repo'
sys.path.insert(0, ROOT + '/src')

import sdc11073.definitions_sdc  # noqa: E402,F401
from sdc11073.definitions_sdc import SdcV1Definitions  # noqa: E402
from sdc11073.loghelper import get_logger_adapter  # noqa: E402
from sdc11073.pysoap.msgfactory import MessageFactory  # noqa: E402
from sdc11073.pysoap.msgreader import MessageReader  # noqa: E402
from sdc11073.pysoap.soapclient import HTTPReturnCodeError  # noqa: E402
from sdc11073.pysoap.soapclient_async import SoapClientAsync  # noqa: E402
from sdc11073.xml_types.addressing_types import HeaderInformationBlock  # noqa: E402

logger = get_logger_adapter('sdc.repro')
reader = MessageReader(SdcV1Definitions, None, logger)
factory = MessageFactory(SdcV1Definitions, None, logger, validate=False)


class _Resp:
    def __init__(self, status, body):
        self.status, self.reason, self._body = status, 'Service Unavailable', body

    async def text(self):
        return self._body

    async def __aenter__(self):
        return self

    async def __aexit__(self, *a):
        return False


class _Session:
    closed = False

    def __init__(self, status, body):
        self._r = (status, body)

    def post(self, path, data=None, headers=None):  # noqa: ARG002
        return _Resp(*self._r)


def run(status, body):
    client = SoapClientAsync('127.0.0.1:9', 5, logger, None, SdcV1Definitions, reader, supported_encodings=None,
                             request_encodings=None, chunk_size=0)
    client._http_connection = _Session(status, body)  # noqa: SLF001
    client.is_closed = types.MethodType(lambda self: False, client)
    inf = HeaderInformationBlock(action='urn:test', addr_to='http://127.0.0.1:9/x')
    from sdc11073.xml_types import eventing_types
    msg = factory.mk_soap_message(inf, payload=eventing_types.GetStatus())
    try:
        res = asyncio.run(client.async_post_message_to('/x', msg))
        return f'returned {res!r}'
    except HTTPReturnCodeError as ex:
        return f'raised HTTPReturnCodeError({ex.status})'


ok_answer = run(202, '')
err_answer = run(503, '')
print('202, empty body :', ok_answer)
print('503, empty body :', err_answer)
if err_answer.startswith('returned'):
    print('DEFECT: an HTTP error status is treated as a successful delivery by the async soap client')
    sys.exit(1)
print('OK')
