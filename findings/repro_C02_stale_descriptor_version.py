"""Reproducer (C02, "every state carries its descriptor's current DescriptorVersion"):

 A. ContextStateTransaction.write_entity takes DescriptorVersion (and descriptor_container) of a NEW context state from the
    caller's entity copy instead of the MDIB: fetch the entity, update the descriptor in a descriptor transaction, then write
    the (older) entity with a new state -> the new state carries a stale DescriptorVersion.
 C. The same for an EXISTING context state: fetch the entity, update the descriptor (its states follow: DescriptorVersion + 1),
    then modify a state of the older entity copy and write it -> the committed state goes back to the old DescriptorVersion
    (the single-state write_entity refreshes it from the MDIB; found by the sibling cross-check C02.R7, first seen by a
    seeding sub-agent of round 4).
 B. DescriptorTransaction: write a parent entity and add a child of it in the same transaction (parent first): the parent
    descriptor is incremented once more for the child, its state (already in the transaction) follows the transaction copy of
    the descriptor, not the MDIB object -> state one behind.
usage: repro_C02_stale_descriptor_version.py [repo root]   exit 1 when reproduced"""
import sys, pathlib, uuid
root = pathlib.Path(sys.argv[1] if len(sys.argv) > 1 else '/repo')
sys.path.insert(0, str(root / 'src'))
import sdc11073.definitions_sdc  # noqa: E402,F401
from sdc11073.mdib import ProviderMdib  # noqa: E402
from sdc11073.xml_types import pm_qnames  # noqa: E402

bad = []
mdib = ProviderMdib.from_mdib_file(str(root / 'tests' / '70041_MDIB_Final.xml'))
pm = mdib.data_model.pm_names
# ---- A
loc_ents = mdib.entities.by_node_type(pm.LocationContextDescriptor)
ent = loc_ents[0]                                   # caller's copy, taken BEFORE the descriptor changes
with mdib.descriptor_transaction() as mgr:
    fresh = mdib.entities.by_handle(ent.handle)
    fresh.descriptor.SafetyClassification = mdib.data_model.pm_types.SafetyClassification.MED_A
    mgr.write_entity(fresh)
new_state = ent.new_state(uuid.uuid4().hex)
with mdib.context_state_transaction() as mgr:
    mgr.write_entity(ent, [new_state.Handle])
d = mdib.descriptions.handle.get_one(ent.handle)
st = mdib.context_states.handle.get_one(new_state.Handle)
if st.DescriptorVersion != d.DescriptorVersion:
    bad.append(f'A: new context state has DescriptorVersion {st.DescriptorVersion}, its descriptor {d.DescriptorVersion}')
# ---- B
mdib = ProviderMdib.from_mdib_file(str(root / 'tests' / '70041_MDIB_Final.xml'))
ch = mdib.entities.by_node_type(pm.ChannelDescriptor)[0]
metric = mdib.entities.by_parent_handle(ch.handle)[0]
with mdib.descriptor_transaction() as mgr:
    mgr.write_entity(ch)                                                   # parent first
    new_m = mdib.entities.new_entity(metric.node_type, 'new_child_metric', ch.handle)
    mgr.write_entity(new_m)                                                # then a new child of it
d = mdib.descriptions.handle.get_one(ch.handle)
st = mdib.states.descriptor_handle.get_one(ch.handle)
if st.DescriptorVersion != d.DescriptorVersion:
    bad.append(f'B: parent state has DescriptorVersion {st.DescriptorVersion}, its descriptor {d.DescriptorVersion}')
# ---- C
mdib = ProviderMdib.from_mdib_file(str(root / 'tests' / '70041_MDIB_Final.xml'))
loc = mdib.entities.by_node_type(pm.LocationContextDescriptor)[0]
first = loc.new_state(uuid.uuid4().hex)
with mdib.context_state_transaction() as mgr:
    mgr.write_entity(loc, [first.Handle])
ent = mdib.entities.by_handle(loc.handle)           # caller's copy with the existing state
with mdib.descriptor_transaction() as mgr:
    fresh = mdib.entities.by_handle(loc.handle)
    fresh.descriptor.SafetyClassification = mdib.data_model.pm_types.SafetyClassification.MED_A
    mgr.write_entity(fresh)
before = mdib.context_states.handle.get_one(first.Handle).DescriptorVersion
ent.states[first.Handle].Validator.clear()
with mdib.context_state_transaction() as mgr:
    mgr.write_entity(ent, [first.Handle])
d = mdib.descriptions.handle.get_one(loc.handle)
st = mdib.context_states.handle.get_one(first.Handle)
if st.DescriptorVersion != d.DescriptorVersion:
    bad.append(f'C: existing context state written from an older entity copy: DescriptorVersion {before} -> '
               f'{st.DescriptorVersion}, its descriptor has {d.DescriptorVersion}')
for b in bad:
    print('REPRODUCED', b)
print('FAIL' if bad else 'PASS')
sys.exit(1 if bad else 0)
