"""A commit must not fail half-way: adding a state whose unique key already exists has to be rejected by the API call."""
import sys
ROOT = sys.argv[1] if len(sys.argv) > 1 else '/repo'
sys.path.insert(0, ROOT + '/src')
import sdc11073.definitions_sdc
from sdc11073.mdib import ProviderMdib
from sdc11073.xml_types import pm_qnames
problems = []
def snapshot(m): return (m.mdib_version, len(m.states.objects), len(m.context_states.objects))
# 1. ContextStateTransaction.add_state with a handle that already exists
m = ProviderMdib.from_mdib_file(f'{ROOT}/tests/70041_MDIB_Final.xml')
pd = m.entities.by_node_type(pm_qnames.PatientContextDescriptor)[0].descriptor
with m.context_state_transaction() as mgr:
    st = mgr.mk_context_state(pd.Handle, 'p1')
before = snapshot(m)
dup = m.data_model.mk_state_container(pd); dup.Handle = 'p1'
try:
    with m.context_state_transaction() as mgr:
        mgr.add_state(dup)
except Exception as ex:
    if snapshot(m) != before:
        problems.append(f'context add_state(duplicate handle): {type(ex).__name__} during commit, mdib changed {before} -> {snapshot(m)}')
# 2. DescriptorTransaction.add_state for an updated descriptor that already has a state
m = ProviderMdib.from_mdib_file(f'{ROOT}/tests/70041_MDIB_Final.xml')
md = m.entities.by_node_type(pm_qnames.NumericMetricDescriptor)[0].descriptor
before = snapshot(m)
try:
    with m.descriptor_transaction() as mgr:
        d = mgr.get_descriptor(md.Handle)
        mgr.add_state(m.data_model.mk_state_container(d))
except Exception as ex:
    if snapshot(m) != before:
        problems.append(f'descriptor add_state(second state): {type(ex).__name__} during commit, mdib changed {before} -> {snapshot(m)}')
for p in problems: print(' ', p)
print('PASS' if not problems else 'FAIL')
raise SystemExit(1 if problems else 0)
