import sys
import sdc11073.definitions_sdc
from sdc11073.mdib import ProviderMdib
from sdc11073.xml_types import pm_qnames
mdib = ProviderMdib.from_mdib_file('/repo/tests/70041_MDIB_Final.xml')
ents = mdib.entities.by_node_type(pm_qnames.PatientContextDescriptor)
h = ents[0].handle
with mdib.context_state_transaction() as mgr:
    ent = mdib.entities.by_handle(h)
    s1 = ent.new_state(); s2 = ent.new_state()
    mgr.write_entity(ent, [s1.Handle, s2.Handle])
v0 = mdib.mdib_version
n0 = len(mdib.context_states.objects)
ent = mdib.entities.by_handle(h)
victim = list(ent.states)[0]
ent.states.pop(victim)
try:
    with mdib.descriptor_transaction() as mgr:
        mgr.write_entity(ent)
except Exception as ex:
    print('commit raised', type(ex).__name__, ex)
print('mdib_version before', v0, 'after', mdib.mdib_version, 'states before', n0, 'after', len(mdib.context_states.objects))
