import sdc11073.definitions_sdc
from sdc11073.mdib import ProviderMdib
from sdc11073.xml_types import pm_qnames
def check(mdib, label):
    bad=[]
    for st in list(mdib.states.objects)+list(mdib.context_states.objects):
        d = mdib.descriptions.handle.get_one(st.DescriptorHandle, allow_none=True)
        if d is None: bad.append(('orphan state', st.DescriptorHandle))
        elif d.DescriptorVersion != st.DescriptorVersion: bad.append(('stale DescriptorVersion', st.DescriptorHandle, d.DescriptorVersion, st.DescriptorVersion))
    for d in mdib.descriptions.objects:
        if d.parent_handle is not None and mdib.descriptions.handle.get_one(d.parent_handle, allow_none=True) is None:
            bad.append(('orphan descriptor', d.Handle))
    print(label, bad[:5])
def fresh(): return ProviderMdib.from_mdib_file('/repo/tests/70041_MDIB_Final.xml')
# 1 update a child and delete its parent in one transaction
m = fresh()
metric = m.entities.by_node_type(pm_qnames.NumericMetricDescriptor)[0].descriptor
parent = metric.parent_handle
with m.descriptor_transaction() as mgr:
    mgr.get_descriptor(metric.Handle)
    mgr.remove_descriptor(parent)
check(m, 'update child + delete parent:')
# 2 delete child and grandparent
m = fresh()
metric = m.entities.by_node_type(pm_qnames.NumericMetricDescriptor)[0].descriptor
ch = m.descriptions.handle.get_one(metric.parent_handle)
vmd = ch.parent_handle
with m.descriptor_transaction() as mgr:
    mgr.remove_descriptor(metric.Handle)
    mgr.remove_descriptor(vmd)
check(m, 'delete child + grandparent:')
