"""SetContextState that re-associates an existing (disassociated) state must set its BindingMdibVersion/BindingStartTime
to the MdibVersion of that commit; one that disassociates an associated state must set Unbinding version / end time."""
import copy, logging, os, sys
from types import SimpleNamespace
ROOT = sys.argv[1] if len(sys.argv) > 1 else '/repo'
sys.path.insert(0, ROOT); sys.path.insert(0, os.path.join(ROOT, 'src'))
import sdc11073.definitions_sdc
from sdc11073.location import SdcLocation
from sdc11073.mdib import ProviderMdib
from sdc11073.provider.operations import ExecuteParameters
from tutorial.productandroles.contextprovider import GenericContextProvider
logging.disable(logging.CRITICAL)
mdib = ProviderMdib.from_mdib_file(os.path.join(ROOT, 'tests', '70041_MDIB_Final.xml'))
assoc = mdib.data_model.pm_types.ContextAssociation
descr = mdib.descriptions.NODETYPE.get_one(mdib.data_model.pm_names.LocationContextDescriptor)
prov = GenericContextProvider(mdib, log_prefix='demo')
mdib.xtra.set_location(SdcLocation(fac='f', poc='p', bed='b1'))
mdib.xtra.set_location(SdcLocation(fac='f', poc='p', bed='b2'))   # b1 is disassociated now
b1 = [s for s in mdib.context_states.objects if s.DescriptorHandle == descr.Handle and s.LocationDetail.Bed == 'b1'][0]
old_binding = b1.BindingMdibVersion
proposal = copy.deepcopy(b1)
proposal.ContextAssociation = assoc.ASSOCIATED
params = ExecuteParameters(operation_instance=SimpleNamespace(operation_target_handle=descr.Handle),
                           operation_request=SimpleNamespace(argument=[proposal]), soap_message=None)
prov._set_context_state(params)
v = mdib.mdib_version
b1 = mdib.context_states.handle.get_one(b1.Handle)
ok = b1.ContextAssociation == assoc.ASSOCIATED and b1.BindingMdibVersion == v
print('PASS' if ok else f'FAIL: state re-associated at MdibVersion {v} has BindingMdibVersion {b1.BindingMdibVersion} (before: {old_binding})')
raise SystemExit(0 if ok else 1)
