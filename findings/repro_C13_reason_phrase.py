"""Reproducer: the HTTP reason phrase is built from exception texts / path elements without sanitising (C13).

Originally the harness of a seeded-change demonstration (sub-agent, round 3).

A provider is built without any network (mocked WS-Discovery, http server never started).
Raw HTTP requests are fed to the real DispatchingRequestHandler through an in-memory fake
connection. Every request must terminate without an exception leaving the handler and must
produce exactly one parseable HTTP response (status line + headers + body of the announced
length). For the requests used here the proper answer is 404 with a SOAP fault.

usage: demo.py [worktree-root]      (default /tmp/wt/M13)
"""
from __future__ import annotations

import http.client
import io
import logging
import sys
import traceback
from types import SimpleNamespace
from unittest import mock
from urllib.parse import SplitResult

ROOT = sys.argv[1] if len(sys.argv) > 1 else '/repo'

import sdc11073.definitions_sdc  # noqa: E402, F401
from lxml import etree  # noqa: E402
from sdc11073.dispatch import PathElementRegistry  # noqa: E402
from sdc11073.httpserver.httprequesthandler import DispatchingRequestHandler  # noqa: E402
from sdc11073.mdib import ProviderMdib  # noqa: E402
from sdc11073.provider import SdcProvider  # noqa: E402
from sdc11073.provider.providerimpl import provider_components_sync_factory  # noqa: E402
from sdc11073.xml_types import eventing_types as evt  # noqa: E402
from sdc11073.xml_types.addressing_types import HeaderInformationBlock  # noqa: E402
from sdc11073.xml_types.dpws_types import ThisDeviceType, ThisModelType  # noqa: E402

logging.disable(logging.CRITICAL)


def mk_provider() -> SdcProvider:
    mdib = ProviderMdib.from_mdib_file(ROOT + '/tests/70041_MDIB_Final.xml')
    wsd = mock.MagicMock()
    wsd.active_address = '127.0.0.1'
    model = ThisModelType(manufacturer='x', manufacturer_url='x', model_name='x', model_number='1',
                          model_url='x', presentation_url='x')
    device = ThisDeviceType(friendly_name='x', firmware_version='1', serial_number='1')
    provider = SdcProvider(wsd, model, device, mdib, components=provider_components_sync_factory())
    provider.base_urls = [SplitResult('http', '127.0.0.1:9999', provider.path_prefix, query=None, fragment=None)]
    for mgr in provider._subscriptions_managers.values():
        mgr.set_base_urls(provider.base_urls)
    return provider


class FakeConnection:
    """Stands in for the accepted socket: serves the request bytes, collects the response bytes."""

    def __init__(self, request_bytes: bytes):
        self._rfile = io.BytesIO(request_bytes)
        self.sent = bytearray()

    def makefile(self, mode: str, *_args, **_kwargs):  # noqa: ANN002, ANN003, ANN201
        assert 'r' in mode
        return self._rfile

    def sendall(self, data: bytes):
        self.sent += data

    def getpeername(self) -> tuple[str, int]:
        return '127.0.0.1', 54321

    def settimeout(self, *_args):  # noqa: ANN002
        pass

    def setsockopt(self, *_args):  # noqa: ANN002
        pass


def run_handler(server: SimpleNamespace, request_bytes: bytes) -> tuple[BaseException | None, bytes]:
    """Let the request handler process one connection, return (escaped exception, bytes sent)."""
    conn = FakeConnection(request_bytes)
    escaped = None
    try:
        DispatchingRequestHandler(conn, ('127.0.0.1', 54321), server)
    except Exception as ex:  # noqa: BLE001  this is what would arrive in the server loop
        escaped = ex
        traceback.print_exc(limit=3)
    return escaped, bytes(conn.sent)


class _SockOverBytes:
    def __init__(self, data: bytes):
        self._file = io.BytesIO(data)

    def makefile(self, *_args, **_kwargs):  # noqa: ANN002, ANN003, ANN201
        return self._file


def parse_response(raw: bytes) -> tuple[http.client.HTTPResponse, bytes, bytes]:
    resp = http.client.HTTPResponse(_SockOverBytes(raw), method='POST')
    resp.begin()
    body = resp.read()
    rest = resp.fp.read() if resp.fp is not None else b''
    return resp, body, rest


def main() -> int:
    provider = mk_provider()
    registry = PathElementRegistry()
    registry.register_instance(provider.path_prefix, provider._msg_converter)
    server = SimpleNamespace(logger=mock.MagicMock(), dispatcher=registry, chunk_size=0, supported_encodings=[])

    subscribe = evt.Subscribe()
    subscribe.set_filter(provider.mdib.sdc_definitions.Actions.EpisodicMetricReport)
    subscribe.Delivery.NotifyTo.Address = 'http://127.0.0.1:9998/notify'
    subscribe.Expires = 10
    envelope = provider.msg_factory.mk_soap_message(
        HeaderInformationBlock(action=subscribe.action, addr_to='urn:x'), subscribe).serialize()

    def mk_request(path: bytes, body: bytes = envelope) -> bytes:
        head = (b'POST ' + path + b' HTTP/1.1\r\nHost: 127.0.0.1:9999\r\n'
                b'Content-Type: application/soap+xml\r\nContent-Length: ' + str(len(body)).encode() + b'\r\n'
                b'Connection: close\r\n\r\n')
        return head + body

    prefix = ('/' + provider.path_prefix).encode()
    cases = [
        ('control character as service name', prefix + b'/\x01'),
        ('unknown service with a non-ascii latin-1 byte', prefix + b'/caf\xe9'),
        ('plain unknown service (control)', prefix + b'/NoSuchService'),
    ]
    failures = []
    for name, path in cases:
        escaped, sent = run_handler(server, mk_request(path))
        if escaped is not None:
            failures.append(f'{name}: {escaped.__class__.__name__} escaped from the request handler ({len(sent)} bytes sent)')
            continue
        status_line, _, rest = sent.partition(b'\r\n')
        try:
            resp, body, trailing = parse_response(sent)
            print(f'{name}: status {resp.status}, reason {resp.reason[:60]!r}, {len(body)} body bytes, {len(trailing)} trailing bytes')
            if trailing or b'\n' in status_line or len(resp.reason) > 200:
                failures.append(f'{name}: malformed response (status line {status_line[:80]!r} ..., {len(trailing)} trailing bytes)')
            # every header line must be a header
            for k, v in resp.getheaders():
                if k.lower() not in ('server', 'date', 'content-type', 'content-length', 'content-encoding', 'transfer-encoding'):
                    failures.append(f'{name}: unexpected header line {k!r}: {v[:60]!r} (reason phrase spilled into the headers)')
        except Exception as ex:  # noqa: BLE001
            failures.append(f'{name}: response not parseable: {ex!r}; first bytes {sent[:120]!r}')
    for f in failures:
        print('VIOLATION:', f)
    print('FAIL' if failures else 'PASS')
    return 1 if failures else 0


if __name__ == '__main__':
    sys.exit(main())
