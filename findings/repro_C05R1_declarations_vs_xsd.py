"""C05.R1 findings: declarations that disagree with the bundled XSD."""
import sys
ROOT = sys.argv[1] if len(sys.argv) > 1 else '/repo'
sys.path.insert(0, ROOT + '/src')
import sdc11073.definitions_sdc as d
from sdc11073.xml_types import pm_types, msg_types, pm_qnames
from sdc11073.pysoap.msgfactory import MessageFactory
import logging
nsh = d.SdcV1Definitions.data_model.ns_helper
problems = []
# A: ClinicalInfo.Type and .Code must round-trip independently
ci = pm_types.ClinicalInfo(type_=pm_types.CodedValue('111'), code=pm_types.CodedValue('222'))
node = ci.as_etree_node(pm_qnames.ClinicalInfo, nsh.partial_map(nsh.PM))
back = pm_types.ClinicalInfo.from_node(node)
if not (back.Type is not None and back.Type.Code == '111' and back.Code is not None and back.Code.Code == '222'):
    problems.append(f'ClinicalInfo(Type=111, Code=222) reads back as Type={getattr(back.Type, "Code", None)} Code={getattr(back.Code, "Code", None)}')
# B: PerformedOrderDetail.ResultingClinicalInfo must be written under the element name of the schema
pod = pm_types.PerformedOrderDetail(resulting_clinical_info=[pm_types.ClinicalInfo()])
node = pod.as_etree_node(pm_qnames.PerformedOrderDetail, nsh.partial_map(nsh.PM))
names = [c.tag.split('}')[1] for c in node]
if 'ResultingClinicalInfo' not in names:
    problems.append(f'PerformedOrderDetail writes its clinical info as {names} (schema: ResultingClinicalInfo)')
# C: optional Get requests must be constructible
for cls in (msg_types.GetContextStatesByIdentification, msg_types.GetContextStatesByFilter):
    try:
        cls()
    except Exception as ex:
        problems.append(f'{cls.__name__}() raises {type(ex).__name__}: {ex}')
for p in problems:
    print(' ', p)
print('PASS' if not problems else 'FAIL')
raise SystemExit(1 if problems else 0)
