"""xsd:decimal values with up to 18 digits must keep their numeric value when written."""
import sys
ROOT = sys.argv[1] if len(sys.argv) > 1 else '/repo'
sys.path.insert(0, ROOT + '/src')
from decimal import Decimal
from sdc11073.xml_types.dataconverters import DecimalConverter
bad = []
for txt in ('-1.23456789012345678', '0.000000000000000001', '-0.00000000000000012', '1.23456789012345678', '-12345678.9012345678'):
    d = Decimal(txt)
    back = Decimal(DecimalConverter.to_xml(d))
    if back != d:
        bad.append(f'{txt} -> {DecimalConverter.to_xml(d)}')
print('PASS' if not bad else 'FAIL: ' + '; '.join(bad))
raise SystemExit(1 if bad else 0)
