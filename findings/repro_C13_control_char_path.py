"""A request whose path (or whose error text) contains a character that XML cannot carry gets no SOAP fault.

MessageConverterMiddleware.do_post answers a failing request with a fault whose reason text is str(exception).  The dispatcher's
exception for an unknown path element quotes the path; lxml refuses control characters ("All strings must be XML compatible"),
the fault cannot be built inside the catch-all and the exception leaves do_post: the peer gets a bare 500 instead of a
well-formed SOAP fault.   Usage: repro_...py [repo root]   (exit 1 = defect present)
"""
import sys

ROOT = sys.argv[1] if len(sys.argv) > 1 else '/repo'
sys.path.insert(0, ROOT + '/src')

from sdc11073.pysoap.soapenvelope import Fault, faultcodeEnum  # noqa: E402

problems = []
for text in ('plain text', 'path element "Ge\x01t" unknown', 'nul \x00 byte', 'surrogate \ud800', ''):
    fault = Fault()
    fault.Code.Value = faultcodeEnum.SENDER
    try:
        fault.add_reason_text(text)
        from sdc11073.namespaces import default_ns_helper as nsh
        node = fault.as_etree_node(nsh.S12.tag('Fault'), nsh.partial_map(nsh.S12, nsh.XML))
        from lxml import etree
        xml = etree.tostring(node)
        etree.fromstring(xml)   # well-formed
        print(repr(text)[:40], '-> fault with reason', repr(fault.Reason.Text[0].text)[:50])
    except Exception as ex:  # noqa: BLE001
        problems.append(f'{text!r}: {type(ex).__name__}: {ex}')
for p in problems:
    print('DEFECT: no fault can be built for the reason text', p[:150])
sys.exit(1 if problems else 0)
