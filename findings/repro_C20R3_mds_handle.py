"""GetContextStates with an MDS handle must return the context states of THAT MDS only."""
import sys
from unittest import mock
import sdc11073.definitions_sdc as d
from sdc11073.mdib import ProviderMdib
from sdc11073.xml_types import pm_qnames, msg_types
from sdc11073.provider.porttypes.contextserviceimpl import ContextService
from sdc11073 import loghelper
root = sys.argv[1] if len(sys.argv) > 1 else '/repo'
mdib = ProviderMdib.from_mdib_file(f'{root}/tests/mdib_two_mds.xml')
mds = [e.descriptor for e in mdib.entities.by_node_type(pm_qnames.MdsDescriptor)]
assert len(mds) == 2
ctx_descr = [e.descriptor for e in mdib.entities.by_node_type(pm_qnames.PatientContextDescriptor)] + \
            [e.descriptor for e in mdib.entities.by_node_type(pm_qnames.LocationContextDescriptor)]
with mdib.context_state_transaction() as mgr:
    for dsc in ctx_descr:
        mgr.mk_context_state(dsc.Handle)
by_mds = {m.Handle: sorted(s.Handle for s in mdib.context_states.objects if s.source_mds == m.Handle) for m in mds}
assert any(by_mds.values()), by_mds
svc = ContextService.__new__(ContextService)
svc._mdib = mdib
svc._sdc_definitions = d.SdcV1Definitions
svc._logger = loghelper.get_logger_adapter('x')
svc._sdc_device = mock.MagicMock()
svc._sdc_device.msg_factory.mk_reply_soap_message.side_effect = lambda req, payload: payload
ok = True
for m in mds:
    req = msg_types.GetContextStates()
    req.HandleRef.append(m.Handle)
    rd = mock.MagicMock()
    rd.message_data.p_msg.msg_node = req.as_etree_node(req.NODETYPE, d.SdcV1Definitions.data_model.ns_helper.partial_map(
        d.SdcV1Definitions.data_model.ns_helper.MSG, d.SdcV1Definitions.data_model.ns_helper.PM))
    resp = svc._on_get_context_states(rd)
    got = sorted(s.Handle for s in resp.ContextState)
    if got != by_mds[m.Handle]:
        ok = False
        print(f'MDS {m.Handle}: expected {len(by_mds[m.Handle])} context states of this MDS, got {len(got)}')
print('PASS' if ok else 'FAIL')
raise SystemExit(0 if ok else 1)
