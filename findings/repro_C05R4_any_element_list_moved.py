"""Writing a value twice must give the same XML both times; the first output must stay intact."""
import sys
ROOT = sys.argv[1] if len(sys.argv) > 1 else '/repo'
sys.path.insert(0, ROOT + '/src')
from lxml import etree
import sdc11073.definitions_sdc as d
from sdc11073.xml_types.addressing_types import EndpointReferenceType
nsh = d.SdcV1Definitions.data_model.ns_helper
epr = EndpointReferenceType()
epr.Address = 'urn:x'
ident = etree.Element('{urn:test}Ident'); ident.text = 'abc'
epr.ReferenceParameters = [ident]
n1 = epr.as_etree_node(nsh.WSA.tag('EndpointReference'), nsh.partial_map(nsh.WSA))
x1 = etree.tostring(n1)
n2 = epr.as_etree_node(nsh.WSA.tag('EndpointReference'), nsh.partial_map(nsh.WSA))
ok = etree.tostring(n2) == x1 and etree.tostring(n1) == x1 and len(epr.ReferenceParameters) == 1 and epr.ReferenceParameters[0].getparent() is None
print('PASS' if ok else f'FAIL: first output after second write: {etree.tostring(n1).decode()[-120:]}')
raise SystemExit(0 if ok else 1)
