"""Reproducer (C12): ContainerBase.mk_copy made a shallow copy of the storage of observable properties (`node`): setting the node
of the copy - which mk_copy(copy_node=True) itself does - replaced the node of the original.  exit 1 when reproduced.
usage: repro_C12_shared_node_storage.py [repo root]"""
import sys, pathlib
root = pathlib.Path(sys.argv[1] if len(sys.argv) > 1 else '/repo'); sys.path.insert(0, str(root / 'src'))
import sdc11073.definitions_sdc
from sdc11073.mdib import ProviderMdib
from lxml import etree
mdib = ProviderMdib.from_mdib_file(str(root / 'tests' / '70041_MDIB_Final.xml'))
st = next(iter(mdib.states.objects))
print('node before', st.node is not None)
st.node = etree.Element('a')
n0 = st.node
c = st.mk_copy(copy_node=True)
print('original keeps its node object:', st.node is n0, '| copy has own node:', c.node is not n0, '| same object in both:', c.node is st.node)
c2 = st.mk_copy()
c2.node = etree.Element('b')
print('after setting node on a plain copy, original node tag:', st.node.tag)
d = next(iter(mdib.descriptions.objects))
dc = d.mk_copy()
dc.node = etree.Element('zzz')
print('descriptor original node tag after copy.node assignment:', d.node.tag if d.node is not None else None)

bad = (st.node is not n0) or (d.node is not None and d.node.tag == 'zzz')
print('FAIL' if bad else 'PASS')
sys.exit(1 if bad else 0)
