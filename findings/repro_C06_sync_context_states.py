"""ConsumerMdibMethods.sync_context_states removes from context_states.objects while iterating over it.

With two obsolete context states that follow each other in the table, the second one is skipped and stays in the consumer
MDIB although the provider no longer has it.  Usage: repro_C06_sync_context_states.py [repo root]  (exit 1 = defect present)
"""
import sys
import types

ROOT = sys.argv[1] if len(sys.argv) > 1 else '/repo'
sys.path.insert(0, ROOT + '/src')

import sdc11073.definitions_sdc  # noqa: E402,F401
from sdc11073.definitions_sdc import SdcV1Definitions  # noqa: E402
from sdc11073.mdib import ProviderMdib  # noqa: E402
from sdc11073.mdib.consumermdib import ConsumerMdib  # noqa: E402

prov = ProviderMdib.from_mdib_file(ROOT + '/tests/70041_MDIB_Final.xml')
descr = prov.descriptions.NODETYPE.get_one(prov.data_model.pm_names.PatientContextDescriptor)
with prov.context_state_transaction() as mgr:
    for i in range(4):
        mgr.mk_context_state(descr.Handle, f'pat{i}', set_associated=False)
states = prov.context_states.descriptor_handle.get(descr.Handle)
assert len(states) >= 4


class _Client:  # the smallest stand-in for SdcConsumer that ConsumerMdib / ConsumerMdibMethods need here
    sdc_definitions = SdcV1Definitions
    all_subscribed = True
    log_prefix = ""
    msg_reader = None

    def __init__(self, answer):
        self._answer = answer

    def client(self, _name):
        answer = self._answer
        return types.SimpleNamespace(get_context_states=lambda: types.SimpleNamespace(
            result=types.SimpleNamespace(ContextState=answer)))


# the provider has only the first of the four states left
remaining = [states[0]]
cl_mdib = ConsumerMdib(_Client(remaining))
cl_mdib.add_description_containers([d.mk_copy() for d in prov.descriptions.objects])
for st in states:
    cl_mdib.context_states.add_object(st.mk_copy())
before = sorted(s.Handle for s in cl_mdib.context_states.objects)
try:
    cl_mdib.xtra.sync_context_states()
except RuntimeError as ex:   # "Set changed size during iteration"
    print('DEFECT: sync_context_states raised', repr(ex), '- after removing',
          len(before) - len(cl_mdib.context_states.objects), 'of', len(before) - len(remaining), 'obsolete states')
    sys.exit(1)
after = sorted(s.Handle for s in cl_mdib.context_states.objects)
print('before sync:', before)
print('provider has:', [s.Handle for s in remaining])
print('after sync :', after)
if after != sorted(s.Handle for s in remaining):
    print('DEFECT: context states the provider no longer has survive the sync:', sorted(set(after) - {s.Handle for s in remaining}))
    sys.exit(1)
print('OK')
