#!/venv/bin/python
"""Generate /verif/MANIFEST.json from claims.py and the rule modules that exist."""
import json
import pathlib
import sys

HERE = pathlib.Path(__file__).resolve().parent
sys.path.insert(0, str(HERE))
from claims import CLAIMS  # noqa: E402

VERIF = HERE.parent
props = [json.loads(l) for l in (VERIF / 'properties.jsonl').read_text().splitlines() if l.strip()]
checks = []
na = []
for p in props:
    pid = p['id']
    if (HERE / 'rules' / f'{pid.lower()}.py').exists() and pid in CLAIMS:
        c = CLAIMS[pid]
        checks.append({
            'property_id': pid,
            'quick_cmd': f'/venv/bin/python /verif/sa/run.py {pid} --tier quick',
            'thorough_cmd': f'/venv/bin/python /verif/sa/run.py {pid} --tier thorough',
            'evidence_file': f'/verif/evidence/{pid}.json',
            'replay_cmd_template': f'/venv/bin/python /verif/sa/run.py {pid} --replay {{path}}',
            'engine': 'sa',
            'level_claimed': {'category': 'other', 'text': c['text'], 'design_ref': c['ref']},
            'level_note': c['note'],
            'technique': 'static analysis: ' + c['technique'],
        })
    else:
        na.append({'property_id': pid, 'reason': 'static check not built yet (work in progress); see DESIGN.md section 4'})
manifest = {
    'version': 1,
    'setup_cmd': '/venv/bin/python -m compileall -q /verif/sa',
    'hooks': {
        'guard': 'DRAEGERWERK_SDC11073_VERIF',
        'enable': 'none needed: the checks read the source of /repo, nothing is instrumented',
        'baseline_off_cmd': 'cd /repo && /venv/bin/python -m pytest -ra -q -p no:cacheprovider --timeout=900 '
                            '--continue-on-collection-errors',
        'source_commits': [],
        'add_only': True,
    },
    'engines': [{'name': 'sa', 'path': '/verif/sa', 'serves_properties': [c['property_id'] for c in checks],
                 'kind_free_text': 'repository-specific static analysis in pure Python (ast): module/class/MRO tables, '
                                   'statement CFG with exceptional edges, dominators, lock regions, def-use, '
                                   'declaration tables vs XSD'}],
    'checks': checks,
    'not_applicable': na,
    'notes': 'All checks are static analyses of /repo as it is on disk when the check runs; see DESIGN.md. '
             'Known findings: /verif/known_findings.json.',
}
(VERIF / 'MANIFEST.json').write_text(json.dumps(manifest, indent=1) + '\n')
print(f'{len(checks)} checks, {len(na)} not claimed')
