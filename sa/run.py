#!/venv/bin/python
"""Entry point: run.py <property id> [--tier quick|thorough] [--replay <path>]

exit 0: every obligation discharged (or only known findings)
exit 1: VIOLATION property=<id> replay=<path>
exit 2: ANALYSIS-ERROR (the analysis itself could not be carried out)
"""
from __future__ import annotations

import argparse
import importlib
import json
import os
import pathlib
import sys
import time
import traceback

HERE = pathlib.Path(__file__).resolve().parent
sys.path.insert(0, str(HERE))
sys.dont_write_bytecode = True

from engine.errors import AnalysisError  # noqa: E402
from engine.repo import Repo  # noqa: E402
from engine.report import Ctx, finish  # noqa: E402


def analyse(prop: str, tier: str, root=None):
    mod = importlib.import_module(f'rules.{prop.lower()}')
    repo = Repo(root)
    ctx = Ctx(prop, repo, tier)
    for line in repo.norm_log:
        print('NORMALISED', line)
        ctx.notes.append('normalised view: ' + line)
    mod.run(ctx)
    return ctx, mod


def main():
    ap = argparse.ArgumentParser()
    ap.add_argument('prop')
    ap.add_argument('--tier', default=None)
    ap.add_argument('--replay')
    ap.add_argument('--list', action='store_true', help='print all obligations')
    args = ap.parse_args()
    tier = args.tier or os.environ.get('VERIF_TIER') or 'quick'  # an explicit --tier wins over the environment
    if tier not in ('quick', 'thorough'):
        tier = 'quick'
    prop = args.prop.upper()
    t0 = time.time()
    try:
        ctx, mod = analyse(prop, tier)
        if args.list:
            for o in ctx.obligations:
                print(('ok  ' if o.ok else 'FAIL'), o.key, f'{o.file}:{o.line}', '--', o.what)
        if args.replay:
            key = json.loads(pathlib.Path(args.replay).read_text())['key']
            return finish(ctx, t0, only_key=key, write_evidence=False)
        selftest = None
        if tier == 'thorough':
            from selftest import run_selftest
            selftest = run_selftest(prop, mod)
        return finish(ctx, t0, selftest=selftest)
    except AnalysisError as ex:
        print(f'ANALYSIS-ERROR property={prop}: {ex}')
        return 2
    except Exception:  # noqa: BLE001
        print(f'ANALYSIS-ERROR property={prop}: internal error\n{traceback.format_exc()}')
        return 2


if __name__ == '__main__':
    sys.exit(main())
