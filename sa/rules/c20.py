"""C20 - query services return exactly the selected states and texts.

Decided (structural necessary conditions):
  R1 each state at most once: the accumulator filled in the per-handle loop of GetMdState and
     GetContextStates is keyed / de-duplicated before it reaches the response.
  R2 resolution order per handle: context-state handle first, else descriptor handle, else (context
     service only) MDS handle.
  R3 DEPENDS: in every branch of the per-handle loop the selected states depend on the requested handle.
  R4 DEPENDS: each of the five parameters of filter_localized_texts influences the result; without a
     requested version the newest stored version is used; get_supported_languages is the set of Lang of
     all stored texts.
  R5 snapshot: C07.R1.
  R6 AGREE: client request class / provider registration / response class speak about the same message.
Not decided: the text-width / number-of-lines ranking (value level).
"""
from __future__ import annotations

import ast

from engine.cfg import expand_aliases, call_name, cfg_of
from engine.errors import AnalysisError
from engine.repo import walk_no_nested
from engine.util import calls_in, depends_on, local_assignments, registrations, unparse, xsrc

from .c01 import message_actions

ID = 'C20'
GS = 'sdc11073.provider.porttypes.getserviceimpl.GetService._on_get_md_state'
CS = 'sdc11073.provider.porttypes.contextserviceimpl.ContextService._on_get_context_states'
LS = 'sdc11073.provider.porttypes.localizationservice.LocalizationStorage'


def _handle_loops(fn):
    """Loops over the HandleRef list of the request (alias-expanded view: the iterable ends with .HandleRef)."""
    return [n for n in walk_no_nested(fn) if isinstance(n, ast.For) and unparse(n.iter).endswith('.HandleRef')
            and isinstance(n.target, ast.Name)]


def _empty_request_fact(facts) -> bool:
    """One of the facts says: the HandleRef list of the request is empty."""
    import re
    for txt, pol in list(facts) + list(facts.resolved):
        m = re.fullmatch(r'len\((.+\.HandleRef)\) (==|>|!=|<=|>=|<) (0|1)', txt)
        if m:
            op, k = m.group(2), m.group(3)
            empty_when_true = {('==', '0'): True, ('<=', '0'): True, ('<', '1'): True,
                               ('>', '0'): False, ('!=', '0'): False, ('>=', '1'): False}.get((op, k))
            if empty_when_true is not None and pol == empty_when_true:
                return True
        if txt.endswith('.HandleRef') and '(' not in txt and pol is False:
            return True
    return False


def run(ctx):  # noqa: C901, PLR0912, PLR0915
    repo = ctx.repo
    ctx.rule('C20.R1', 'per-handle accumulators are de-duplicated before they reach the response')
    ctx.rule('C20.R2', 'resolution order: context-state handle, descriptor handle, (context service) MDS handle')
    ctx.rule('C20.R3', 'every selection inside the per-handle loop depends on the handle')
    ctx.rule('C20.R4', 'every filter parameter of filter_localized_texts influences the result; newest version default')
    ctx.rule('C20.R6', 'client request / provider registration / response class agree')

    from . import common
    # what the handle resolution finds is what the MDIB contains: no state of a removed descriptor stays behind in the tables
    common.index_lists_not_mutated_while_iterated(ctx, 'C20.R2')
    common.string_readers_return_the_text(ctx, 'C20.R3')
    ctx.borrow('C11', {'C11.R1'}, 'C20.R1', why='a rejected insert leaves no object that the empty-list answer contains and the handle lookups do not')
    from engine.deps import Deps
    gmd = repo.func('sdc11073.mdib.providermdibxtra.ProviderMdibMethods.get_mds_descriptor')
    dgm = Deps(gmd.node)
    pnm = [a.arg for a in gmd.node.args.args if a.arg != 'self'][0]
    indep = [unparse(r.value)[:50] for r in walk_no_nested(gmd.node) if isinstance(r, ast.Return) and r.value is not None and
             not (isinstance(r.value, ast.Constant) and r.value.value is None) and
             not any(s_ in (pnm, f'param:{pnm}') or s_.startswith(f'{pnm}.') for s_ in dgm.sources(r.value) | {unparse(r.value)})]
    ctx.ob('C20.R2', 'the MDS of a descriptor is found by walking up from it', not indep,
           'every MDS that get_mds_descriptor returns was reached from the given container' if not indep else
           f'get_mds_descriptor returns {indep} without looking at the container it was asked about: descriptors of a second MDS '
           f'that is added later get the first MDS as source - GetContextStates by MDS handle returns the wrong states', fi=gmd)
    # a handle names one thing: new_entity / mk_context_state refuse a handle that a context state or a descriptor already has
    ctx.borrow('C10', {'C10.R5'}, 'C20.R2', contains=['new_entity', 'mk_context_state', 'unique handle indices'])
    # ------------------------------------------------------------------ R1 + R2 + R3
    n_loops = 0
    for q in (GS, CS):
        fi = expand_aliases(repo.func(q))  # `states = self._mdib.states` style aliases are written out
        g = cfg_of(fi)
        assigns = local_assignments(fi.node)
        loops = _handle_loops(fi.node)
        if not loops:
            raise AnalysisError(f'C20: no `for handle in requested_handles` loop in {q}')
        n_loops += len(loops)
        # ---- R1: what is collected per handle is de-duplicated before it reaches the response
        # accumulators: names filled inside a per-handle loop - a list (append / extend) or a keyed collection
        # (d[k] = v, d.update((k, v) for ..), d.setdefault(k, v))
        accs = {}
        fills = {}   # accumulator -> CFG nodes that fill it inside a handle loop
        for n in g.real_nodes():
            if not any(lp in n.loops for lp in loops):
                continue
            for c in n.calls():
                if isinstance(c.func, ast.Attribute) and isinstance(c.func.value, ast.Name):
                    nm, meth = c.func.value.id, c.func.attr
                    if meth in ('append', 'extend'):
                        accs.setdefault(nm, 'list')
                        fills.setdefault(nm, []).append(n)
                    elif meth == 'update' and c.args and isinstance(c.args[0], (ast.GeneratorExp, ast.ListComp)) and \
                            isinstance(c.args[0].elt, ast.Tuple) and len(c.args[0].elt.elts) == 2:
                        accs[nm] = f'dict keyed by {unparse(c.args[0].elt.elts[0])}'
                        fills.setdefault(nm, []).append(n)
                    elif meth == 'setdefault' and c.args:
                        accs[nm] = f'dict keyed by {unparse(c.args[0])}'
                        fills.setdefault(nm, []).append(n)
            if n.kind == 'stmt' and isinstance(n.stmt, ast.Assign) and isinstance(n.stmt.targets[0], ast.Subscript) and \
                    isinstance(n.stmt.targets[0].value, ast.Name):
                nm = n.stmt.targets[0].value.id
                accs[nm] = f'dict keyed by {unparse(n.stmt.targets[0].slice)}'
                fills.setdefault(nm, []).append(n)
        if not accs:
            raise AnalysisError(f'C20.R1: no accumulator found in {q}')
        ext = [(n, c) for n, c in g.nodes_calling('extend') if 'response.' in unparse(c.func)]

        def _dedups(v):
            """v de-duplicates objects: a set / dict.fromkeys of the objects, or a dict keyed by object identity (id(x)) or by
            the object's own Handle.  A dict keyed by DescriptorHandle is NOT one: all context states of a descriptor share it."""
            for x in ast.walk(v):
                if isinstance(x, ast.DictComp):
                    k = x.key
                    if isinstance(k, ast.Call) and call_name(k) == 'id':
                        return True
                    if isinstance(k, ast.Attribute) and k.attr == 'Handle':
                        return True
                    bad_keys.append(unparse(k))
                    continue
                if isinstance(x, (ast.SetComp, ast.Dict)) or \
                        (isinstance(x, ast.Call) and call_name(x) in ('set', 'fromkeys', 'OrderedDict')):
                    return True
            return False
        bad_keys = []

        def _dirty_at(name, at, depth=3):
            """Can a value built from a per-handle LIST accumulator reach `name` at node `at` without a de-duplication?
            -> list of reasons (empty: clean)."""
            why = []
            rd = g.reaching_defs(name).get(at.id, set())
            clean_defs = [d for d in rd if d.kind == 'stmt' and isinstance(d.stmt, ast.Assign) and _dedups(d.stmt.value)]
            if accs.get(name) == 'list':
                for m in fills.get(name, []):
                    if g.path_exists(m, at, avoid=clean_defs):
                        why.append(f'{name} filled at line {m.lineno} reaches line {at.lineno} without de-duplication')
            for d in rd:
                if d in clean_defs or d.kind != 'stmt' or not isinstance(d.stmt, ast.Assign) or depth <= 0:
                    continue
                for x in ast.walk(d.stmt.value):
                    if isinstance(x, ast.Name) and x.id != name and x.id in accs:
                        why += _dirty_at(x.id, d, depth - 1)
            return why
        for name, kind in accs.items():
            if kind.startswith('dict'):
                ok = kind.endswith('.Handle')
                ctx.ob('C20.R1', f'{fi.name}: keyed collection', ok,
                       f'{fi.name}: selected states are collected in a {kind} (each state once)', fi=fi)
        dirty = []
        for e, c in ext:
            for x in ast.walk(c):
                if isinstance(x, ast.Name) and isinstance(x.ctx, ast.Load):
                    dirty += _dirty_at(x.id, e)
        if any(k == 'list' for k in accs.values()) or dirty:
            ok = bool(ext) and not dirty
            ctx.ob('C20.R1', f'{fi.name}: list de-duplicated', ok,
                   f'{fi.name}: the list of selected states is de-duplicated before it is put into the response' if ok else
                   f'{fi.name}: states are collected per requested handle in a plain list and reach the response unfiltered: a '
                   f'handle requested twice, or a descriptor handle together with one of its context state handles, returns '
                   f'a state more than once' +
                   (f' (a dict keyed by {bad_keys} does not de-duplicate: distinct context states of one descriptor share that '
                    f'key and all but one are dropped)' if bad_keys else ''), fi=fi, witness={'paths': dirty[:4], 'keys': bad_keys})
        # ---- R2 / R3: lookups inside the loops.  A lookup is a get_one / get whose receiver resolves (through aliases and
        # locals chosen by an if/else: cfg.value_cases) to <mdib>.<table>.<index>
        def _lookup_name(c):
            hn = g.holder(c)
            if hn is None or not isinstance(c.func, ast.Attribute):
                return None
            texts = [unparse(c.func.value)] + [unparse(leaf) for _f, leaf in g.value_cases(hn, c.func.value)]
            for t in texts:
                if '_mdib.' in t and not t.startswith('None'):
                    return t.split('_mdib.')[1] + '.' + c.func.attr
            return None
        for lp in loops:
            hv = lp.target.id
            lookups = []
            for n in ast.walk(lp):
                if isinstance(n, ast.Call) and call_name(n) in ('get_one', 'get') and _lookup_name(n):
                    lookups.append(n)
            # order of evaluation in the (normalised) function: position of the holding statement in the tree walk - line
            # numbers are not usable once a helper was expanded in place
            pos = {id(x): i for i, x in enumerate(ast.walk(lp))}
            dfs = {}

            def _number(node, counter=[0]):  # noqa: B006
                dfs[id(node)] = counter[0]
                counter[0] += 1
                for ch in ast.iter_child_nodes(node):
                    _number(ch, counter)
            _number(lp, [0])
            lookups.sort(key=lambda c: dfs.get(id(c), pos.get(id(c), 0)))
            order = [_lookup_name(c) for c in lookups]
            for c in lookups:
                dep = any(depends_on(a, assigns, hv) for a in c.args)
                ctx.ob('C20.R3', f'{fi.name}: {_lookup_name(c)}', dep,
                       f'{fi.name}: lookup {_lookup_name(c)}({hv}) uses the requested handle' if dep else
                       f'{fi.name}: lookup {unparse(c)[:70]} inside the per-handle loop does not use the handle', fi=fi, node=c)
            # every other value that is added to the result inside the loop must depend on the handle
            la = local_assignments(lp)
            for n in ast.walk(lp):
                if isinstance(n, ast.Assign) and isinstance(n.targets[0], ast.Name) and \
                        'context_states.objects' in unparse(n.value):
                    dep = depends_on(n.value, {k: v for k, v in la.items() if k != n.targets[0].id}, hv)
                    ctx.ob('C20.R3', f'{fi.name}: MDS branch {unparse(n.value)[:60]}', dep,
                           f'{fi.name}: the context states returned for an MDS handle are selected by that MDS' if dep else
                           f'{fi.name}: for an MDS handle ALL context states of the MDIB are returned '
                           f'({unparse(n.value)}), independent of which MDS was named: wrong for an MDIB with several MDS',
                           fi=fi, node=n)
            if q == CS:
                want = ['context_states.handle.get_one', 'context_states.descriptor_handle.get',
                        'descriptions.handle.get_one']
                ok = order == want
                # the later lookups happen only if the earlier one found nothing
                gnodes = {c: g.holder(c) for c in lookups}
                prev_target = None
                for c in lookups:
                    n = gnodes.get(c)
                    if n is None:
                        ok = False
                        continue
                    # a later alternative is tried only when the result of the previous one (whatever it is called) is empty
                    if prev_target is not None:
                        ok = ok and any((t, False) in g.facts_at(n) for t in prev_target)
                    if n.kind == 'stmt' and isinstance(n.stmt, ast.Assign) and isinstance(n.stmt.targets[0], ast.Name):
                        tname = n.stmt.targets[0].id
                        # descriptions lookup feeds the MDS test, the accumulated result keeps its name
                        if 'context_states' in _lookup_name(c):
                            # the emptiness of this alternative may be tested on the local itself or on a local derived from
                            # it (`x = get_one(..); if x: y = [x] else: y = <next alternative>` tests x, later y)
                            prev_target = [tname] + [k for k, vals in assigns.items()
                                                     if any(tname in {z.id for z in ast.walk(v) if isinstance(z, ast.Name)}
                                                            for v in vals)]
                ctx.ob('C20.R2', f'{fi.name}: resolution order', ok,
                       'GetContextStates resolves a handle as context state, else as descriptor, else as MDS' if ok else
                       f'GetContextStates resolves handles in the order {order}', fi=fi, witness=order)
                mds = [n for n in g.real_nodes() if any('MdsDescriptor' in t and p for t, p in g.facts_at(n))
                       and n.kind == 'stmt']
                ctx.ob('C20.R2', f'{fi.name}: MDS test', bool(mds), 'the third alternative applies only to MDS descriptors',
                       fi=fi)
            else:
                # context-state lookup first (inside try), descriptor lookups in its except handler
                first = [c for c in lookups if _lookup_name(c) == 'context_states.handle.get_one']
                ok = True
                for c in first:
                    cur, child = getattr(c, '_parent', None), c
                    in_try = None
                    while cur is not None and cur is not lp:
                        if isinstance(cur, ast.Try) and any(child is s for s in cur.body):
                            in_try = cur
                            break
                        child, cur = cur, getattr(cur, '_parent', None)
                    if in_try is None:
                        ok = False
                        continue
                    hsrc = ' '.join(unparse(s) for h in in_try.handlers for s in h.body)
                    htypes = ' '.join(unparse(h.type) for h in in_try.handlers if h.type is not None)
                    ok = ok and 'states.descriptor_handle.get' in hsrc and 'context_states.descriptor_handle.get' in hsrc \
                        and 'KeyError' in htypes
                if first:
                    ctx.ob('C20.R2', f'{fi.name}: resolution order', ok,
                           'GetMdState tries the context-state handle first and falls back to the descriptor handle', fi=fi)
    ctx.floor('C20.R1', n_loops, 2, 'per-handle loops')
    # empty handle list -> all states
    for q, all_src in ((GS, 'self._mdib.states.objects'), (CS, 'self._mdib.context_states.objects')):
        fi = expand_aliases(repo.func(q))
        g = cfg_of(fi)
        alln = [n for n in g.real_nodes() if all_src in n.text() and _empty_request_fact(g.facts_at(n))]
        ctx.ob('C20.R2', f'{fi.name}: empty list', bool(alln), 'an empty handle list selects all states', fi=fi)

    # the MDS alternative of GetContextStates compares `state.source_mds` with the handle: the getter hands out what
    # set_source_mds stored, nothing derived (`... or self.Handle` makes a descriptor without MDS look like its own MDS
    # and add_descriptor never assigns the real one)
    sm = repo.func('sdc11073.mdib.descriptorcontainers.AbstractDescriptorContainer.source_mds')
    rets_sm = [r.value for r in walk_no_nested(sm.node) if isinstance(r, ast.Return) and r.value is not None]
    ok = bool(rets_sm) and all(isinstance(r, ast.Attribute) and unparse(r) == 'self._source_mds' for r in rets_sm)
    ctx.ob('C20.R2', 'source_mds is the stored MDS handle', ok,
           'AbstractDescriptorContainer.source_mds returns the stored handle' if ok else
           f'source_mds returns {[unparse(r) for r in rets_sm]}: a descriptor that has no MDS assigned yet does not report '
           f'None, add_descriptor skips the assignment and GetContextStates(<MDS handle>) misses its states', fi=sm)
    # text width filter: "not wider than requested" needs the order of pm:LocalizedTextWidth (xs < s < m < l < xl < xxl)
    tw = repo.func('sdc11073.provider.porttypes.localizationservice._tw2i')
    declared = [v.value for v in repo.cls('sdc11073.xml_types.pm_types.LocalizedTextWidth').assigns.values()
                if isinstance(v, ast.Constant) and isinstance(v.value, str)]
    order = None
    from engine.util import const_str  # noqa: F401
    lmod = repo.module('sdc11073.provider.porttypes.localizationservice')
    for n in ast.walk(tw.node):
        if isinstance(n, ast.Dict) and n.keys and all(isinstance(k, ast.Constant) for k in n.keys) and \
                all(isinstance(v, ast.Constant) and isinstance(v.value, int) for v in n.values):
            pairs = sorted(((v.value, k.value) for k, v in zip(n.keys, n.values) if isinstance(k.value, str)))
            order = [k for _v, k in pairs]
        if isinstance(n, ast.Call) and call_name(n) == 'index' and isinstance(n.func, ast.Attribute):
            seq = n.func.value
            if isinstance(seq, ast.Name):
                vals = [st.value for st in lmod.tree.body if isinstance(st, (ast.Assign, ast.AnnAssign)) and
                        unparse(st.targets[0] if isinstance(st, ast.Assign) else st.target) == seq.id and st.value is not None]
                seq = vals[0] if len(vals) == 1 else seq
            if isinstance(seq, (ast.Tuple, ast.List)) and all(isinstance(e, ast.Constant) for e in seq.elts):
                order = [e.value for e in seq.elts if isinstance(e.value, str)]
    ctx.ob('C20.R4', 'text width order', order == declared and len(declared) == 6,
           'the text widths are ranked xs < s < m < l < xl < xxl (declaration order of pm:LocalizedTextWidth)'
           if order == declared else
           f'_tw2i ranks the text widths as {order}, pm:LocalizedTextWidth declares {declared}: a request for TextWidth l is '
           f'answered with a wider xl text (or the narrower stored text is ignored)', fi=tw, witness={'ranked': order})
    # ------------------------------------------------------------------ R4
    fl = repo.func(f'{LS}.filter_localized_texts')
    params = [a.arg for a in fl.node.args.args if a.arg != 'self']
    ctx.floor('C20.R4', len(params), 5, 'filter parameters')
    assigns = local_assignments(fl.node)
    rets = [n for n in walk_no_nested(fl.node) if isinstance(n, ast.Return) and n.value is not None
            and not (isinstance(n.value, ast.List) and not n.value.elts)]
    if not rets:
        raise AnalysisError('C20.R4: no value return in filter_localized_texts')
    tests = [n.test for n in walk_no_nested(fl.node) if isinstance(n, (ast.If, ast.IfExp))]
    comp_ifs = [c for n in walk_no_nested(fl.node) if isinstance(n, (ast.ListComp,)) for g_ in n.generators for c in g_.ifs]
    loops_it = [n.iter for n in walk_no_nested(fl.node) if isinstance(n, ast.For)]
    for p in params:
        # data dependence of the returned value, or control dependence through a test / filter / loop range
        dd = any(depends_on(r.value, assigns, p) for r in rets)
        cd = any(depends_on(t, assigns, p) for t in tests + comp_ifs + loops_it)
        ctx.ob('C20.R4', f'parameter {p}', dd or cd,
               f'filter_localized_texts: parameter {p} influences the result' if dd or cd else
               f'filter_localized_texts: parameter {p} has no influence on the returned texts (the constraint is ignored)',
               fi=fl, witness={'data': dd, 'control': cd})
    # decided on data dependence (engine/deps.py) and branch facts, so that loop / comprehension / accumulate-in-a-list
    # spellings of the same selection all look the same
    from engine.deps import Deps
    ls_cls = repo.cls(LS)

    def _resolve(name):
        m = repo.resolve_method(ls_cls.qual, name)
        if m is not None:
            return m.node
        f = repo.funcs.get(f'{ls_cls.module.name}.{name}')
        return f.node if f is not None else None
    dp = Deps(fl.node, resolver=_resolve)
    gfl = cfg_of(fl)
    ret_src = set()
    for r in rets:
        ret_src |= dp.sources(r.value)
    mx = [(n, c) for n, c in gfl.nodes_calling('max')
          if ('requested_version is None', True) in gfl.facts_at(n)
          and c.args and dp.depends(c.args[0], 'self._localized_texts', 'attr:Version')]
    vcmp = [c for c in ast.walk(fl.node) if isinstance(c, ast.Compare) and len(c.ops) == 1 and isinstance(c.ops[0], ast.Eq)
            and any(isinstance(x, ast.Attribute) and x.attr == 'Version' for x in (c.left, c.comparators[0]))
            and any(dp.depends(x, 'param:requested_version', 'call:max') for x in (c.left, c.comparators[0]))]
    ok = bool(mx) and bool(vcmp) and {'cmp:Eq', 'call:max', 'param:requested_version'} <= ret_src
    ctx.ob('C20.R4', 'newest version by default', ok,
           'without a requested version the maximum stored version is used, and only texts of the effective version are '
           'returned', fi=fl, witness={'max under "requested_version is None"': [n.lineno for n, _ in mx],
                                       'version comparisons': [unparse(c) for c in vcmp]})
    lcmp = [c for c in ast.walk(fl.node) if isinstance(c, ast.Compare) and len(c.ops) == 1 and isinstance(c.ops[0], ast.In)
            and isinstance(c.left, ast.Attribute) and c.left.attr == 'Lang'
            and dp.depends(c.comparators[0], 'param:requested_langs')]
    refs = [x for x in ast.walk(fl.node) if isinstance(x, ast.Subscript) and unparse(x.value) == 'self._localized_texts'
            and dp.depends(x.slice, 'param:requested_handles')]
    # ... or in a method of the storage that gets the requested handles as an argument
    for c in [x for x in ast.walk(fl.node) if isinstance(x, ast.Call)]:
        callee, amap = dp.callee(c)
        if callee is None:
            continue
        dc_ = Deps(callee, resolver=_resolve)
        for x in ast.walk(callee):
            if isinstance(x, ast.Subscript) and unparse(x.value) == 'self._localized_texts':
                for src_ in dc_.sources(x.slice):
                    if src_.startswith('param:') and src_[6:] in amap and dp.depends(amap[src_[6:]], 'param:requested_handles'):
                        refs.append(x)
    ok = bool(lcmp) and bool(refs) and {'cmp:In', 'self._localized_texts', 'param:requested_langs',
                                        'param:requested_handles'} <= ret_src
    ctx.ob('C20.R4', 'language and reference filters', ok, 'texts are selected by reference and filtered by language', fi=fl,
           witness={'language tests': [unparse(c) for c in lcmp], 'reference lookups': [unparse(x) for x in refs]})
    sl = repo.func(f'{LS}.get_supported_languages')
    ds = Deps(sl.node)
    src_sl = set()
    for r in walk_no_nested(sl.node):
        if isinstance(r, ast.Return) and r.value is not None:
            src_sl |= ds.sources(r.value)
    ok = {'call:_flat_list', 'attr:Lang'} <= src_sl and bool({'kind:SetComp', 'kind:Set', 'call:set'} & src_sl)
    ctx.ob('C20.R4', 'supported languages', ok, 'get_supported_languages is the set of Lang over all stored texts', fi=sl,
           witness=sorted(src_sl))
    fl2 = repo.func(f'{LS}._flat_list')
    ctx.ob('C20.R4', '_flat_list covers the whole store', 'list(self._localized_texts.keys())' in xsrc(fl2),
           '_flat_list without references iterates every stored reference', fi=fl2)
    hl = repo.func('sdc11073.provider.porttypes.localizationservice.LocalizationService._on_get_localized_text')
    c = calls_in(hl.node, 'filter_localized_texts')
    want = ['get_localized_text.Ref', 'get_localized_text.Version', 'get_localized_text.Lang',
            'get_localized_text.TextWidth', 'get_localized_text.NumberOfLines']
    ok = len(c) == 1 and [unparse(a) for a in c[0].args] == want
    ctx.ob('C20.R4', 'handler passes all five constraints in order', ok,
           'the GetLocalizedText handler passes Ref, Version, Lang, TextWidth, NumberOfLines to the matching parameters',
           fi=hl, witness=[unparse(a) for a in c[0].args] if c else None)

    # ------------------------------------------------------------------ R6
    c2a = message_actions(repo)
    regs = {(r[2], r[3]): r for r in registrations(repo)}
    clients = ['sdc11073.consumer.serviceclients.getservice.GetServiceClient',
               'sdc11073.consumer.serviceclients.contextservice.ContextServiceClient',
               'sdc11073.consumer.serviceclients.localizationservice.LocalizationServiceClient']
    n_m = 0
    for cq in clients:
        for mname, fi in repo.cls(cq).methods.items():
            req = [a.attr for c in calls_in(fi.node) for a in [c.func] if isinstance(a, ast.Attribute)
                   and isinstance(a.value, ast.Attribute) and a.value.attr == 'msg_types']
            req = [r for r in req if r.startswith('Get')]
            if not req:
                continue
            rq = req[0]
            action = c2a.get(rq)
            reg = regs.get((action, rq))
            if reg is None:
                ctx.notes.append(f'{cq.rsplit(".", 1)[1]}.{mname}: request {rq} has no handler registered in this provider '
                                 f'(optional BICEPS operation); not part of C20')
                continue
            n_m += 1
            resp_cls = [a.attr for a in ast.walk(fi.node) if isinstance(a, ast.Attribute)
                        and isinstance(a.value, ast.Attribute) and a.value.attr == 'msg_types' and a.attr.endswith('Response')]
            hfi = repo.resolve_method(reg[0].qual, reg[4])
            answered = [a.attr for a in ast.walk(hfi.node) if isinstance(a, ast.Attribute)
                        and isinstance(a.value, ast.Attribute) and a.value.attr == 'msg_types' and a.attr.endswith('Response')]
            for cal in calls_in(hfi.node):
                h2 = repo.resolve_method(reg[0].qual, call_name(cal) or '')
                if h2 is not None and h2 is not hfi:
                    answered += [a.attr for a in ast.walk(h2.node) if isinstance(a, ast.Attribute)
                                 and isinstance(a.value, ast.Attribute) and a.value.attr == 'msg_types'
                                 and a.attr.endswith('Response')]
            ok = (not resp_cls and rq == 'GetMdib') or (bool(resp_cls) and resp_cls[0] in answered) and \
                c2a.get(rq + 'Response') == (action or '') + 'Response'
            ctx.ob('C20.R6', f'{cq.rsplit(".", 1)[1]}.{mname}', ok,
                   f'{mname}: request {rq} (action {action}) is registered in the provider and answered with the class the '
                   f'client parses ({resp_cls[0] if resp_cls else "reader helper"})', fi=fi,
                   witness={'request': rq, 'handler': reg[4], 'answered_with': sorted(set(answered)), 'client_parses': resp_cls})
    ctx.floor('C20.R6', n_m, 6, 'client request methods with a provider handler')


# ---------------------------------------------------------------------- self-test seeds
from selftest import seed  # noqa: E402

_G = 'src/sdc11073/provider/porttypes/getserviceimpl.py'
_C = 'src/sdc11073/provider/porttypes/contextserviceimpl.py'
_L = 'src/sdc11073/provider/porttypes/localizationservice.py'
SEEDS = [
    seed('GetMdState duplicates again', 'C20.R1',
         (_G, "                # a state shall be reported only once, also if it was selected by more than one handle\n                state_containers = list({id(state): state for state in state_containers}.values())\n", "")),
    seed('GetContextStates collects in a list', 'C20.R1',
         (_C, "                            context_state_containers_lookup[state.Handle] = state", "                            context_state_containers_lookup[state.DescriptorHandle] = state")),
    seed('GetContextStates: descriptor handle before state handle', 'C20.R2',
         (_C, "                    tmp = self._mdib.context_states.handle.get_one(handle, allow_none=True)\n                    if tmp:\n                        tmp = [tmp]\n                    if not tmp:\n                        # If a HANDLE reference does match a descriptor HANDLE,\n                        # all states that belong to the corresponding descriptor SHALL be included in the result list\n                        tmp = self._mdib.context_states.descriptor_handle.get(handle)",
          "                    tmp = self._mdib.context_states.descriptor_handle.get(handle)\n                    if not tmp:\n                        tmp = self._mdib.context_states.handle.get_one(handle, allow_none=True)\n                        if tmp:\n                            tmp = [tmp]")),
    seed('GetMdState: first handle used for every lookup', 'C20.R3',
         (_G, "                    for handle in requested_handles:\n                        state_containers.extend(self._mdib.states.descriptor_handle.get(handle, []))", "                    for handle in requested_handles:\n                        state_containers.extend(self._mdib.states.descriptor_handle.get(requested_handles[0], []))")),
    seed('localized texts: language constraint ignored', 'C20.R4',
         (_L, "        if requested_langs is not None and len(requested_langs) > 0:\n            texts = [t for t in texts if t.Lang in requested_langs]\n", "")),
    seed('localized texts: handler swaps width and lines', 'C20.R4',
         (_L, "                                                                 get_localized_text.TextWidth,\n                                                                 get_localized_text.NumberOfLines)", "                                                                 get_localized_text.NumberOfLines,\n                                                                 get_localized_text.TextWidth)")),
    seed('localized texts: oldest version by default', 'C20.R4', (_L, "                effective_requested_version = max(all_versions)", "                effective_requested_version = min(all_versions)")),
    seed('client parses GetMdState answer as GetMdDescriptionResponse', 'C20.R6',
         ('src/sdc11073/consumer/serviceclients/getservice.py', "        cls = data_model.msg_types.GetMdStateResponse", "        cls = data_model.msg_types.GetMdDescriptionResponse")),
    seed('control: rename loop variable', 'C20.R3',
         (_G, "                    for handle in requested_handles:\n                        state_containers.extend(self._mdib.states.descriptor_handle.get(handle, []))", "                    for hdl in requested_handles:\n                        state_containers.extend(self._mdib.states.descriptor_handle.get(hdl, []))"), control=True),
]
