"""C01 - consumer MDIB is an exact mirror of the provider MDIB after any report history.

Whole-MDIB equality is a runtime fact and NOT decided.  Decided (structural necessary conditions):
  R1 report-routing closure: for each of the nine TransactionResult fields the chain
     field -> send_* call -> report class / action -> consumer splitter -> observable -> bound handler ->
     parsed with the class of the same action -> process_incoming_* -> *_by_handle observable closes.
  R2 handler siblings: every incoming-state handler gates on the MdibVersion, takes over the version
     group before touching the tables, updates existing objects in place AND re-indexes them, adds
     unknown ones, and assigns its observable on all exits with the dict the update produced.
  R3 notification dicts are keyed by the unique key of the table the object lives in.
  R4 start-up order: bind before GetMdib; state switch, replay and the switch to `initialized`
     under the locks; buffered reports replayed only with matching sequence id and newer version.
"""
from __future__ import annotations

import ast
import re

from engine.cfg import expand_aliases, call_name, cfg_of
from engine.errors import AnalysisError
from engine.repo import walk_no_nested
from engine.util import calls_in, dotted, local_assignments, unparse, xsrc

from .c11 import index_key_attrs

ID = 'C01'
PV = 'sdc11073.provider.providerimpl.SdcProvider'
CM = 'sdc11073.mdib.consumermdib.ConsumerMdib'
CX = 'sdc11073.mdib.consumermdibxtra.ConsumerMdibMethods'
FIELDS = ['descr_created', 'descr_updated', 'descr_deleted', 'metric_updates', 'alert_updates', 'comp_updates',
          'ctxt_updates', 'op_updates', 'rt_updates']
EXPECT_OBSERVABLE = {'metric_updates': 'metrics_by_handle', 'alert_updates': 'alert_by_handle',
                     'comp_updates': 'component_by_handle', 'ctxt_updates': 'context_by_handle',
                     'op_updates': 'operation_by_handle', 'rt_updates': 'waveform_by_handle',
                     'descr_created': 'new_descriptors_by_handle', 'descr_updated': 'updated_descriptors_by_handle',
                     'descr_deleted': 'deleted_descriptor_by_handle'}
STATE_HANDLERS = ['_process_incoming_metric_states_report', '_process_incoming_alert_states_report',
                  '_process_incoming_operational_states_report', '_process_incoming_context_states_report',
                  '_process_incoming_component_states_report', '_process_incoming_waveform_states']


def _bound_value(def_node, name):
    st = def_node.stmt
    if def_node.kind == 'stmt' and isinstance(st, ast.Assign):
        for t in st.targets:
            if isinstance(t, ast.Name) and t.id == name:
                return st.value
    return None


def provider_field_to_send(repo):
    """field -> set of send_* method names, by reaching definitions in _send_episodic_reports."""
    fi = repo.func(f'{PV}._send_episodic_reports')
    g = cfg_of(fi)
    param = fi.node.args.args[1].arg
    locals_ = set(local_assignments(fi.node))
    rdefs = {nm: g.reaching_defs(nm) for nm in locals_}
    all_states_fields = set()
    tr = repo.cls('sdc11073.mdib.transactions.TransactionResult').methods.get('all_states')
    if tr is not None:
        all_states_fields = {a.attr for a in ast.walk(tr.node) if isinstance(a, ast.Attribute) and a.attr in FIELDS}

    def fields_of(e, node, depth=4):
        out = set()
        for a in ast.walk(e):
            if isinstance(a, ast.Attribute) and isinstance(a.value, ast.Name) and a.value.id == param:
                if a.attr in FIELDS:
                    out.add(a.attr)
                if a.attr == 'all_states':
                    out |= all_states_fields
            if isinstance(a, ast.Name) and a.id in rdefs and depth:
                for d in rdefs[a.id].get(node.id, ()):
                    v = _bound_value(d, a.id)
                    if v is not None:
                        out |= fields_of(v, d, depth - 1)
        return out
    mapping = {}
    sends = []
    for n in g.real_nodes():
        for c in n.calls():
            nm = call_name(c)
            if nm and nm.startswith('send_'):
                fs = set()
                for a in c.args:
                    fs |= fields_of(a, n)
                sends.append((nm, fs, c))
                for f in fs:
                    mapping.setdefault(f, set()).add(nm)
    return fi, mapping, sends


def send_to_report_class(repo):
    """send_* method name -> (report class name, FuncInfo) from the port type implementations."""
    out = {}
    for fi in repo.funcs.values():
        if not fi.module.name.startswith('sdc11073.provider.porttypes') or not fi.name.startswith('send_'):
            continue
        if fi.cls is None or fi.cls.name.endswith('Protocol'):
            continue
        cls_names = []
        for c in calls_in(fi.node):
            f = c.func
            if isinstance(f, ast.Attribute) and isinstance(f.value, ast.Attribute) and f.value.attr == 'msg_types':
                cls_names.append(f.attr)
        callees = [call_name(c) for c in calls_in(fi.node)]
        if not cls_names:
            # helper that builds the body (description modification report)
            for cal in callees:
                h = repo.resolve_method(fi.cls.qual, cal) if cal else None
                if h is not None and h is not fi:
                    for c in calls_in(h.node):
                        f = c.func
                        if isinstance(f, ast.Attribute) and isinstance(f.value, ast.Attribute) and \
                                f.value.attr == 'msg_types' and f.attr[0].isupper() and f.attr.endswith('Report'):
                            cls_names.append(f.attr)
        if cls_names:
            out[fi.name] = (cls_names[0], fi)
    return out


def message_actions(repo):
    """message class name -> Actions member name (class attribute `action = Actions.X`)."""
    out = {}
    for q, ci in repo.classes.items():
        if q.startswith('sdc11073.xml_types.msg_types.'):
            v = ci.assigns.get('action')
            if isinstance(v, ast.Attribute) and dotted(v.value) == 'Actions':
                out[ci.name] = v.attr
    return out


def reload_replay_rules(ctx, rule):
    """reload_all: initializing before clearing and GetMdib; replay, emptying of the buffer and the switch to `initialized` inside the
    buffer lock; replay guards; replay before initialized."""
    repo = ctx.repo
    rl = repo.method(CM, 'reload_all')
    g = cfg_of(rl)

    def stores_state(val):
        return [n for n in g.real_nodes() if n.kind == 'stmt' and isinstance(n.stmt, ast.Assign) and
                unparse(n.stmt.targets[0]) == 'self._state' and unparse(n.stmt.value).endswith(val)]
    init_s, done_s = stores_state('.initializing'), stores_state('.initialized')
    getm = g.nodes_calling('get_mdib')
    clr = g.nodes_calling('clear') + g.nodes_calling('clear_states')
    ok = len(init_s) == 1 and len(done_s) == 1 and bool(getm) and bool(clr) and \
        all(g.dominates(init_s[0], x) for x, _ in getm + clr) and g.dominates(getm[0][0], done_s[0])
    ctx.ob(rule, 'initializing before clearing and GetMdib', ok,
           'reload_all switches to `initializing` (reports are buffered) before it clears the tables and requests the MDIB',
           fi=rl)
    in_mdib = all(g.held_withs(n, 'mdib_lock') for n in init_s + done_s + [x for x, _ in getm + clr])
    ctx.ob(rule, 'reload under mdib_lock', in_mdib, 'the whole reload runs inside `with self.mdib_lock`', fi=rl)
    replay = [(n, c) for n, c in g.nodes_where(lambda a: isinstance(a, ast.Call) and unparse(a.func).endswith('.handler'))]
    # the buffer is emptied: `del buf[:]`, `buf.clear()` or `buf[:] = []`
    dels = [n for n in g.real_nodes() if n.kind == 'stmt' and isinstance(n.stmt, ast.Delete) and
            '_buffered_notifications' in unparse(n.stmt)]
    dels += [n for n, c in g.nodes_calling('clear') if '_buffered_notifications' in unparse(c.func)]
    dels += [n for n in g.real_nodes() if n.kind == 'stmt' and isinstance(n.stmt, ast.Assign) and
             isinstance(n.stmt.targets[0], ast.Subscript) and '_buffered_notifications' in unparse(n.stmt.targets[0].value) and
             isinstance(n.stmt.value, (ast.List, ast.Tuple)) and not n.stmt.value.elts]
    inside = bool(replay) and bool(dels) and bool(done_s) and \
        all(g.held_withs(n, '_buffered_notifications_lock') for n in [x for x, _ in replay] + dels + done_s)
    ctx.ob(rule, 'replay and switch to initialized under the buffer lock', inside,
           'the replay of buffered reports, the emptying of the buffer and the switch to `initialized` happen inside '
           '`with self._buffered_notifications_lock`' if inside else
           'the switch to `initialized` (or the replay / buffer reset) is outside the buffer lock: a report that arrives '
           'in the gap is appended to the buffer after the replay and is never applied', fi=rl,
           witness={'replay': [n.lineno for n, _ in replay], 'initialized_store': [n.lineno for n in done_s]})
    ok = bool(replay)
    for n, c in replay:
        facts = g.facts_at(n)
        ok = ok and any('sequence_id == self.sequence_id' in t and p is True for t, p in facts.both())
        ok = ok and any('mdib_version <= self.mdib_version' in t and p is False for t, p in facts.both())
    ctx.ob(rule, 'replay guards', ok,
           'a buffered report is replayed only if its sequence id is the loaded one and its MdibVersion is newer', fi=rl)
    ok = bool(replay) and bool(dels) and bool(done_s) and all(g.dominates(dels[0], d) or g.dominates(d, dels[0]) for d in done_s) \
        and not any(g.path_exists(done_s[0], r) for r, _ in replay)
    ctx.ob(rule, 'replay before initialized', ok, 'all buffered reports are replayed before the state becomes '
           '`initialized`', fi=rl)


def run(ctx):  # noqa: C901, PLR0912, PLR0915
    repo = ctx.repo
    ctx.rule('C01.R1', 'routing closure provider field -> report/action -> consumer observable -> handler -> table update')
    ctx.rule('C01.R2', 'handler siblings agree on gate, version take-over, in-place update + re-index, add, notify')
    ctx.rule('C01.R3', 'notification dicts keyed by the unique key of the owning table')
    ctx.rule('C01.R4', 'start-up / reload order and guards')

    # ------------------------------------------------------------------ R1
    pfi, f2s, sends = provider_field_to_send(repo)
    s2c = send_to_report_class(repo)
    c2a = message_actions(repo)
    ctx.floor('C01.R1', len(sends), 7, 'send_* calls in _send_episodic_reports')
    ctx.floor('C01.R1', len(s2c), 10, 'send_* implementations with a report class')
    ctx.floor('C01.R1', len(c2a), 40, 'message classes with an action')
    lk = repo.func('sdc11073.consumer.consumerimpl._NotificationsSplitter._mk_lookup')
    dicts = [n for n in ast.walk(lk.node) if isinstance(n, ast.Dict)]
    if not dicts:
        raise AnalysisError('C01.R1: splitter lookup dict not found')
    a2o = {k.attr: v.value for k, v in zip(dicts[0].keys, dicts[0].values)
           if isinstance(k, ast.Attribute) and isinstance(v, ast.Constant)}
    sp = repo.func('sdc11073.consumer.consumerimpl._NotificationsSplitter.on_notification')
    src = xsrc(sp)
    ctx.ob('C01.R1', 'splitter sets the observable', 'self._lookup.get(message_data.action)' in src and
           'setattr(self._sdc_consumer, observable_name, message_data)' in src,
           'the splitter assigns the received message to the observable its action maps to', fi=sp)
    bd = repo.func(f'{CX}.bind_to_client_observables')
    o2h = {}
    for c in calls_in(bd.node, 'bind'):
        for kw in c.keywords:
            if isinstance(kw.value, ast.Attribute) and not kw.value.attr.endswith('_profiled'):
                o2h[kw.arg] = kw.value.attr
    ctx.floor('C01.R1', len(o2h), 4, 'observables bound by the consumer mdib')
    declared = set()
    for cq in repo.mro('sdc11073.consumer.consumerimpl.SdcConsumer'):
        declared |= {n for n, v in repo.classes[cq].assigns.items()
                     if isinstance(v, ast.Call) and call_name(v) == 'ObservableProperty'}
    for field in FIELDS:
        steps = []
        ok = True
        snd = sorted(f2s.get(field, []))
        if not snd:
            ctx.ob('C01.R1', f'{field}', False,
                   f'TransactionResult.{field} does not flow into any send_* call of _send_episodic_reports: changes of '
                   f'that kind are committed but never reported', fi=pfi)
            continue
        chain_ok = False
        for s in snd:
            if s not in s2c:
                steps.append(f'{s}: no report class')
                continue
            cls_name, sfi = s2c[s]
            action = c2a.get(cls_name)
            obs = a2o.get(action)
            handler = o2h.get(obs)
            steps.append(f'{field} -> {s} -> {cls_name} -> Actions.{action} -> {obs} -> {handler}')
            if not (action and obs and handler and obs in declared):
                continue
            hfi = repo.resolve_method(CX, handler)
            if hfi is None:
                continue
            parsed = [a.attr for a in ast.walk(hfi.node) if isinstance(a, ast.Attribute) and
                      isinstance(a.value, ast.Attribute) and a.value.attr == 'msg_types']
            procs = [call_name(c) for c in calls_in(hfi.node) if (call_name(c) or '').startswith('process_incoming_')]
            same_action = [p for p in parsed if c2a.get(p) == action]
            steps[-1] += f' -> parses {parsed} -> {procs}'
            if not same_action or len(procs) != 1:
                continue
            pub = repo.resolve_method(CM, procs[0])
            if pub is None:
                continue
            inner = [call_name(c) for c in calls_in(pub.node) if (call_name(c) or '').startswith('_process_incoming_')]
            if not inner:
                continue
            ifi = repo.resolve_method(CM, inner[0])
            stores = {t.attr for n in walk_no_nested(ifi.node) if isinstance(n, ast.Assign) for t in n.targets
                      if isinstance(t, ast.Attribute) and dotted(t.value) == 'self'}
            want = EXPECT_OBSERVABLE[field]
            steps[-1] += f' -> {inner[0]} sets {sorted(s for s in stores if "by_handle" in s or s.startswith("description"))}'
            if want in stores:
                chain_ok = True
        ctx.ob('C01.R1', f'{field}', chain_ok,
               f'{field}: the report chain closes end to end' if chain_ok else
               f'{field}: the chain from the committed change to the consumer table/notification is broken: {steps}',
               fi=pfi, witness=steps)
    # every send call is conditional only on the non-emptiness of what it sends
    g = cfg_of(pfi)
    for n in g.real_nodes():
        for c in n.calls():
            if (call_name(c) or '').startswith('send_'):
                facts = [(t, p) for t, p in g.facts_at(n)]
                ok = all(_nonempty_fact(t, p) or (p is True and t.endswith('has_descriptor_updates'))
                         for t, p in facts) and len(facts) == 1
                ctx.ob('C01.R1', f'{call_name(c)} condition', ok,
                       f'{call_name(c)} is sent whenever there is something of its kind to report' if ok else
                       f'{call_name(c)} is sent only under {facts}: committed changes can stay unreported', fi=pfi, node=c,
                       witness={'facts': facts})
    # each send_* implementation passes its own report's action and version group on
    for name, (cls_name, sfi) in sorted(s2c.items()):
        src = xsrc(sfi)
        ok = 'send_to_subscribers(' in src and bool(re.search(r'Actions\.\w+\.value|action\.value', src)) and 'mdib_version_group' in src
        ctx.ob('C01.R1', f'{sfi.cls.name}.{name} hands over', ok,
               f'{name} sends a {cls_name} with its own action value and the version group', fi=sfi)

    from . import common
    common.version_group_setters_total(ctx, 'C01.R1')
    common.reconstruction_is_uncached(ctx, 'C01.R4')   # a consumer that initialises later gets the current description
    from .c04 import parent_bump_is_reported
    parent_bump_is_reported(ctx, 'C01.R1')   # the consumer is told the version the provider has
    from .c06 import public_handlers_prechecked
    public_handlers_prechecked(ctx, 'C01.R4')   # a buffered report is replayed by the handler of its own kind
    from .c04 import description_report_parts
    description_report_parts(ctx, 'C01.R1')   # what the consumer is told about descriptors is complete
    common.observers_all_notified(ctx, 'C01.R1')   # every commit reaches the report sender
    common.update_from_other_is_total(ctx, 'C01.R2')
    ctx.borrow('C06', {'C06.R3'}, 'C01.R4', contains=['unconditional'], why='reports that arrive during the initial load are buffered')
    common.readers_test_only_for_none(ctx, 'C01.R2')
    n_parts = 0
    for nm_, hf in sorted(repo.cls(CM).methods.items()):
        la_h = local_assignments(hf.node)

        def _over_parts(it):
            # `for part in report.ReportPart` or over a local that is bound to it (`parts = report.ReportPart`)
            return 'ReportPart' in unparse(it) or (isinstance(it, ast.Name) and any('ReportPart' in unparse(v) for v in la_h.get(it.id, [])))
        for lp in [x for x in walk_no_nested(hf.node) if isinstance(x, ast.For) and _over_parts(x.iter)]:
            n_parts += 1
            early = [unparse(x)[:40] for b in lp.body for x in ast.walk(b) if isinstance(x, (ast.Return, ast.Break))]
            ctx.ob('C01.R2', f'{nm_}: every report part is visited', not early,
                   f'{nm_} runs through all report parts' if not early else
                   f'{nm_} leaves the loop over the report parts early ({early}): the parts of the second MDS are dropped while '
                   f'the MdibVersion of the report is taken over', fi=hf, node=lp)
    ctx.floor('C01.R2', n_parts, 1, 'loops over report parts in ConsumerMdib')
    from .c02 import handouts_are_versioned
    handouts_are_versioned(ctx, 'C01.R2')   # what is committed carries a version the mirrors accept
    common.copies_are_deep(ctx, 'C01.R1')   # what is reported is what was committed: the published copies share nothing
    ctx.borrow('C04', {'C04.R2'}, 'C01.R1', why='every committed state reaches a report part')
    # ------------------------------------------------------------------ R2
    upd_funcs = {}
    for h in STATE_HANDLERS:
        fi = repo.method(CM, h)
        g = cfg_of(fi)
        gate = [b for b in g.nodes if b.kind == 'branch' and b.label is True and
                '_can_accept_mdib_version' in unparse(b.test)]
        takeover = g.nodes_calling('_update_from_mdib_version_group')
        updates = g.nodes_calling('_update_from_states_report') + g.nodes_calling('_update_from_context_states_report') + \
            g.nodes_calling('update_from_other_container') + g.nodes_calling('add_object')
        ok = len(gate) == 1 and len(takeover) == 1 and bool(updates)
        if ok:
            ok = g.dominates(gate[0], takeover[0][0]) and all(g.dominates(takeover[0][0], u) for u, _ in updates)
        ctx.ob('C01.R2', f'{h}: gate < version take-over < update', ok,
               f'{h}: the MdibVersion gate dominates the take-over of the version group, which precedes every table '
               f'update', fi=fi)
        # observable on all exits with the produced dict
        obs_stores = [(n, t) for n in g.nodes if n.kind == 'stmt' and isinstance(n.stmt, ast.Assign)
                      for t in n.stmt.targets if isinstance(t, ast.Attribute) and t.attr.endswith('_by_handle')]
        fin = [n for n, t in obs_stores if any(part == 'finalbody' for _tr, part in n.trys)]
        dict_names = {unparse(n.stmt.value) for n, t in obs_stores}
        produced = set()
        for u, c in updates:
            if isinstance(u.stmt, ast.Assign) and isinstance(u.stmt.targets[0], ast.Name):
                produced.add(u.stmt.targets[0].id)
        for n in g.real_nodes():
            if n.kind == 'stmt' and isinstance(n.stmt, ast.Assign) and isinstance(n.stmt.targets[0], ast.Subscript) and \
                    isinstance(n.stmt.targets[0].value, ast.Name):
                produced.add(n.stmt.targets[0].value.id)
        ok = len(fin) >= 2 and len(dict_names) == 1 and dict_names <= produced
        ctx.ob('C01.R2', f'{h}: notification on all exits', ok,
               f'{h}: the *_by_handle observable is assigned in the finally block (normal and exceptional exit) with the '
               f'dict the update produced', fi=fi, witness={'observable_value': sorted(dict_names), 'produced': sorted(produced)})
        for u, c in updates:
            nm = call_name(c)
            if nm.startswith('_update_from_'):
                upd_funcs[nm] = repo.method(CM, nm)
        if h == '_process_incoming_waveform_states':
            upd_funcs[h] = fi
    ctx.floor('C01.R2', len(upd_funcs), 3, 'functions that apply incoming states')
    for nm, fi in sorted(upd_funcs.items()):
        g = cfg_of(fi)
        ups = g.nodes_calling('update_from_other_container')
        adds = g.nodes_calling('add_object')
        reidx = g.nodes_calling('update_object')
        refs = g.nodes_calling('_set_descriptor_container_reference')
        ok = bool(ups) and bool(adds) and bool(reidx) and bool(refs)
        for u, c in ups:
            facts = g.facts_at(u)
            ok = ok and any('_has_new_state_usable_state_version' in t and p is True for t, p in facts.both()) and \
                any(t.endswith('is None') and p is False for t, p in facts.both())
            ok = ok and any(g.dominates(u, r) for r, _ in reidx)
        for a, c in adds:
            facts = g.facts_at(a)
            ok = ok and any(t.endswith('is None') and p is True for t, p in facts.both())
            ok = ok and any(g.dominates(r, a) for r, _ in refs)
        ctx.ob('C01.R2', f'{nm}: update / add', ok,
               f'{nm}: a known state is updated in place under the StateVersion gate and re-indexed, an unknown one gets '
               f'its descriptor reference and is added', fi=fi)

    # ------------------------------------------------------------------ R3
    keys = index_key_attrs(repo)
    uniq = {}
    for tq, idx in keys.items():
        for name, (attr, kind) in idx.items():
            if kind == 'UIndexDefinition':
                uniq[tq.rsplit('.', 1)[1]] = attr
    table_key = {'states': uniq.get('StatesLookup'), 'context_states': uniq.get('MultiStatesLookup'),
                 'descriptions': uniq.get('DescriptorsLookup')}
    if None in table_key.values():
        raise AnalysisError(f'C01.R3: unique index attributes not found: {table_key}')
    n_keys = 0
    for nm, fi in sorted(upd_funcs.items()):
        tables = {a.attr for a in ast.walk(fi.node) if isinstance(a, ast.Attribute) and dotted(a.value) == 'self'
                  and a.attr in ('states', 'context_states')}
        if len(tables) != 1:
            raise AnalysisError(f'C01.R3: {nm} works on tables {tables}')
        want = table_key[tables.pop()]
        for n in walk_no_nested(fi.node):
            if isinstance(n, ast.Assign) and isinstance(n.targets[0], ast.Subscript) and \
                    isinstance(n.targets[0].value, ast.Name) and n.targets[0].value.id.endswith('by_handle'):
                k = n.targets[0].slice
                n_keys += 1
                ok = isinstance(k, ast.Attribute) and k.attr == want and unparse(k.value) == unparse(n.value)
                ctx.ob('C01.R3', f'{nm}: {unparse(n.targets[0])}', ok,
                       f'{nm}: the notification entry is keyed by the unique key {want} of its table' if ok else
                       f'{nm}: notification dict is keyed by {unparse(k)} but the unique key of the table is {want}: two '
                       f'changed objects with the same {getattr(k, "attr", "?")} overwrite each other and the '
                       f'notification no longer names every changed entity', fi=fi, node=n)
    # (one store per function is enough: the add and the update branch may share one store through a local)
    with_store = {nm for nm, fi in upd_funcs.items() if any(
        isinstance(n, ast.Assign) and isinstance(n.targets[0], ast.Subscript) and isinstance(n.targets[0].value, ast.Name)
        and n.targets[0].value.id.endswith('by_handle') for n in walk_no_nested(fi.node))}
    if with_store != set(upd_funcs):
        raise AnalysisError(f'C01.R3: no *_by_handle store found in {sorted(set(upd_funcs) - with_store)}')
    ctx.floor('C01.R3', n_keys, len(upd_funcs), 'stores into *_by_handle dicts on the consumer')
    tm = expand_aliases(repo.func('sdc11073.mdib.providermdib.ProviderMdib._transaction_manager'))
    field_table = {'alert_updates': 'states', 'comp_updates': 'states', 'metric_updates': 'states',
                   'op_updates': 'states', 'rt_updates': 'states', 'ctxt_updates': 'context_states',
                   'descr_created': 'descriptions', 'descr_deleted': 'descriptions', 'descr_updated': 'descriptions'}
    n_pk = 0
    for n in walk_no_nested(tm.node):
        if isinstance(n, ast.Assign) and isinstance(n.value, ast.DictComp):
            it = n.value.generators[0].iter
            if isinstance(it, ast.Attribute) and it.attr in field_table:
                n_pk += 1
                want = table_key[field_table[it.attr]]
                k = n.value.key
                ok = isinstance(k, ast.Attribute) and k.attr == want
                ctx.ob('C01.R3', f'provider {unparse(n.targets[0])}', ok,
                       f'provider notification {unparse(n.targets[0])} is keyed by {want}', fi=tm, node=n)
    ctx.floor('C01.R3', n_pk, 9, 'provider notification dicts')

    # ------------------------------------------------------------------ R4
    im = repo.method(CM, 'init_mdib')
    g = cfg_of(im)
    b, r = g.nodes_calling('bind_to_client_observables'), g.nodes_calling('reload_all')
    ctx.ob('C01.R4', 'bind before load', bool(b) and bool(r) and g.dominates(b[0][0], r[0][0]),
           'init_mdib binds to the notification observables before it requests the MDIB (no report is missed)', fi=im)
    reload_replay_rules(ctx, 'C01.R4')
    pc = repo.method(CM, '_pre_check_report_ok')
    g = cfg_of(pc)
    app = [n for n, c in g.nodes_calling('append') if '_buffered_notifications' in unparse(c.func)]
    ok = bool(app)
    from .c06 import _state_confirmed_in_lock
    for n in app:
        ok = ok and bool(g.held_withs(n, '_buffered_notifications_lock')) and \
            _state_confirmed_in_lock(g, n, 'self._state == ConsumerMdibState.initializing')
    ctx.ob('C01.R4', 'buffering re-checks the state under the lock', ok,
           '_pre_check_report_ok appends to the buffer only inside the buffer lock and after re-checking `initializing` '
           'there', fi=pc)


# ---------------------------------------------------------------------- self-test seeds
def _nonempty_fact(text, polarity) -> bool:
    """(text, polarity) says `the list is not empty`: len(x) > 0 / len(x) >= 1 / len(x) != 0 / x  true, or
    len(x) == 0 / len(x) < 1 / len(x) <= 0 / not x  false (canonical literals: see cfg.canon_compare)."""
    t = text.replace(' ', '')
    import re as _re
    if polarity is True:
        return bool(_re.fullmatch(r'len\(.+\)>0|0<len\(.+\)|len\(.+\)>=1|1<=len\(.+\)|len\(.+\)!=0', t)) or \
            bool(_re.fullmatch(r'[A-Za-z_][\w.]*', t))
    return bool(_re.fullmatch(r'len\(.+\)==0|0==len\(.+\)|len\(.+\)<1|1>len\(.+\)|len\(.+\)<=0|0>=len\(.+\)', t))


from selftest import seed  # noqa: E402

_P = 'src/sdc11073/provider/providerimpl.py'
_CM = 'src/sdc11073/mdib/consumermdib.py'
_CX = 'src/sdc11073/mdib/consumermdibxtra.py'
_CI = 'src/sdc11073/consumer/consumerimpl.py'
SEEDS = [
    seed('operational states sent as component report', 'C01.R1',
         (_P, "            port_type_impl.send_episodic_operational_state_report(states, mdib_version_group)", "            port_type_impl.send_episodic_component_state_report(states, mdib_version_group)")),
    seed('component updates not reported', 'C01.R1',
         (_P, "        states = transaction_result.comp_updates\n        if len(states) > 0:", "        states = transaction_result.comp_updates\n        if len(states) > 0 and False:"), accept_analysis_error=False),
    seed('alert binding dropped', 'C01.R1',
         (_CX, "        properties.bind(self._sdc_client, episodic_alert_report=self._on_episodic_alert_report)\n", "")),
    seed('component handler parses the alert report class', 'C01.R1',
         (_CX, "        cls = self._mdib.data_model.msg_types.EpisodicComponentReport", "        cls = self._mdib.data_model.msg_types.EpisodicAlertReport")),
    seed('splitter routes context reports to the component observable', 'C01.R1',
         (_CI, "            actions.EpisodicContextReport: 'episodic_context_report',", "            actions.EpisodicContextReport: 'episodic_component_report',")),
    seed('alert handler updates before the version gate', 'C01.R2',
         (_CM, "            if self._can_accept_mdib_version(mdib_version_group.mdib_version, 'alert states'):\n                self._update_from_mdib_version_group(mdib_version_group)\n                states_by_handle = self._update_from_states_report('alert states', report)",
          "            states_by_handle = self._update_from_states_report('alert states', report)\n            if self._can_accept_mdib_version(mdib_version_group.mdib_version, 'alert states'):\n                self._update_from_mdib_version_group(mdib_version_group)")),
    seed('component handler forgets the version group', 'C01.R2',
         (_CM, "            if self._can_accept_mdib_version(mdib_version_group.mdib_version, 'component states'):\n                self._update_from_mdib_version_group(mdib_version_group)\n", "            if self._can_accept_mdib_version(mdib_version_group.mdib_version, 'component states'):\n")),
    seed('metric notification only on success', 'C01.R2',
         (_CM, "                states_by_handle = self._update_from_states_report('metric states', report)\n        finally:\n            self.metrics_by_handle = states_by_handle  # update observable",
          "                states_by_handle = self._update_from_states_report('metric states', report)\n                self.metrics_by_handle = states_by_handle  # update observable\n        finally:\n            pass")),
    seed('context notification keyed by DescriptorHandle again', 'C01.R3',
         (_CM, "                        states_by_handle[old_state_container.Handle] = old_state_container", "                        states_by_handle[old_state_container.DescriptorHandle] = old_state_container")),
    seed('reload: initialized outside the buffer lock', 'C01.R4',
         (_CM, "                del self._buffered_notifications[:]\n                self._state = ConsumerMdibState.initialized", "                del self._buffered_notifications[:]\n            self._state = ConsumerMdibState.initialized")),
    seed('reload: replay ignores the version', 'C01.R4',
         (_CM, "                    if buffered_report.mdib_version_group.mdib_version <= self.mdib_version:", "                    if buffered_report.mdib_version_group.mdib_version < 0:")),
    seed('init: GetMdib before binding', 'C01.R4',
         (_CM, "        self._xtra.bind_to_client_observables()\n        self.reload_all()", "        self.reload_all()\n        self._xtra.bind_to_client_observables()")),
    seed('control: local alias for the report parts', 'C01.R2',
         (_CM, "        states_by_handle = {}\n        for report_part in report.ReportPart:\n            for state_container in report_part.values_list:\n                src = self.states",
          "        states_by_handle = {}\n        parts = report.ReportPart\n        for report_part in parts:\n            for state_container in report_part.values_list:\n                src = self.states"), control=True),
]
