"""C14 - WS-Discovery answers and records exactly what its matching rules prescribe.

Decided (structural necessary conditions):
  R1 duplicate suppression: in the queue reader the handler is reached only on the false edge of
     `mid in known ids`, after the id was registered; the store is bounded; every writer of the id store
     inserts at the same end (so eviction is oldest-first for all of them).
  R2 dispatch table: one entry per discovery message class; each handler parses with the class whose
     action is its key.
  R3 metadata-version arbitration in _add_remote_service: store for unknown epr and for a newer version,
     merge only for the same version, nothing for an older one; Bye removes the entry.
  R4 Resolve is answered only for a published epr; Probe is answered with
     filter_services(local services, probe.Types, probe.Scopes).
  R5 quantifier shape of the filter: forall requested type exists offered type (match_type) and forall
     requested scope exists offered scope (match_scope(requested, offered, MatchBy)); an absent filter
     accepts; the path comparison is a prefix test of the requested segments.
  R6 both operands of match_scope are normalised identically (urlsplit, lower-cased scheme and netloc,
     split on '/', unquote per segment, no segment dropped); strcmp is plain equality.
Not decided: the matching function's value over all URI strings.
"""
from __future__ import annotations

import ast
import re

from engine.cfg import call_name, cfg_of, expand_aliases
from engine.errors import AnalysisError
from engine.repo import walk_no_nested
from engine.util import calls_in, unparse, xsrc

ID = 'C14'
W = 'sdc11073.wsdiscovery.wsdimpl'
NT = 'sdc11073.wsdiscovery.networkingthread.NetworkingThread'


def run(ctx):  # noqa: C901, PLR0912, PLR0915
    repo = ctx.repo
    ctx.rule('C14.R1', 'a message id is handled once: guard + registration + bounded FIFO with one insertion end')
    ctx.rule('C14.R2', 'dispatch table complete and consistent with the parsing classes')
    ctx.rule('C14.R3', 'highest metadata version wins; Bye removes')
    ctx.rule('C14.R4', 'Resolve only for published eprs; Probe answered from the local services through the filter')
    ctx.rule('C14.R5', 'forall/exists shape of the type and scope filter; prefix comparison with requested first')
    ctx.rule('C14.R6', 'symmetric normalisation of the two scope operands')

    # ------------------------------------------------------------------ R1
    rq = expand_aliases(repo.func(f'{NT}._run_q_read'))   # `known = self._known_message_ids` style aliases written out
    g = cfg_of(rq)
    hs = g.nodes_calling('handle_received_message')
    if not hs:
        raise AnalysisError('C14.R1: handle_received_message call not found in _run_q_read')
    regs = [n for n, c in g.nodes_calling('appendleft') + g.nodes_calling('append')
            if '_known_message_ids' in unparse(c.func)]
    for n, c in hs:
        facts = g.facts_at(n)
        # the tested id is whatever local / expression stands left of `in self._known_message_ids`
        tested = [t[:-len(' in self._known_message_ids')] for t, p in facts.both() if p is False
                  and t.endswith(' in self._known_message_ids')]
        ok = bool(tested) and any(g.dominates(r, n) for r in regs)
        ctx.ob('C14.R1', 'known ids are skipped', ok,
               'a received message is handled only if its id is not among the known ids, and its id is registered before'
               if ok else 'the handler is reachable for a message whose id is already known (or the id is not '
                          'registered first): repeated datagrams are acted on again', fi=rq, node=c,
               witness={'facts': facts})
    ids = set()
    for n, c in hs:
        for t, p in g.facts_at(n).resolved:
            if p is False and t.endswith(' in self._known_message_ids'):
                ids.add(t[:-len(' in self._known_message_ids')])
    ok = bool(ids) and all(i.endswith('header_info_block.MessageID') for i in ids)
    ctx.ob('C14.R1', 'id is the MessageID', ok, 'the id is the wsa:MessageID of the received message', fi=rq)
    init = repo.func(f'{NT}.__init__')
    dq = [n for n in walk_no_nested(init.node) if isinstance(n, ast.Assign) and
          unparse(n.targets[0]) == 'self._known_message_ids']
    ok = len(dq) == 1 and isinstance(dq[0].value, ast.Call) and call_name(dq[0].value) == 'deque' and \
        any(k.arg == 'maxlen' and isinstance(k.value, ast.Constant) and k.value.value > 0 for k in dq[0].value.keywords)
    ctx.ob('C14.R1', 'bounded id store', ok, 'the known ids are kept in a deque with a positive maxlen', fi=init)
    ends = {}
    for fi in repo.funcs.values():
        if fi.cls is None or fi.cls.qual != NT:
            continue
        for c in calls_in(expand_aliases(fi).node):
            if isinstance(c.func, ast.Attribute) and unparse(c.func.value) == 'self._known_message_ids' and \
                    c.func.attr in ('append', 'appendleft', 'extend', 'extendleft', 'insert'):
                ends.setdefault(c.func.attr, []).append(f'{fi.name}:{c.lineno}')
    ctx.floor('C14.R1', sum(len(v) for v in ends.values()), 2, 'writers of the known-id store')
    ctx.ob('C14.R1', 'one insertion end', len(ends) == 1,
           f'every writer of the id store uses {list(ends)[0] if len(ends) == 1 else "?"}: the oldest id is evicted first'
           if len(ends) == 1 else
           f'the id store is filled at both ends {ends}: once it is full, a message sent by this node evicts the id of '
           f'the message it just received, and the repetitions of that datagram are acted on again', where=NT,
           witness=ends)

    # ------------------------------------------------------------------ R2
    hm = repo.func(f'{W}.WSDiscovery.handle_received_message')
    dicts = [n for n in ast.walk(hm.node) if isinstance(n, ast.Dict)]
    if not dicts:
        raise AnalysisError('C14.R2: dispatch dict not found')
    table = {}
    for k, v in zip(dicts[0].keys, dicts[0].values):
        m = re.match(r'wsd_types\.(\w+)\.action$', unparse(k))
        if m and isinstance(v, ast.Attribute):
            table[m.group(1)] = v.attr
    msg_classes = {ci.name for q, ci in repo.classes.items() if q.startswith('sdc11073.xml_types.wsd_types.')
                   and 'action' in ci.assigns and ci.name.endswith('Type')}
    ctx.ob('C14.R2', 'table covers all discovery messages', set(table) == msg_classes and len(table) == 6,
           f'the dispatch table has one entry for each of the {len(msg_classes)} discovery message classes with an action',
           fi=hm, witness={'table': sorted(table), 'classes': sorted(msg_classes)})
    for cls_name, handler in sorted(table.items()):
        fi = repo.resolve_method(f'{W}.WSDiscovery', handler)
        parsed = {m.group(1) for c in calls_in(fi.node, 'from_node')
                  for m in [re.match(r'wsd_types\.(\w+)\.from_node$', unparse(c.func))] if m} if fi else set()
        parsed -= {'AppSequenceType'}
        ctx.ob('C14.R2', f'{handler} parses {cls_name}', parsed == {cls_name},
               f'{handler} is registered under {cls_name}.action and parses the body as {cls_name}', fi=fi, witness=sorted(parsed))
    g = cfg_of(hm)
    fcall = [n for n, a in g.nodes_where(lambda a: isinstance(a, ast.Call) and unparse(a.func) == 'func')]
    ctx.ob('C14.R2', 'unknown action ignored', bool(fcall) and 'KeyError' in xsrc(hm),
           'an unknown action is logged and not dispatched', fi=hm)

    # ------------------------------------------------------------------ R3
    ar = repo.func(f'{W}.WSDiscovery._add_remote_service')
    g = cfg_of(ar)
    # path conditions over symbolically written-out tests ($1 = the announced service, K = the stored entry for its epr):
    #   the entry is (re)placed exactly when the epr is given and (there is no entry or the announcement is newer);
    #   fields of the stored entry are written only when both versions are equal.
    from engine.pathcond import worlds_of
    K = 'self._remote_services.get($1.epr)'
    EPR, EQ, GT = '$1.epr', f'$1.metadata_version == {K}.metadata_version', f'$1.metadata_version > {K}.metadata_version'
    w = worlds_of(g, extra_atoms=(EPR, K, EQ, GT), symbolic=True)
    sane = w.mask(f'not (({EQ}) and ({GT}))')   # the two comparisons exclude each other
    if w.has_atom(f'{K} is None'):
        # a stored announcement is an object (always true): "there is none" may be tested as `not K` or as `K is None`
        sane &= w.all & ~(w.mask(f'{K} is None') ^ (w.all & ~w.mask(K)))
    stores = [n for n in g.real_nodes() if n.kind == 'stmt' and isinstance(n.stmt, ast.Assign) and
              g.symbolic_text(n, n.stmt.targets[0]) == 'self._remote_services[$1.epr]']
    kinds = w.describe(w.cond_any(stores) & sane) if stores else 'never'
    want = w.mask(f'({EPR}) and (not ({K}) or (({GT}) and not ({EQ})))')
    ok = bool(stores) and ((w.cond_any(stores) ^ want) & sane) == 0 and \
        all(g.symbolic_text(n, n.stmt.value) == '$1' for n in stores)
    ctx.ob('C14.R3', 'replace only for unknown or newer', ok,
           'the stored announcement is replaced only for an unknown epr or a higher metadata version' if ok else
           f'_add_remote_service replaces the stored announcement when: {kinds}', fi=ar, witness=kinds)
    merges = [n for n in g.real_nodes() if n.kind == 'stmt' and isinstance(n.stmt, ast.Assign) and
              isinstance(n.stmt.targets[0], ast.Attribute) and
              g.symbolic_text(n, n.stmt.targets[0].value) == K]
    imp = (w.cond_any(merges) & sane & ~w.mask(f'({EPR}) and ({K}) and ({EQ})') & w.all) == 0 if merges else False
    ctx.ob('C14.R3', 'merge only for the same version', bool(merges) and imp,
           'fields of the stored announcement are changed only by an announcement with the same metadata version', fi=ar,
           witness=w.describe(w.cond_any(merges) & sane) if merges else None)
    dels = [n for n in g.real_nodes() if n.kind == 'stmt' and isinstance(n.stmt, ast.Delete)] + g.nodes_calling('pop')
    ctx.ob('C14.R3', 'no removal on announcements', not dels, '_add_remote_service never removes an entry', fi=ar)
    # without an epr nothing is stored and nothing is merged (early return or one if/elif chain: the path condition decides)
    no_epr_writes = w.cond_any(stores + merges) & (w.all & ~w.mask(EPR)) if (stores or merges) else 0
    ctx.ob('C14.R3', 'announcement without epr ignored', bool(stores) and no_epr_writes == 0,
           'an announcement without epr is ignored', fi=ar)
    bye = repo.func(f'{W}.WSDiscovery._handle_received_bye')
    src = xsrc(bye)
    rm = repo.func(f'{W}.WSDiscovery._remove_remote_service')
    ok = 'self._remove_remote_service(bye.EndpointReference.Address)' in src and \
        bool(re.search(r'del self\._remote_services\[\w+\]|self\._remote_services\.pop\(\w+(, None)?\)', xsrc(rm)))
    ctx.ob('C14.R3', 'Bye removes', ok, 'a Bye removes the entry of its endpoint reference', fi=bye)
    for h, cls_ in (('_handle_received_hello', 'hello'), ('_handle_received_resolve_matches', 'match')):
        fi = repo.func(f'{W}.WSDiscovery.{h}')
        src = xsrc(fi)
        ok = bool(re.search(r'metadata_version=[\w.]+\.MetadataVersion', src)) and 'self._add_remote_service(' in src
        ctx.ob('C14.R3', f'{h} records with its version', ok, f'{h} records the announcement with its MetadataVersion', fi=fi)
    pm = repo.func(f'{W}.WSDiscovery._handle_received_probe_matches')
    src = xsrc(pm)
    ctx.ob('C14.R3', 'probe matches recorded with their version',
           'metadata_version=match.MetadataVersion' in src and 'self._add_remote_service(service)' in src,
           'every ProbeMatch is recorded with its MetadataVersion', fi=pm)

    # the version that is compared is the version that was announced: Service keeps the constructor argument unchanged
    # (0 is a version; `metadata_version or 1` would record it as 1 and merge the next announcement instead of replacing)
    sv = repo.func('sdc11073.wsdiscovery.service.Service.__init__')
    st_ = [n for n in walk_no_nested(sv.node) if isinstance(n, ast.Assign) and unparse(n.targets[0]) == 'self.metadata_version']
    ok = len(st_) == 1 and isinstance(st_[0].value, ast.Name) and st_[0].value.id == 'metadata_version' and \
        not [n for n in walk_no_nested(sv.node) if isinstance(n, (ast.Assign, ast.AugAssign)) and
             unparse(n.targets[0] if isinstance(n, ast.Assign) else n.target) == 'metadata_version']
    ctx.ob('C14.R3', 'Service records the announced version', ok,
           'Service.__init__ stores metadata_version as given' if ok else
           'Service.__init__ changes the announced metadata version before storing it: version comparison in '
           '_add_remote_service works on a different number than the one announced (version 0 vs. 1)', fi=sv)
    # ------------------------------------------------------------------ R4
    rs = repo.func(f'{W}.WSDiscovery._handle_received_resolve')
    g = cfg_of(rs)
    sm = g.nodes_calling('_send_resolve_match')
    # the answered service is the local service stored under the epr of the Resolve: `d[epr]` under `epr in d`, or
    # `d.get(epr)` under "is not None" - locals written out
    def _resolve_guard(n, c):
        if not c.args:
            return False
        svc = g.symbolic_text(n, c.args[0])
        fs = g.facts_symbolic(n)
        m = re.fullmatch(r'self\._local_services\[(.+)\]', svc)
        if m:
            return m.group(1).endswith('.EndpointReference.Address') and (f'{m.group(1)} in self._local_services', True) in fs
        m = re.fullmatch(r'self\._local_services\.get\((.+)\)', svc)
        if m:
            return m.group(1).endswith('.EndpointReference.Address') and ((f'{svc} is None', False) in fs or (svc, True) in fs)
        return False
    ok = bool(sm) and all(_resolve_guard(n, c) for n, c in sm)
    ctx.ob('C14.R4', 'Resolve guard', ok, 'a ResolveMatches is sent only for an epr of the locally published services',
           fi=rs)
    pr = repo.func(f'{W}.WSDiscovery._handle_received_probe')
    g = cfg_of(pr)
    fs = calls_in(pr.node, 'filter_services')
    sp = g.nodes_calling('_send_probe_match')
    ok = len(fs) == 1 and bool(sp)
    if ok:
        fn_ = g.holder(fs[0])
        a_ = [g.origin_text(fn_, a) for a in fs[0].args]
        # filter_services(<local services>, <probe>.Types, <probe>.Scopes) - the probe local may have any name
        ok = len(a_) == 3 and a_[0] == 'self._local_services.values()' and a_[1].endswith('.Types') and \
            a_[2].endswith('.Scopes') and a_[1][:-len('.Types')] == a_[2][:-len('.Scopes')]
    for n, c in sp:
        # what is sent is the (non-empty) result of that call
        v = c.args[0] if c.args else None
        d = g.unique_def(n, v.id) if isinstance(v, ast.Name) else None
        ok = ok and d is not None and g.def_value(d, v.id) is fs[0] and (v.id, True) in g.facts_at(n)
    ctx.ob('C14.R4', 'Probe answer', ok,
           'a Probe is answered with filter_services(local services, probe.Types, probe.Scopes), only if non-empty', fi=pr)
    fsv = repo.func(f'{W}.filter_services')
    comp = [n for n in ast.walk(fsv.node) if isinstance(n, ast.ListComp)]
    ok = len(comp) == 1 and unparse(comp[0].elt) == 'service' and len(comp[0].generators[0].ifs) == 1 and \
        unparse(comp[0].generators[0].ifs[0]) == 'matches_filter(service, types, scopes)' and \
        unparse(comp[0].generators[0].iter) == 'services'
    ctx.ob('C14.R4', 'filter_services', ok, 'filter_services keeps exactly the services for which matches_filter holds', fi=fsv)

    # ------------------------------------------------------------------ R5
    mf = repo.func(f'{W}.matches_filter')

    def _helper(name):
        # the two private predicates (when they exist) are expanded into the formula; match_type / match_scope stay atoms
        f = repo.funcs.get(f'{W}.{name}')
        return f.node if f is not None and name.startswith('_') else None
    ok, why = _matches_filter_shape(mf.node, _helper)
    ctx.ob('C14.R5', 'matches_filter shape', ok, why, fi=mf)
    mt = repo.func(f'{W}.match_type')
    ctx.ob('C14.R5', 'match_type', unparse(mt.node.body[-1]) ==
           'return type1.namespace == type2.namespace and type1.localname == type2.localname',
           'match_type compares namespace and local name', fi=mt)
    ms = repo.func(f'{W}.match_scope')
    ok5, why5, ok6, why6, wit = _match_scope_symbolic(ms)
    ctx.ob('C14.R5', 'prefix comparison, requested first', ok5,
           'match_scope: the segments of the first (requested) operand must be a prefix of the segments of the second '
           '(offered) operand' if ok5 else why5, fi=ms, witness=wit)

    from . import common
    # the type and scope lists that the filter compares are the items the peer sent (element content: any white space separates)
    common.element_text_lists_split_on_whitespace(ctx, 'C14.R6')
    common.readers_test_only_for_none(ctx, 'C14.R3')   # MetadataVersion 0 is a version
    common.descriptor_classes_hold_no_shared_state(ctx, 'C14.R5')
    common.codec_keeps_no_state(ctx, 'C14.R2', 'sdc11073.pysoap.msgreader.MessageReader', 'message reader')
    common.log_templates_are_constant(ctx, 'C14.R1', ['sdc11073.wsdiscovery'])   # a log call that raises ends the handling of a datagram
    # ------------------------------------------------------------------ R6
    ctx.ob('C14.R6', 'symmetric normalisation', ok6, why6, fi=ms, witness=wit)
    common.no_mutation_while_iterating(ctx, 'C14.R3', ['sdc11073.wsdiscovery'])

    g = cfg_of(ms)
    sc = [n for n in g.nodes if n.kind == 'return' and ('match_by == MatchBy.strcmp', True) in g.facts_at(n)]
    ok = len(sc) == 1 and g.symbolic_text(sc[0], sc[0].stmt.value) in ('$0 == $1', '$1 == $0')
    ctx.ob('C14.R6', 'strcmp is exact', ok, 'string comparison matching is plain equality of the two scope strings', fi=ms)
    # the returns that are reached when neither rule applies (all rule tests false) return False
    rule_tests = [unparse(b.test) for b in g.nodes if b.kind == 'branch' and b.label is True and 'match_by' in unparse(b.test)]
    fall = [n for n in g.nodes if n.kind == 'return' and rule_tests and
            all((t, False) in g.facts_at(n) for t in set(rule_tests))]
    ctx.ob('C14.R6', 'unknown rule matches nothing', bool(fall) and all(
        g.symbolic_text(n, n.stmt.value) == 'False' for n in fall if n.stmt.value is not None) and
        all(n.stmt.value is not None for n in fall), 'an unknown matching rule matches nothing', fi=ms)
    # what the bundled discovery schema lets through is what the message classes can hold: an element that the Python class treats
    # as always present (no is_optional) is required by the XSD too - otherwise a Hello without MetadataVersion passes validation,
    # is stored with version None and every later comparison `new > None` raises (the entry is never updated again)
    import xml.etree.ElementTree as ET
    xsd_path = repo.root / 'src' / 'sdc11073' / 'xsd' / 'wsdd-discovery-1.1-schema-os.xsd'
    XSN = '{http://www.w3.org/2001/XMLSchema}'
    xsd_opt = {}
    for ct in ET.parse(xsd_path).getroot().iter(f'{XSN}complexType'):
        for el in ct.iter(f'{XSN}element'):
            nm_ = (el.get('ref') or el.get('name') or '').split(':')[-1]
            xsd_opt[(ct.get('name'), nm_)] = el.get('minOccurs') == '0'
    wt = repo.module('sdc11073.xml_types.wsd_types')
    n_decl = 0
    for cls_ in [x for x in wt.tree.body if isinstance(x, ast.ClassDef)]:
        for st in cls_.body:
            if isinstance(st, ast.Assign) and isinstance(st.value, ast.Call) and isinstance(st.targets[0], ast.Name) and \
                    st.value.args and isinstance(st.value.args[0], ast.Call) and call_name(st.value.args[0]) == 'wsd_tag':
                member = st.targets[0].id
                if (cls_.name, member) not in xsd_opt or 'List' in (call_name(st.value) or ''):
                    continue
                n_decl += 1
                py_opt = any(k.arg == 'is_optional' and isinstance(k.value, ast.Constant) and k.value.value is True
                             for k in st.value.keywords)
                okd = py_opt or not xsd_opt[(cls_.name, member)]
                ctx.ob('C14.R2', f'{cls_.name}.{member}: required in the schema as in the class', okd,
                       f'{cls_.name}.{member}: optional={py_opt} in the class, minOccurs=0 is {xsd_opt[(cls_.name, member)]} in the schema'
                       if okd else
                       f'{cls_.name}.{member} is declared as always present, but the discovery schema allows it to be absent: such a '
                       f'message passes validation and is stored with {member}=None - later comparisons with it raise', fi=None,
                       where=f'sdc11073.xml_types.wsd_types.{cls_.name}', line=st.lineno)
    ctx.floor('C14.R2', n_decl, 4, 'discovery message members compared with the schema')
    # the MatchBy attribute of a parsed Probe is a plain string: the members of the enum it is compared with are strings too
    mb = next((ci for q_, ci in repo.classes.items() if ci.name == 'MatchBy' and q_.startswith('sdc11073.wsdiscovery')), None)
    if mb is None:
        raise AnalysisError('C14.R6: MatchBy not found')
    bases = [unparse(b).split('.')[-1] for b in mb.node.bases]
    ok_mb = 'str' in bases or 'StrEnum' in bases
    ctx.ob('C14.R6', 'MatchBy members compare equal to their URI', ok_mb,
           'MatchBy is a str enum: the matching rule named in a Probe (a string) selects its member' if ok_mb else
           f'MatchBy{tuple(bases)} is no str enum any more: the MatchBy attribute of a received Probe (a string) equals no member, '
           f'match_scope falls through to False and a Probe that names its rule explicitly is never answered', fi=ms)
    uri_rules = [n for n in walk_no_nested(ms.node) if isinstance(n, ast.If) and 'MatchBy.uri' in unparse(n.test)]
    ok = bool(uri_rules) and all(x in unparse(uri_rules[0].test) for x in ('MatchBy.uri', "''", 'None'))
    ctx.ob('C14.R6', 'default rule is rfc3986', ok, 'an absent MatchBy selects the RFC 3986 rule', fi=ms)


def _matches_filter_shape(fn, resolver):
    """Translate matches_filter - with its private helper predicates expanded - into a quantified formula (engine.boolform)
    and compare it with the required one.  Loops with early return, all()/any(), guard clauses and helpers merged into the
    caller all give the same formula."""
    from engine.boolform import equivalent, function_formula, mk
    got = function_formula(fn, resolver)
    p_service, p_types, p_scopes = (a.arg for a in fn.args.args[:3])
    want = mk('and', [
        mk('or', [('atom', f'{p_types} is None'),
                  ('forall', p_types, ('exists', f'{p_service}.types', ('atom', 'match_type($0, $1)')))]),
        mk('or', [('atom', f'{p_scopes} is None'),
                  ('forall', f'{p_scopes}.text',
                   mk('and', [('not', ('atom', f'{p_service}.scopes is None')),
                              ('exists', f'{p_service}.scopes.text', ('atom', f'match_scope($0, $1, {p_scopes}.MatchBy)'))]))]),
    ])
    ok, counter = equivalent(got, want)
    if not ok:
        return False, (f'matches_filter is not `(no types requested or forall requested type exists offered type) and (no '
                       f'scopes requested or forall requested scope exists offered scope)`; it is {got} (differs for {counter})')
    return True, ('matches_filter is: (no types requested or forall requested type exists offered type) and (no scopes '
                  'requested or forall requested scope exists offered scope under the requested rule)')


def _alpha_parts(e):
    """alpha-rename the comprehension variables separately in each operand of every comparison / call argument, so that equal
    sub-expressions have equal text wherever they occur."""
    from engine.cfg import alpha
    from engine.errors import clone
    e = clone(e)
    for n in ast.walk(e):
        if isinstance(n, ast.Compare):
            n.left = alpha(n.left)
            n.comparators = [alpha(c) for c in n.comparators]
        elif isinstance(n, ast.Call) and not isinstance(n.func, ast.Attribute):
            n.args = [alpha(a) for a in n.args]
    return e


def _match_scope_symbolic(ms):  # noqa: C901, PLR0911, PLR0912
    """match_scope decided on its symbolic expansion: every local is written out in terms of the two operands ($0, $1), so the
    names of temporaries, re-binding of the parameters and the split of the normalisation over several statements do not
    matter.  Returns (R5 ok, R5 reason, R6 ok, R6 reason, witness)."""
    from engine.cfg import _atoms, alpha

    def txt(e):
        return unparse(alpha(e))

    def swap(e):
        class R(ast.NodeTransformer):
            def visit_Name(self, n):  # noqa: N802
                return ast.copy_location(ast.Name(id={'$0': '$1', '$1': '$0'}.get(n.id, n.id), ctx=n.ctx), n)
        from engine.errors import clone
        return R().visit(clone(e))
    g = cfg_of(ms)
    _FIELDS = ('scheme', 'netloc', 'path', 'query', 'fragment')

    class _SplitFields(ast.NodeTransformer):
        # urlsplit(x)[i] / urlsplit(x)[:k][i]  ->  urlsplit(x).<field i>   (SplitResult is a named tuple: library fact)
        def visit_Subscript(self, node):  # noqa: N802
            self.generic_visit(node)
            v = node.value
            if isinstance(v, ast.Subscript) and isinstance(v.slice, ast.Slice) and v.slice.lower is None and v.slice.step is None:
                v = v.value
            if isinstance(v, ast.Call) and call_name(v) in ('urlsplit', 'urlparse') and isinstance(node.slice, ast.Constant) \
                    and isinstance(node.slice.value, int) and 0 <= node.slice.value < len(_FIELDS):
                return ast.copy_location(ast.Attribute(value=v, attr=_FIELDS[node.slice.value], ctx=ast.Load()), node)
            return node

    def sym(n, e):
        return ast.fix_missing_locations(_SplitFields().visit(g.symbolic(n, e)))
    finals = []
    pre_guards = []   # conjuncts in front of the all(...) inside one `a and b and all(...)` expression
    for n in g.nodes:
        if n.kind == 'return' and n.stmt.value is not None:
            v = sym(n, n.stmt.value)
            if isinstance(v, ast.BoolOp) and isinstance(v.op, ast.And) and isinstance(v.values[-1], ast.Call) and \
                    call_name(v.values[-1]) == 'all':
                pre_guards = list(v.values[:-1])
                v = v.values[-1]
            if isinstance(v, ast.Call) and call_name(v) == 'all':
                finals.append((n, v))
    wit = {'returns': [f'{n.lineno}: {unparse(sym(n, n.stmt.value))[:160]}' for n in g.nodes
                       if n.kind == 'return' and n.stmt.value is not None]}
    if len(finals) != 1:
        return False, f'expected one `return all(...)` prefix comparison, found {len(finals)}', False, 'see R5', wit
    fn_, allc = finals[0]
    gen = allc.args[0] if allc.args else None
    if not isinstance(gen, (ast.GeneratorExp, ast.ListComp)) or len(gen.generators) != 1 or gen.generators[0].ifs:
        return False, 'prefix comparison is not a plain all(<generator>)', False, 'see R5', wit
    it = gen.generators[0].iter
    tgt = gen.generators[0].target
    if not (isinstance(it, ast.Call) and isinstance(tgt, ast.Tuple) and len(tgt.elts) == 2
            and all(isinstance(x, ast.Name) for x in tgt.elts)
            and isinstance(gen.elt, ast.Compare) and len(gen.elt.ops) == 1 and isinstance(gen.elt.ops[0], ast.Eq)):
        return False, 'prefix comparison is not an element-wise equality over the two segment lists', False, 'see R5', wit
    sides = [gen.elt.left, gen.elt.comparators[0]]
    if call_name(it) == 'zip' and len(it.args) == 2 and not it.keywords:
        # all(o == m for m, o in zip(A, X)): element-wise over both lists; which list may be the shorter one (= whose elements
        # all have to match) is decided by the length guard below - A is the one that is guarded to be no longer than X
        names = {x.id for x in sides if isinstance(x, ast.Name)}
        if names != {t.id for t in tgt.elts}:
            return False, 'prefix comparison does not compare the two zipped elements', False, 'see R5', wit
        first, second = txt(it.args[0]), txt(it.args[1])
        zipped = True
    elif call_name(it) == 'enumerate':
        zipped = False
        idx, el = (x.id for x in tgt.elts)
        sub = next((x for x in sides if isinstance(x, ast.Subscript) and isinstance(x.slice, ast.Name) and x.slice.id == idx),
                   None)
        elem = next((x for x in sides if isinstance(x, ast.Name) and x.id == el), None)
        if sub is None or elem is None:
            return False, 'prefix comparison does not compare X[i] with the enumerated element', False, 'see R5', wit
        first, second = txt(it.args[0]), txt(sub.value)
    else:
        return False, 'prefix comparison is neither all(X[i] == e for i, e in enumerate(A)) nor all(.. zip(A, X))', False, \
            'see R5', wit
    for c in ast.walk(ms.node):
        if isinstance(c, (ast.ListComp, ast.GeneratorExp)) and any(gen_.ifs for gen_ in c.generators):
            return True, '', False, (f'a normalisation step filters segments ({unparse(c)[:60]}): empty segments are dropped, '
                                     f'so //, trailing slashes and the prefix rule are no longer respected'), wit
    a_txt, x_txt = first, second
    if zipped and a_txt != x_txt and 'urlsplit($1)' in a_txt and 'urlsplit($0)' in x_txt:
        a_txt, x_txt = x_txt, a_txt   # zip is symmetric; the guard decides (checked below with the requested operand first)

    def norm(p):
        return f"[unquote($c0) for $c0 in urlsplit({p}).path.split('/')]"
    wit.update({'enumerated (must be the requested scope)': a_txt, 'indexed (must be the offered scope)': x_txt})
    if a_txt != norm('$0') or x_txt != norm('$1'):
        if a_txt == norm('$1') and x_txt == norm('$0'):
            why = 'the OFFERED segments are required to be a prefix of the REQUESTED ones: operands are swapped'
        else:
            why = (f'the compared segment lists are {a_txt} and {x_txt}; required: the requested operand split on "/" after '
                   f'urlsplit, each segment unquoted, enumerated; the offered operand normalised the same way, indexed')
        return False, why, a_txt.replace('$0', 'X') == x_txt.replace('$1', 'X'), \
            'the two operands are normalised differently' if a_txt.replace('$0', 'X') != x_txt.replace('$1', 'X') else \
            'both operands are normalised identically', wit
    # guards that dominate the prefix comparison
    atoms = []
    for bnode in g.nodes:
        if bnode.kind == 'branch' and bnode.label in (True, False) and g.dominates(bnode, fn_):
            _atoms(_alpha_parts(sym(bnode, bnode.test)), bnode.label, atoms)
    for pg in pre_guards:
        _atoms(_alpha_parts(pg), True, atoms)
    wit['guards of the prefix comparison'] = atoms
    have = set(atoms)
    la, lb = f'len({norm("$0")})', f'len({norm("$1")})'
    len_ok = bool({(f'{la} > {lb}', False), (f'{lb} < {la}', False), (f'{la} <= {lb}', True), (f'{lb} >= {la}', True)} & have)
    if not len_ok:
        return False, 'the prefix comparison is not guarded by "requested has no more segments than offered" (IndexError or ' \
                      'a wrong match otherwise)', True, 'both operands are normalised identically', wit
    for part in ('scheme', 'netloc'):
        ok_part = any((f'urlsplit(${i}).{part}.{m}() == urlsplit(${1 - i}).{part}.{m}()', True) in have
                      for m in ('lower', 'casefold') for i in (0, 1))
        if not ok_part:
            return True, '', False, f'{part} is not compared case-insensitively on both operands before the path comparison', wit
    # every comparison between the operands treats them alike
    for bnode in g.nodes:
        if bnode.kind in ('test',) or (bnode.kind == 'branch' and bnode.label is True):
            for c in ast.walk(sym(bnode, bnode.test)):
                if isinstance(c, ast.Compare) and len(c.ops) == 1:
                    l, r = c.left, c.comparators[0]
                    names_l = {x.id for x in ast.walk(l) if isinstance(x, ast.Name)}
                    names_r = {x.id for x in ast.walk(r) if isinstance(x, ast.Name)}
                    if '$0' in names_l and '$1' in names_r and '$1' not in names_l and '$0' not in names_r:
                        if txt(swap(l)) != txt(r):
                            return True, '', False, f'comparison {unparse(c)[:120]} treats the operands differently', wit
    return True, '', True, ('both operands go through urlsplit, lower-cased scheme and netloc, split on "/" and unquote per '
                            'segment; no segment is dropped'), wit


# ---------------------------------------------------------------------- self-test seeds
from selftest import seed  # noqa: E402

_W = 'src/sdc11073/wsdiscovery/wsdimpl.py'
_N = 'src/sdc11073/wsdiscovery/networkingthread.py'
SEEDS = [
    seed('known ids no longer skipped', 'C14.R1',
         (_N, "                            self._logger.debug('incoming message already known: %s (from %r, Id %s).',\n                                               received_message.action, addr, mid)\n                            continue",
          "                            self._logger.debug('incoming message already known: %s (from %r, Id %s).',\n                                               received_message.action, addr, mid)")),
    seed('received ids appended at the other end', 'C14.R1',
         (_N, "                        self._known_message_ids.appendleft(mid)", "                        self._known_message_ids.append(mid)")),
    seed('dispatch: resolve handled by the probe handler', 'C14.R2',
         (_W, "            wsd_types.ResolveType.action: self._handle_received_resolve,", "            wsd_types.ResolveType.action: self._handle_received_probe,")),
    seed('older announcement replaces the stored one', 'C14.R3',
         (_W, "        elif service.metadata_version > already_known_service.metadata_version:", "        elif service.metadata_version != already_known_service.metadata_version:")),
    seed('outdated announcement still merges scopes', 'C14.R3',
         (_W, "                service.metadata_version,\n                already_known_service.metadata_version,\n            )\n\n    def _remove_remote_service",
          "                service.metadata_version,\n                already_known_service.metadata_version,\n            )\n            already_known_service.scopes = service.scopes\n\n    def _remove_remote_service")),
    seed('resolve answered for any epr', 'C14.R4',
         (_W, "        if epr in self._local_services:\n            service = self._local_services[epr]", "        if self._local_services:\n            service = self._local_services.get(epr) or next(iter(self._local_services.values()))")),
    seed('probe ignores requested scopes', 'C14.R4',
         (_W, "        services = filter_services(self._local_services.values(), probe.Types, scopes)", "        services = filter_services(self._local_services.values(), probe.Types, None)")),
    seed('any requested type is enough', 'C14.R5',
         (_W, "        for ttype in types:\n            if not _is_type_in_list(ttype, service.types):\n                return False", "        if not any(_is_type_in_list(ttype, service.types) for ttype in types):\n            return False")),
    seed('scope operands swapped', 'C14.R5',
         (_W, "    return any(match_scope(uri, entry, match_by) for entry in srv_sc.text)", "    return any(match_scope(entry, uri, match_by) for entry in srv_sc.text)")),
    seed('control: matches_filter rewritten with all()', 'C14.R5',
         (_W, "    if types is not None:\n        for ttype in types:\n            if not _is_type_in_list(ttype, service.types):\n                return False\n    if scopes is not None:",
          "    if types is not None and not all(_is_type_in_list(t, service.types) for t in types):\n        return False\n    if scopes is not None:"), control=True),
    seed('empty segments dropped', 'C14.R6',
         (_W, "        src_path_elements = [unquote(elem) for elem in src_path_elements]\n        target_path_elements = [unquote(elem) for elem in target_path_elements]",
          "        src_path_elements = [unquote(elem) for elem in src_path_elements if elem]\n        target_path_elements = [unquote(elem) for elem in target_path_elements if elem]")),
    seed('only the requested side is unquoted', 'C14.R6',
         (_W, "        target_path_elements = [unquote(elem) for elem in target_path_elements]\n", "")),
    seed('authority compared case-sensitively', 'C14.R6',
         (_W, "            or my_scope.netloc.lower() != other_scope.netloc.lower()", "            or my_scope.netloc != other_scope.netloc")),
]
