"""C12 - instances never share mutable state or alter the defaults of later instances.

Decided (structural necessary conditions):
  R1 NO-ESCAPE: a class-level default / implied value object of a property descriptor never reaches an
     instance (return of __get__ / get_py_value_from_node, setattr on the instance) without
     copy.deepcopy - armed for every descriptor class for which some declaration passes a *mutable*
     default (constructor call, list, dict); immutable defaults (str, numbers, bool, Decimal, enum
     members) are exempt.
  R2 no mutable class attributes and no mutable default arguments on the data classes; lazily created
     lists are stored on the instance.
  R3 copies are deep: ContainerBase.mk_copy (shared with C03.R4).
"""
from __future__ import annotations

import ast

from engine.cfg import call_name
from engine.errors import AnalysisError
from engine.repo import walk_no_nested
from engine.util import calls_in, dotted, local_assignments, roots, unparse

from .c03 import _mk_copy_is_deep

ID = 'C12'
XS = 'sdc11073.xml_types.xml_structure'
BASE = f'{XS}._XmlStructureBaseProperty'
IMMUTABLE_CALLS = {'Decimal', 'QName', 'frozenset', 'tuple', 'str', 'int', 'float', 'bool'}
DATA_BASES = ('sdc11073.mdib.containerbase.ContainerBase', 'sdc11073.xml_types.basetypes.XMLTypeBase')
METHODS = ('__get__', '__set__', 'get_py_value_from_node', 'update_from_node', 'init_instance_data')


def is_mutable_value(e) -> bool:
    if isinstance(e, (ast.List, ast.Dict, ast.Set, ast.ListComp, ast.DictComp, ast.SetComp)):
        return True
    if isinstance(e, ast.Call):
        nm = call_name(e) or ''
        if nm in IMMUTABLE_CALLS:
            return False
        return True  # constructor call of a data type / unknown factory: treat as mutable object
    return False  # constants, names of enum members, attributes (Enum.X)


def source_kind(e):
    if isinstance(e, ast.Attribute) and dotted(e.value) == 'self':
        if e.attr == '_default_py_value':
            return 'default'
        if e.attr == '_implied_py_value':
            return 'implied'
    return None


def escapes(fi):
    """[(kind, sink description, node)] class-level values that reach an instance un-copied in fi."""
    out = []
    assigns = local_assignments(fi.node)

    def raw_kinds(e, _seen=None):
        ks = []
        _seen = set() if _seen is None else _seen
        if id(e) in _seen:
            return ks   # `value = list(value)`: the local is defined in terms of itself
        _seen.add(id(e))
        for r in roots(e, assigns):
            k = source_kind(r)
            if k:
                ks.append(k)
            elif isinstance(r, ast.Call) and call_name(r) in ('copy', 'list', 'dict') and r.args and \
                    not (call_name(r) == 'copy' and unparse(r.func) == 'copy.deepcopy'):
                # copy.copy(x) / list(x) / dict(x): one level only, nested members of the default stay shared
                ks += raw_kinds(r.args[0], _seen)
            elif isinstance(r, ast.BoolOp):
                for v in r.values:
                    ks += raw_kinds(v, _seen)
        return ks
    for n in walk_no_nested(fi.node):
        if isinstance(n, ast.Return) and n.value is not None:
            for k in raw_kinds(n.value):
                out.append((k, f'return {unparse(n.value)}', n))
        if isinstance(n, ast.Call) and call_name(n) == 'setattr' and len(n.args) == 3 and \
                isinstance(n.args[0], ast.Name) and n.args[0].id == 'instance':
            for k in raw_kinds(n.args[2]):
                out.append((k, f'setattr(instance, ..., {unparse(n.args[2])})', n))
        if isinstance(n, ast.Call) and call_name(n) == '__set__' and len(n.args) >= 2:
            # super().__set__(instance, value): the base class stores the value on the instance
            for k in raw_kinds(n.args[-1]):
                out.append((k, f'__set__(instance, {unparse(n.args[-1])})', n))
    return out


def defaults_reach_instances_copied(ctx, rule):
    """C12.R1 (shared with C05: a value parsed from a document in which the element is absent belongs to the parsed object)."""
    repo = ctx.repo
    desc_classes = [q for q in repo.classes if q.startswith(XS + '.') and BASE in repo.mro(q)]
    ctx.floor(rule, len(desc_classes), 55, 'property descriptor classes')
    simple = {q.rsplit('.', 1)[1]: q for q in desc_classes}

    # declarations: every call of a descriptor class with default_py_value / implied_py_value
    decls = []  # (descriptor class qual, kind, value expr, where)
    n_all = 0
    for mod in repo.modules.values():
        for n in ast.walk(mod.tree):
            if isinstance(n, ast.Call):
                nm = call_name(n)
                if nm in simple:
                    n_all += 1
                    for kw in n.keywords:
                        if kw.arg in ('default_py_value', 'implied_py_value'):
                            decls.append((simple[nm], kw.arg.split('_')[0], kw.value,
                                          f'{repo.rel(mod.path)}:{n.lineno}'))
    ctx.floor(rule, n_all, 450, 'property declarations (descriptor constructor calls)')
    mutable = [d for d in decls if is_mutable_value(d[2])]
    ctx.floor(rule, len(mutable), 15, 'declarations with a mutable default/implied value')
    # positional defaults would be invisible to the keyword scan: make sure there are none
    for q in desc_classes:
        init = repo.resolve_method(q, '__init__')
        if init is None:
            continue
        params = [a.arg for a in init.node.args.args]
        for kind in ('default_py_value', 'implied_py_value'):
            if kind in params:
                idx = params.index(kind) - 1
                for mod in repo.modules.values():
                    for n in ast.walk(mod.tree):
                        if isinstance(n, ast.Call) and call_name(n) == q.rsplit('.', 1)[1] and len(n.args) > idx \
                                and mod.name != XS:
                            decls.append((q, kind.split('_')[0], n.args[idx], f'{repo.rel(mod.path)}:{n.lineno}'))
                            if is_mutable_value(n.args[idx]):
                                mutable.append(decls[-1])

    # a descriptor class can also give ITSELF a mutable default: `default_py_value = X()` inside its __init__, or
    # super().__init__(.., default_py_value=X()) - then every declaration of that class is a mutable one
    for q in desc_classes:
        init = repo.resolve_method(q, '__init__')
        if init is None or not init.qual.startswith(XS):
            continue
        for n in walk_no_nested(init.node):
            for kind in ('default_py_value', 'implied_py_value'):
                val = None
                if isinstance(n, ast.Assign) and isinstance(n.targets[0], ast.Name) and n.targets[0].id == kind:
                    val = n.value
                if isinstance(n, ast.Call) and call_name(n) == '__init__':
                    val = next((k.value for k in n.keywords if k.arg == kind), val)
                if val is not None and is_mutable_value(val):
                    d = (q, kind.split('_')[0], val, f'{repo.rel(init.module.path)}:{n.lineno} (set by {init.cls.name}.__init__)')
                    decls.append(d)
                    mutable.append(d)

    # escapes per (function)
    seen = {}
    for q in desc_classes:
        for m in METHODS:
            fi = repo.resolve_method(q, m)
            if fi is None or not fi.qual.startswith(XS):
                continue
            if fi.qual not in seen:
                seen[fi.qual] = (fi, escapes(fi), [])
            seen[fi.qual][2].append(q)
    n_esc = 0
    for fq, (fi, escs, users) in sorted(seen.items()):
        if not escs:
            ctx.ob(rule, 'no raw class-level value', True,
                   f'{fi.cls.name}.{fi.name}: no class-level default/implied value reaches an instance un-copied',
                   fi=fi, witness={'used_by': len(users)})
            continue
        for kind, sink, node in escs:
            n_esc += 1
            armed = [d for d in mutable if d[0] in users and d[1] == kind]
            ctx.ob(rule, f'{kind} -> {sink}', not armed,
                   f'{fi.cls.name}.{fi.name}: the {kind} value escapes un-copied, but every declaration using this '
                   f'method passes an immutable {kind} value' if not armed else
                   f'{fi.cls.name}.{fi.name}: the class-level {kind} object is handed to the instance without a copy '
                   f'({sink}); {len(armed)} declarations pass a mutable object (e.g. {unparse(armed[0][2])[:50]} at '
                   f'{armed[0][3]}): changing it on one instance changes the default of every later instance',
                   fi=fi, node=node, witness={'mutable_declarations': [f'{d[3]} {unparse(d[2])[:40]}' for d in armed][:8],
                                              'descriptor_classes': [u.rsplit('.', 1)[1] for u in users][:8]})
    ctx.floor(rule, len(seen), 25, 'descriptor methods analysed')
    return desc_classes


def run(ctx):  # noqa: C901, PLR0912
    repo = ctx.repo
    ctx.rule('C12.R1', 'NO-ESCAPE: class-level default/implied objects reach instances only through copy.deepcopy '
                       '(armed where a declaration passes a mutable value)')
    ctx.rule('C12.R2', 'no mutable class attributes / default arguments on data classes; lazy lists live on the instance')
    ctx.rule('C12.R3', 'mk_copy is a deep copy')
    desc_classes = defaults_reach_instances_copied(ctx, 'C12.R1')

    # ------------------------------------------------------------------ R2
    n_cls = 0
    for q, ci in repo.classes.items():
        mro = repo.mro(q)
        if not any(b in mro for b in DATA_BASES):
            continue
        n_cls += 1
        bad = []
        classvars = {st.target.id for st in ci.node.body if isinstance(st, ast.AnnAssign)
                     and isinstance(st.target, ast.Name) and unparse(st.annotation).startswith('ClassVar')}
        for name in sorted(classvars):
            ctx.notes.append(f'{q}.{name}: declared ClassVar (explicit class-level registry), exempt from C12.R2')
        for name, val in ci.assigns.items():
            if name in classvars:
                continue
            if isinstance(val, (ast.List, ast.Dict, ast.Set)) or \
                    (isinstance(val, ast.Call) and call_name(val) in ('list', 'dict', 'set', 'defaultdict', 'OrderedDict')):
                bad.append((name, val))
        for name, val in bad:
            ctx.ob('C12.R2', f'class attribute {name}', False,
                   f'{ci.name}.{name} is a mutable class attribute shared by all instances', fi=None,
                   line=val.lineno, where=q)
        for fi in ci.methods.values():
            a = fi.node.args
            for d in list(a.defaults) + [x for x in a.kw_defaults if x is not None]:
                if isinstance(d, (ast.List, ast.Dict, ast.Set)) or \
                        (isinstance(d, ast.Call) and call_name(d) in ('list', 'dict', 'set')):
                    ctx.ob('C12.R2', f'default argument in {fi.name}', False,
                           f'{ci.name}.{fi.name} has a mutable default argument {unparse(d)}', fi=fi, node=d)
    ctx.floor('C12.R2', n_cls, 150, 'data classes (ContainerBase / XMLTypeBase subclasses)')
    ctx.ob('C12.R2', 'data classes scanned', True, f'{n_cls} data classes: no mutable class attribute, no mutable '
           f'default argument (violations are listed separately)', where='data classes', witness=n_cls)
    # lazily created lists live on the instance
    for q in desc_classes:
        fi = repo.classes[q].methods.get('__get__')
        if fi is None:
            continue
        for n in walk_no_nested(fi.node):
            if isinstance(n, ast.Return) and isinstance(n.value, (ast.List, ast.Dict)):
                ctx.ob('C12.R2', f'{repo.classes[q].name}.__get__ returns fresh literal', True,
                       'a fresh container per call (not shared)', fi=fi, node=n)
            if isinstance(n, ast.Call) and call_name(n) == 'setattr' and len(n.args) == 3 and (
                    isinstance(n.args[2], (ast.List, ast.Dict)) or
                    (isinstance(n.args[2], ast.Name) and any(isinstance(v, (ast.List, ast.Dict)) for v in
                                                             local_assignments(fi.node).get(n.args[2].id, [])))):
                ok = isinstance(n.args[0], ast.Name) and n.args[0].id == 'instance'
                ctx.ob('C12.R2', f'{repo.classes[q].name}.__get__ lazy container', ok,
                       'the lazily created container is stored on the instance', fi=fi, node=n)
    # descriptor objects themselves keep no per-instance state: stores to self.* only in __init__
    for q in desc_classes:
        for fi in repo.classes[q].methods.values():
            if fi.name in ('__init__', '__set_name__'):
                continue
            for n in walk_no_nested(fi.node):
                if isinstance(n, (ast.Assign, ast.AugAssign)):
                    tgts = n.targets if isinstance(n, ast.Assign) else [n.target]
                    for t in tgts:
                        if isinstance(t, ast.Attribute) and dotted(t.value) == 'self':
                            ctx.ob('C12.R2', f'descriptor state {unparse(t)}', False,
                                   f'{repo.classes[q].name}.{fi.name} stores per-call data on the class-level descriptor '
                                   f'object ({unparse(t)}), which is shared by all instances', fi=fi, node=n)

    from . import common
    common.entity_getters_hand_out_copies(ctx, 'C12.R3')
    common.copies_are_deep(ctx, 'C12.R3', with_mk_copy=False)
    common.written_entities_are_copied(ctx, 'C12.R3')
    common.property_tables_are_computed(ctx, 'C12.R2')
    common.descriptor_classes_hold_no_shared_state(ctx, 'C12.R2')
    from .c05 import writers_copy_lxml_values
    writers_copy_lxml_values(ctx, 'C12.R3', used_in=['sdc11073.mdib.', 'sdc11073.xml_types.pm_types'], floor=1)
    # ------------------------------------------------------------------ R3
    mk = repo.func('sdc11073.mdib.containerbase.ContainerBase.mk_copy')
    deep, why = _mk_copy_is_deep(mk)
    ctx.ob('C12.R3', 'mk_copy deep', deep, 'ContainerBase.mk_copy ' + why, fi=mk)
    # XMLTypeBase / ContainerBase define no shallow __copy__/__deepcopy__ shortcuts
    for q, ci in repo.classes.items():
        if any(b in repo.mro(q) for b in DATA_BASES):
            for m in ('__deepcopy__', '__copy__'):
                if m in ci.methods:
                    ctx.ob('C12.R3', f'{ci.name}.{m}', False,
                           f'{ci.name} customises {m}; deep copies of data objects are no longer guaranteed to be deep',
                           fi=ci.methods[m])


# ---------------------------------------------------------------------- self-test seeds
from selftest import seed  # noqa: E402

_X = 'src/sdc11073/xml_types/xml_structure.py'
SEEDS = [
    seed('SubElementProperty: default handed out raw again', 'C12.R1',
         (_X, "        value = copy.deepcopy(self._default_py_value)\n        try:\n            sub_node = self._get_element_by_child_name(node, self._sub_element_name, create_missing_nodes=False)\n            value_class = self.value_class.value_class_from_node(sub_node)",
          "        value = self._default_py_value\n        try:\n            sub_node = self._get_element_by_child_name(node, self._sub_element_name, create_missing_nodes=False)\n            value_class = self.value_class.value_class_from_node(sub_node)")),
    seed('SubElementProperty: shallow copy of the default', 'C12.R1',
         (_X, "        value = copy.deepcopy(self._default_py_value)\n        try:\n            sub_node = self._get_element_by_child_name(node, self._sub_element_name, create_missing_nodes=False)\n            value_class = self.value_class.value_class_from_node(sub_node)",
          "        value = copy.copy(self._default_py_value)\n        try:\n            sub_node = self._get_element_by_child_name(node, self._sub_element_name, create_missing_nodes=False)\n            value_class = self.value_class.value_class_from_node(sub_node)")),
    seed('init_instance_data without deepcopy', 'C12.R1',
         (_X, "            setattr(instance, self._local_var_name, copy.deepcopy(self._default_py_value))",
          "            setattr(instance, self._local_var_name, self._default_py_value)")),
    seed('__get__ falls back to the default object', 'C12.R1',
         (_X, "        if value is None:\n            value = self._implied_py_value\n        return value",
          "        if value is None:\n            value = self._implied_py_value or self._default_py_value\n        return value")),
    seed('mutable class attribute on a state container', 'C12.R2',
         ('src/sdc11073/mdib/statecontainers.py', "class AbstractStateContainer(ContainerBase):\n", "class AbstractStateContainer(ContainerBase):\n    _history = []\n")),
    seed('list property caches its list on the descriptor', 'C12.R2',
         (_X, "        except AttributeError:\n            setattr(instance, self._local_var_name, [])\n            return getattr(instance, self._local_var_name)\n\n    def __set__(self, instance: Any, py_value: Any):\n        if isinstance(py_value, tuple):",
          "        except AttributeError:\n            self._empty = []\n            setattr(instance, self._local_var_name, self._empty)\n            return getattr(instance, self._local_var_name)\n\n    def __set__(self, instance: Any, py_value: Any):\n        if isinstance(py_value, tuple):")),
    seed('mk_copy shallow', 'C12.R3',
         ('src/sdc11073/mdib/containerbase.py', "                setattr(copied, cprop._local_var_name, copy.deepcopy(value))  # noqa: SLF001", "                setattr(copied, cprop._local_var_name, value)  # noqa: SLF001")),
    seed('control: deepcopy through a helper name', 'C12.R1',
         (_X, "        value = copy.deepcopy(self._default_py_value)\n        try:\n            sub_node = self._get_element_by_child_name(node, self._sub_element_name, create_missing_nodes=False)\n            value_class = self.value_class.value_class_from_node(sub_node)",
          "        fresh = copy.deepcopy(self._default_py_value)\n        value = fresh\n        try:\n            sub_node = self._get_element_by_child_name(node, self._sub_element_name, create_missing_nodes=False)\n            value_class = self.value_class.value_class_from_node(sub_node)"), control=True),
]
