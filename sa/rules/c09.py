"""C09 - operation invocations follow the BICEPS invocation-state protocol end to end.

Decided (structural necessary conditions):
  R1 transaction ids: the counter is written only in generate_transaction_id, increment and read in one
     lock region; one id per request, the same value reaches the response and every notification
     (direct and queued, through the queue tuple).
  R2 queued mode: on the CFG of the worker, WAIT precedes START precedes the final notification; after
     a completed final notification no second final one is reachable; the Fail notification carries
     error information; the request path returns WAIT.
  R3 direct mode: the state returned for the response is the state that was notified.
  R4 a raising handler yields Fail: execute_operation is inside a catch-all whose handler notifies
     FAILED with error and error_message (both modes).
  R5 unknown operation: Fail + InvocationError in the response, no handler call, no transaction.
  R6 consumer rendez-vous: every access to the shared transaction tables is inside the lock; each
     Future gets its result at most once (set_result sites mutually exclusive / dominated by the pop).
"""
from __future__ import annotations

import ast

from engine.cfg import expand_aliases, call_name, cfg_of
from engine.errors import AnalysisError
from engine.repo import walk_no_nested
from engine.util import calls_in, dotted, local_assignments, unparse, xsrc

ID = 'C09'
SCO = 'sdc11073.provider.sco'
PV = 'sdc11073.provider.providerimpl.SdcProvider'
OM = 'sdc11073.consumer.operations.OperationsManager'


_CUR = {}   # the function whose calls are being looked at: locals are followed back to their origin / their dict literal


def _origin(c, e):
    g = _CUR.get('g')
    if g is None:
        return unparse(e)
    h = g.holder(c)
    return g.origin_text(h, e) if h is not None else unparse(e)


def _notify_state(c):
    """Third positional argument of notify_operation (the invocation state) as text (a local alias is followed back)."""
    if len(c.args) >= 3:
        return _origin(c, c.args[2])
    for k in c.keywords:
        if k.arg == 'invocation_state':
            return _origin(c, k.value)
    return None


def _kw_names(c):
    """Keyword names of a call; `**d` counts with the constant keys of the dict literal the local d is bound to."""
    out = set()
    g = _CUR.get('g')
    for k in c.keywords:
        if k.arg is not None:
            out.add(k.arg)
        elif isinstance(k.value, ast.Name) and g is not None:
            h = g.holder(c)
            d = g.unique_def(h, k.value.id) if h is not None else None
            v = g.def_value(d, k.value.id) if d is not None else None
            if isinstance(v, ast.Dict):
                out |= {x.value for x in v.keys if isinstance(x, ast.Constant) and isinstance(x.value, str)}
        elif isinstance(k.value, ast.Dict):
            out |= {x.value for x in k.value.keys if isinstance(x, ast.Constant) and isinstance(x.value, str)}
    return out


def _notify_tid(c):
    if len(c.args) >= 2:
        return unparse(c.args[1])
    for k in c.keywords:
        if k.arg == 'transaction_id':
            return unparse(k.value)
    return None


def enqueue_is_bounded(ctx, rule):
    """The request thread hands a queued operation to the worker with a bounded wait: Queue.put(item, block=True, timeout=None)
    waits for a free slot for ever - with the (small) operations queue full, every further request would hang in the HTTP
    handler instead of being answered (queue.Full becomes a fault)."""
    repo = ctx.repo
    eq = repo.func(f'{SCO}._OperationsWorker.enqueue_operation')
    puts = [c for c in calls_in(eq.node) if call_name(c) in ('put', 'put_nowait') and 'queue' in unparse(c.func).lower()]
    if not puts:
        raise AnalysisError(f'{rule}: enqueue_operation puts nothing on the operations queue')
    for c in puts:
        if call_name(c) == 'put_nowait':
            bounded = True
        else:
            bound = dict(zip(('item', 'block', 'timeout'), c.args))
            bound.update({k.arg: k.value for k in c.keywords if k.arg})
            blk, to = bound.get('block'), bound.get('timeout')
            non_blocking = isinstance(blk, ast.Constant) and blk.value in (False, 0)
            finite = to is not None and not (isinstance(to, ast.Constant) and to.value is None)
            bounded = non_blocking or finite
        ctx.ob(rule, f'enqueue_operation: {unparse(c)[:50]} bounded', bounded,
               'enqueue_operation waits for a free slot of the operations queue for a bounded time only' if bounded else
               f'enqueue_operation: {unparse(c)} binds no timeout (the second positional parameter of Queue.put is `block`): '
               f'with the operations queue full the request thread blocks for ever instead of answering with a fault',
               fi=eq, node=c)


def run(ctx):  # noqa: C901, PLR0912, PLR0915
    repo = ctx.repo
    ctx.rule('C09.R1', 'transaction id: single locked writer, one id per request, same id everywhere')
    ctx.rule('C09.R2', 'queued mode: Wait < Start < exactly one final notification; request path returns Wait')
    ctx.rule('C09.R3', 'direct mode: returned state = notified state')
    ctx.rule('C09.R4', 'handler exceptions become Fail with error information')
    ctx.rule('C09.R5', 'unknown operation: Fail in the response, nothing invoked')
    ctx.rule('C09.R6', 'consumer: shared tables only under the lock; at most one set_result per Future')

    # ------------------------------------------------------------------ R1
    writers = []
    for fi in repo.funcs.values():
        if not fi.module.name.startswith('sdc11073.provider'):
            continue
        for n in walk_no_nested(fi.node):
            tg = n.targets if isinstance(n, ast.Assign) else ([n.target] if isinstance(n, (ast.AugAssign, ast.AnnAssign)) else [])
            for t in tg:
                if isinstance(t, ast.Attribute) and t.attr == '_transaction_id':
                    writers.append((fi, n))
    allowed = {f'{PV}.generate_transaction_id', f'{PV}.__init__'}
    ctx.floor('C09.R1', len(writers), 2, 'writers of _transaction_id')
    ctx.ob('C09.R1', 'single writer', all(f.qual in allowed for f, _ in writers),
           '_transaction_id is written only in __init__ and generate_transaction_id', where=PV,
           witness=[f'{f.qual}:{n.lineno}' for f, n in writers])
    gt = repo.func(f'{PV}.generate_transaction_id')
    g = cfg_of(gt)
    touch = [n for n in g.real_nodes() if any(isinstance(a, ast.Attribute) and a.attr == '_transaction_id' for a in n.walk())]
    regions = {id(w) for n in touch for w, txt in g.held_withs(n, '_transaction_id_lock')}
    ok = bool(touch) and all(g.held_withs(n, '_transaction_id_lock') for n in touch) and len(regions) == 1
    # the one write is an increment by one (`+= 1`, or `new = x + 1; x = new` with the local written out)
    def _is_inc(n):
        st = n.stmt
        if isinstance(st, ast.AugAssign):
            return isinstance(st.op, ast.Add) and isinstance(st.value, ast.Constant) and st.value.value == 1 and \
                isinstance(st.target, ast.Attribute) and st.target.attr == '_transaction_id'
        if isinstance(st, ast.Assign) and any(isinstance(t, ast.Attribute) and t.attr == '_transaction_id' for t in st.targets):
            return g.symbolic_text(n, st.value) in ('self._transaction_id + 1', '1 + self._transaction_id')
        return False
    writes_ = [n for n in touch if n.kind == 'stmt' and isinstance(n.stmt, (ast.Assign, ast.AugAssign)) and any(
        isinstance(t, ast.Attribute) and t.attr == '_transaction_id'
        for t in (n.stmt.targets if isinstance(n.stmt, ast.Assign) else [n.stmt.target]))]
    inc = [n for n in writes_ if _is_inc(n)]
    # what is returned was read (or computed from a read) inside the critical section: the return statement itself reads
    # the counter there, or it returns a local whose one definition lies in the region
    rets_all = [n for n in g.nodes if n.kind == 'return' and n.stmt.value is not None]
    ret_ok = bool(rets_all)
    for r in rets_all:
        if r in touch:
            ret_ok = ret_ok and bool(inc) and g.dominates(inc[0], r)
        elif isinstance(r.stmt.value, ast.Name):
            d = g.unique_def(r, r.stmt.value.id)
            ret_ok = ret_ok and d is not None and d in touch
        else:
            ret_ok = False
    ok = ok and len(inc) == 1 and len(writes_) == 1 and ret_ok
    ctx.ob('C09.R1', 'increment and read in one critical section', ok,
           'generate_transaction_id: `+= 1` and the returned read lie in one `with self._transaction_id_lock` region',
           fi=gt, witness=[n.text() for n in touch])
    hr = expand_aliases(repo.func('sdc11073.provider.porttypes.porttypebase.ServiceWithOperations._handle_operation_request'))
    g = cfg_of(hr)
    gens = g.nodes_calling('generate_transaction_id')
    ok = len(gens) == 1 and not gens[0][0].loops
    tvar = None
    if ok and isinstance(gens[0][0].stmt, ast.Assign) and isinstance(gens[0][0].stmt.targets[0], ast.Name):
        tvar = gens[0][0].stmt.targets[0].id
    ctx.ob('C09.R1', 'one id per request', ok and tvar is not None,
           '_handle_operation_request draws exactly one transaction id', fi=hr)
    resp = [n for n in g.real_nodes() if n.kind == 'stmt' and isinstance(n.stmt, ast.Assign) and
            unparse(n.stmt.targets[0]).endswith('InvocationInfo.TransactionId')]
    ok = bool(resp) and all(unparse(n.stmt.value) == tvar and g.dominates(gens[0][0], n) for n in resp) and \
        all(g.dominates(n, g.exit) or True for n in resp)
    # on every path to the exit
    ok = ok and g.must_pass(gens[0][0], resp)
    ctx.ob('C09.R1', 'id in response', ok, 'the response carries that id on every path', fi=hr)
    fw = g.nodes_calling('handle_operation_request')
    ok = bool(fw) and all(tvar in [unparse(a) for a in c.args] + [unparse(k.value) for k in c.keywords] for _, c in fw)
    ctx.ob('C09.R1', 'id forwarded', ok, 'the same id is passed on to handle_operation_request', fi=hr)
    pf = repo.func(f'{PV}.handle_operation_request')
    ok = all('transaction_id' in [unparse(a) for a in c.args] for c in calls_in(pf.node, 'handle_operation_request'))
    ctx.ob('C09.R1', 'provider forwards id', ok and bool(calls_in(pf.node, 'handle_operation_request')),
           'SdcProvider.handle_operation_request forwards transaction_id to the responsible sco', fi=pf)
    direct = repo.func(f'{SCO}.ScoOperationsRegistry.handle_operation_request')
    nots = calls_in(direct.node, 'notify_operation')
    enq = calls_in(direct.node, 'enqueue_operation')
    ok = bool(nots) and all(_notify_tid(c) == 'transaction_id' for c in nots) and \
        bool(enq) and all('transaction_id' in [unparse(a) for a in c.args] for c in enq)
    ctx.ob('C09.R1', 'id in direct notifications and queue', ok,
           'direct mode notifies with transaction_id; queued mode enqueues transaction_id', fi=direct)
    eq = repo.func(f'{SCO}._OperationsWorker.enqueue_operation')
    put = calls_in(eq.node, 'put')
    run_ = repo.func(f'{SCO}._OperationsWorker.run')
    # what is enqueued: a tuple (position of the id) or a record (NamedTuple) constructed with the id (position and field name)
    tup_pos, field, width = None, None, None
    if put:
        item = put[0].args[0]
        if isinstance(item, ast.Name):
            binds = local_assignments(eq.node).get(item.id, [])
            item = binds[0] if len(binds) == 1 else item
        if isinstance(item, ast.Tuple):
            names = [unparse(e) for e in item.elts]
            tup_pos = names.index('transaction_id') if 'transaction_id' in names else None
            width = len(names)
        elif isinstance(item, ast.Call) and isinstance(item.func, ast.Name):
            rec = next((ci for q_, ci in repo.classes.items() if ci.name == item.func.id and q_.startswith(SCO + '.')
                        and any(unparse(b).split('.')[-1] == 'NamedTuple' for b in ci.node.bases)), None)
            if rec is not None:
                fields = [x.target.id for x in rec.node.body if isinstance(x, ast.AnnAssign) and isinstance(x.target, ast.Name)]
                argn = [unparse(a) for a in item.args]
                if 'transaction_id' in argn:
                    tup_pos = argn.index('transaction_id')
                    field = fields[tup_pos] if tup_pos < len(fields) else None
                for k in item.keywords:
                    if unparse(k.value) == 'transaction_id':
                        field = k.arg
                        tup_pos = fields.index(k.arg) if k.arg in fields else None
                width = len(fields)
    # the worker's local that holds what came out of the operations queue (whatever it is called, incl. plain aliases of it)
    la_run = local_assignments(run_.node)
    qvars = {nm for nm, vals in la_run.items() if any(isinstance(v, ast.Call) and call_name(v) == 'get'
                                                      and '_operations_queue' in unparse(v.func) for v in vals)}
    grown = True
    while grown:
        grown = False
        for nm, vals in la_run.items():
            if nm not in qvars and vals and all(isinstance(v, ast.Name) and v.id in qvars for v in vals):
                qvars.add(nm)
                grown = True
    # the expressions that stand for the id that came out of the queue
    wids = set()
    for n in walk_no_nested(run_.node):
        if isinstance(n, ast.Assign) and isinstance(n.targets[0], ast.Tuple) and isinstance(n.value, ast.Name) and \
                n.value.id in qvars and tup_pos is not None and len(n.targets[0].elts) == width:
            wids.add(unparse(n.targets[0].elts[tup_pos]))
    for q_ in qvars:
        if field is not None:
            wids.add(f'{q_}.{field}')
        if tup_pos is not None:
            wids.add(f'{q_}[{tup_pos}]')
    for nm, vals in la_run.items():
        if vals and all(unparse(v) in wids for v in vals):
            wids.add(nm)
    g_run = cfg_of(run_)
    for n in g_run.real_nodes():   # a, b = rec.x, rec.y
        if n.kind == 'stmt' and isinstance(n.stmt, ast.Assign) and isinstance(n.stmt.targets[0], ast.Tuple):
            for t in n.stmt.targets[0].elts:
                if isinstance(t, ast.Name):
                    v = g_run.def_value(n, t.id)
                    if v is not None and unparse(v) in wids:
                        wids.add(t.id)
    wid = sorted(wids)[0] if wids else None
    wn = calls_in(run_.node, 'notify_operation')
    ok = wid is not None and bool(wn) and all(_notify_tid(c) in wids for c in wn)
    ctx.ob('C09.R1', 'id through the queue', ok,
           f'the worker unpacks the id from the same tuple position it was enqueued at ({wid}) and notifies with it',
           fi=run_, witness={'tuple_position': tup_pos, 'worker_name': wid})
    ns = repo.func('sdc11073.provider.porttypes.setserviceimpl.SetService.notify_operation')
    src = xsrc(ns)
    ctx.ob('C09.R1', 'report carries id and state',
           'report_part.InvocationInfo.TransactionId = transaction_id' in src and
           'report_part.InvocationInfo.InvocationState = invocation_state' in src,
           'notify_operation writes its transaction_id and invocation_state parameters into the report part', fi=ns)

    # ------------------------------------------------------------------ R2
    g = cfg_of(run_)
    g.assume_logging_does_not_raise()
    _CUR['g'] = g
    nodes = {}
    for n, c in g.nodes_calling('notify_operation'):
        nodes.setdefault(_notify_state(c), []).append((n, c))
    wait = nodes.get('InvocationState.WAIT', [])
    start = nodes.get('InvocationState.START', [])
    failed = nodes.get('InvocationState.FAILED', [])
    finals = [(s, v) for s, v in nodes.items() if s not in ('InvocationState.WAIT', 'InvocationState.START')]
    result = [x for s, v in finals if s != 'InvocationState.FAILED' for x in v]
    if not (len(wait) == 1 and len(start) == 1 and len(failed) == 1 and len(result) == 1):
        ctx.ob('C09.R2', 'notification set', False,
               f'the worker must notify WAIT, START, one result state and FAILED exactly once each in its code; found '
               f'{ {k: len(v) for k, v in nodes.items()} }', fi=run_)
    else:
        w, s, f, r = wait[0][0], start[0][0], failed[0][0], result[0][0]
        ctx.ob('C09.R2', 'order Wait < Start < final', g.dominates(w, s) and g.dominates(s, r) and g.dominates(s, f),
               'WAIT is notified before START, START before any final state', fi=run_,
               witness=[w.lineno, s.lineno, r.lineno, f.lineno])
        two = g.path_exists(r, f, normal_only=False) or g.path_exists(f, r)
        # within one loop iteration: cut at the loop header
        hdr = [n for n in g.nodes if n.kind == 'test' and isinstance(n.stmt, ast.While)
               and not getattr(n.stmt, '_inline_wrapper', False)]
        two = g.path_exists(r, f, avoid=hdr) or g.path_exists(f, r, avoid=hdr)
        ctx.ob('C09.R2', 'at most one final state', not two,
               'after a delivered final notification no second final notification is reachable in the same iteration'
               if not two else 'a path delivers the result state and FAILED for the same transaction', fi=run_)
        # every path from START to the next iteration delivers a final state or leaves through the exceptional edge
        # of a final notification (it could not be delivered)
        leak = False
        r_ = g._pp_reach([(s, 1)], avoid=[r, f] + [], normal_only=False)  # noqa: SLF001
        for h in hdr:
            if (h.id, 0) in r_:
                # is it only reachable through the exceptional edge of f (FAILED could not be sent)?
                r2 = g._pp_reach([(s, 1)], avoid=[r, f, *[x for x in f.esucc]], normal_only=False)  # noqa: SLF001
                if (h.id, 0) in r2:
                    leak = True
        ctx.ob('C09.R2', 'a final state on every path', not leak,
               'every path from START back to the queue delivers the result state or FAILED (or the FAILED '
               'notification itself could not be sent)' if not leak else
               'a path from START returns to the queue without any final notification', fi=run_)
        kw = _kw_names(failed[0][1])
        ctx.ob('C09.R2', 'Fail carries error information', {'error', 'error_message'} <= kw,
               'the FAILED notification passes error and error_message', fi=run_, node=failed[0][1])
        ctx.ob('C09.R2', 'result state from the handler', _notify_state(result[0][1]) == 'execute_result.invocation_state',
               'the final state notified on success is execute_result.invocation_state', fi=run_)
    gd = cfg_of(direct)
    _CUR['g'] = gd
    enq_n = gd.nodes_calling('enqueue_operation')
    rets = [n for n in gd.nodes if n.kind == 'return']
    ok = bool(enq_n)
    for n, _ in enq_n:
        nxt = [r for r in rets if gd.dominates(n, r) and ('operation.delayed_processing', True) in gd.facts_at(r)]
        ok = ok and len(nxt) == 1 and unparse(nxt[0].stmt.value) == 'InvocationState.WAIT'
    ctx.ob('C09.R2', 'request path returns Wait', ok, 'a queued request is answered with WAIT', fi=direct)

    # ------------------------------------------------------------------ R3
    gd.assume_logging_does_not_raise()
    dn = {}
    for n, c in gd.nodes_calling('notify_operation'):
        dn.setdefault(_notify_state(c), []).append(n)
    ok = True
    wit = []
    # a return of a result variable stands for the statements that give the variable its value (single-exit spelling)
    sites = []
    for r in rets:
        if ('operation.delayed_processing', True) in gd.facts_at(r):
            continue
        v = r.stmt.value
        defs = gd._plain_defs(r, v.id) if isinstance(v, ast.Name) else None  # noqa: SLF001
        if defs:
            sites += [(d, gd.def_value(d, v.id)) for d in defs]
        else:
            sites.append((r, v))
    for r, v in sites:
        val = unparse(v)
        # the notification that reaches this return: the one whose completion dominates it ...
        doms = [s for s, ns in dn.items() for n in ns if gd.dominates(n, r)]
        # ... or, for the return after the try statement, the one on the only non-exceptional way in
        if not doms:
            cands = [s for s, ns in dn.items() for n in ns
                     if gd.path_exists(n, r, normal_only=True)]
            doms = cands
        wit.append({'return': val, 'notified': doms})
        ok = ok and doms == [val]
    ctx.ob('C09.R3', 'response state equals reported state', ok and bool(wit),
           'direct mode: every return value is the invocation state that was notified on that path' if ok else
           f'direct mode: returned state and notified state differ: {wit} - the response and the '
           f'OperationInvokedReport of one transaction carry different final states', fi=direct, witness=wit)

    # ------------------------------------------------------------------ R4
    for fi, label in ((direct, 'direct'), (run_, 'queued')):
        _CUR['g'] = cfg_of(fi)
        exes = calls_in(fi.node, 'execute_operation')
        ok = bool(exes)
        for c in exes:
            cur, child = getattr(c, '_parent', None), c
            found = False
            while cur is not None and cur is not fi.node:
                if isinstance(cur, ast.Try) and any(child is s for s in cur.body):
                    for h in cur.handlers:
                        if h.type is None or 'Exception' in unparse(h.type):
                            hn = [x for x in calls_in(h, 'notify_operation')]
                            if hn and _notify_state(hn[0]) == 'InvocationState.FAILED' and \
                                    {'error', 'error_message'} <= _kw_names(hn[0]):
                                found = True
                    break
                child, cur = cur, getattr(cur, '_parent', None)
            ok = ok and found
        ctx.ob('C09.R4', f'{label}: raise => Fail', ok,
               f'{label} mode: execute_operation runs inside a catch-all whose handler notifies FAILED with error '
               f'information', fi=fi)

    # ------------------------------------------------------------------ R5
    g = cfg_of(hr)
    none_nodes = [n for n in g.real_nodes() if ('operation is None', True) in g.facts_at(n)]
    if not none_nodes:
        raise AnalysisError('C09.R5: `operation is None` branch not found')
    src_none = ' '.join(n.text() for n in none_nodes)
    sets_failed = any(n.kind == 'stmt' and isinstance(n.stmt, ast.Assign) and
                      unparse(n.stmt.targets[0]).endswith('InvocationInfo.InvocationState') and
                      unparse(n.stmt.value).endswith('InvocationState.FAILED') for n in none_nodes)
    sets_err = any(n.kind == 'stmt' and isinstance(n.stmt, ast.Assign) and
                   unparse(n.stmt.targets[0]).endswith('InvocationInfo.InvocationError') for n in none_nodes)
    if not (sets_failed and sets_err):
        # single-exit spelling: the branch only chooses the values, one common statement writes them to the response
        def _delivered(attr, want_suffix):
            hit = False
            for n in g.real_nodes():
                if n.kind == 'stmt' and isinstance(n.stmt, ast.Assign) and unparse(n.stmt.targets[0]).endswith(attr):
                    for facts, leaf in g.value_cases(n, n.stmt.value):
                        if ('operation is None', True) in facts:
                            if want_suffix is not None and not unparse(leaf).endswith(want_suffix):
                                return False
                            if isinstance(leaf, ast.Constant) and leaf.value is None:
                                return False
                            hit = True
            return hit
        sets_failed = sets_failed or _delivered('InvocationInfo.InvocationState', 'InvocationState.FAILED')
        sets_err = sets_err or _delivered('InvocationInfo.InvocationError', None)
    calls_h = any(call_name(c) in ('handle_operation_request', 'execute_operation') or 'transaction' in (call_name(c) or '')
                  for n in none_nodes for c in n.calls())
    ctx.ob('C09.R5', 'unknown operation', sets_failed and sets_err and not calls_h,
           'an unknown operation handle yields FAILED + InvocationError in the response and reaches no handler', fi=hr,
           witness=src_none[:200])
    ok = all(('operation is None', False) in g.facts_at(n) for n, _ in fw)
    ctx.ob('C09.R5', 'handler only for known operations', ok,
           'handle_operation_request is dominated by `operation is not None`', fi=hr)

    # the threads that carry the protocol survive a failing message / observer: the consumer's notification dispatcher (a
    # dead thread never delivers the final report to the waiting Future) and the provider's operations worker
    from .c13 import worker_loops_contained
    worker_loops_contained(ctx, 'C09.R6', ['sdc11073.consumer.request_handler_deferred.DispatchKeyRegistryDeferred._read_queue',
                                          'sdc11073.provider.sco._OperationsWorker.run'])
    gathers_isolate_subscribers(ctx, 'C09.R4')
    enqueue_is_bounded(ctx, 'C09.R2')
    ctx.borrow('C08', {'C08.R6'}, 'C09.R6', contains=['filter tokenised'], why='the subscriber of OperationInvokedReport is matched whatever white space separates its filter')
    # every session of the consumer gets its own OperationsManager: transaction ids start again at 1 when the provider restarts,
    # a manager kept over restart() would complete new calls with the stored final reports of the old session
    sa_ = repo.func('sdc11073.consumer.consumerimpl.SdcConsumer.start_all')
    gsa = cfg_of(sa_)
    mk_om = [n_ for n_ in gsa.real_nodes() if n_.kind == 'stmt' and isinstance(n_.stmt, ast.Assign) and
             any(unparse(t) == 'self.operations_manager' for t in n_.stmt.targets) and isinstance(n_.stmt.value, ast.Call)]
    cond_om = [t for n_ in mk_om for t, _p in gsa.facts_at(n_).both() if 'operations_manager' in t]
    ctx.ob('C09.R6', 'a new OperationsManager per session', bool(mk_om) and not cond_om,
           'start_all creates the OperationsManager unconditionally' if mk_om and not cond_om else
           f'start_all creates the OperationsManager only under {cond_om}: after restart() the old manager (with the report parts of '
           f'the previous provider session) answers new calls whose transaction ids start again at 1', fi=sa_)
    ctx.borrow('C04', {'C04.R1'}, 'C09.R2', contains=['run_coro', 'block', 'wait'], why='a notification is delivered before the next state is notified')
    from . import common
    common.log_templates_are_constant(ctx, 'C09.R4', ['sdc11073.provider.sco', 'sdc11073.provider.operations',
                                                      'sdc11073.provider.porttypes', 'sdc11073.provider.providerimpl',
                                                      'sdc11073.consumer.operations', 'sdc11073.consumer.serviceclients',
                                                      'sdc11073.roles'])
    common.no_mutation_while_iterating(ctx, 'C09.R6', ['sdc11073.provider.sco', 'sdc11073.provider.operations', 'sdc11073.consumer.operations'], floor=1)
    # ------------------------------------------------------------------ R6
    shared = ('_transactions', '_last_operation_invoked_reports')
    n_acc = 0
    for name, fi in repo.cls(OM).methods.items():
        if name == '__init__':
            continue
        g = cfg_of(fi)
        for n in g.real_nodes():
            for a in n.walk():
                if isinstance(a, ast.Attribute) and a.attr in shared and dotted(a.value) == 'self':
                    n_acc += 1
                    ok = bool(g.held_withs(n, '_transactions_lock'))
                    if not ok:
                        ctx.ob('C09.R6', f'{name}: self.{a.attr} unlocked', False,
                               f'{name}: self.{a.attr} is accessed outside `with self._transactions_lock`', fi=fi, node=a)
    ctx.floor('C09.R6', n_acc, 5, 'accesses to the shared transaction tables')
    ctx.ob('C09.R6', 'shared tables under lock', True, f'{n_acc} accesses checked (unlocked ones listed separately)',
           where=OM, witness=n_acc)
    co = repo.func(f'{OM}.call_operation')
    g = cfg_of(co)
    sr = g.nodes_calling('set_result')
    clash = [(a.lineno, b.lineno) for a, _ in sr for b, _ in sr if a is not b and g.path_exists_const(a, b)]
    ctx.ob('C09.R6', 'call_operation: one set_result per path', len(sr) >= 1 and not clash,
           'the set_result sites of call_operation are on mutually exclusive paths', fi=co, witness=clash)
    regs = [n for n in g.real_nodes() if n.kind == 'stmt' and isinstance(n.stmt, ast.Assign) and
            unparse(n.stmt.targets[0]).startswith('self._transactions[')]
    # (a result variable that is still None on the registering path keeps `if result is not None: set_result` away from it)
    ok = bool(regs) and not any(g.path_exists_const(a, r) or g.path_exists_const(r, a) for a, _ in sr for r in regs)
    ctx.ob('C09.R6', 'registered xor completed', ok,
           'a transaction is registered for later completion only on paths that did not complete the Future', fi=co)
    # whatever is registered for later completion starts with the report parts that arrived before the response: on every
    # path the parts handed to OperationData come from a scan of the early-report cache (never an empty list "because the
    # reports are still to come")
    ok_scan = bool(regs)
    wit_scan = []
    for rn in regs:
        v = rn.stmt.value
        parts_arg = v.args[2] if isinstance(v, ast.Call) and len(v.args) >= 3 else None
        if parts_arg is None:
            ok_scan = False
            continue
        for facts_, leaf in g.value_cases(rn, parts_arg):
            t = unparse(leaf)
            wit_scan.append(f'{[f for f in facts_.resolved][-2:]} => {t[:80]}')
            ok_scan = ok_scan and '_last_operation_invoked_reports' in t and 'TransactionId' in t
    ctx.ob('C09.R6', 'registration carries the early report parts', ok_scan,
           'call_operation registers a transaction together with all report parts of it that arrived before the response'
           if ok_scan else
           'call_operation registers a transaction without scanning the cache of early reports on some path: a report that '
           'overtook the response is lost (the result misses parts, or the Future never completes)', fi=co, witness=wit_scan)
    post = g.nodes_calling('post_message')
    ok = bool(post) and all(not g.held_withs(p, '_transactions_lock') for p, _ in post) and \
        all(g.held_withs(n, '_transactions_lock') for n, _ in sr)
    ctx.ob('C09.R6', 'lookup of early reports and registration are atomic', ok,
           'the scan of early reports, completion and registration happen in one lock region (the request itself is '
           'sent outside the lock)', fi=co)
    orp = repo.func(f'{OM}.on_operation_invoked_report')
    g = cfg_of(orp)
    sr = g.nodes_calling('set_result')
    def _registered(node):
        """True / False when the branch facts at node say that the transaction is / is not in self._transactions - written as
        `k in self._transactions` or as a `.get(k)` that is (not) None, directly or through a local (symbolic facts)."""
        for t, p in g.facts_symbolic(node):
            if t.endswith(' in self._transactions'):
                return p
            if t.startswith('self._transactions.get(') and t.endswith(' is None'):
                return not p
            if t.startswith('self._transactions.get(') and t.endswith(')'):
                return p
        return None
    # removal from the table: pop(..) or del self._transactions[..]
    pops = [n for n, c in g.nodes_calling('pop') if '_transactions' in unparse(c.func)] + \
        [n for n in g.real_nodes() if n.kind == 'stmt' and isinstance(n.stmt, ast.Delete)
         and any('self._transactions[' in unparse(t) for t in n.stmt.targets)]
    ok = bool(sr) and bool(pops) and all(any(g.dominates(p, s) for p in pops) for s, _ in sr) and \
        all(_registered(s) is True for s, _ in sr)
    ctx.ob('C09.R6', 'report completes a registered transaction once', ok,
           'on_operation_invoked_report completes a Future only after removing its transaction from the table', fi=orp)
    # non-final states never complete
    ok = all(('invocation_state in self.nonFinalOperationStates', False) in g.facts_at(s) for s, _ in sr)
    ctx.ob('C09.R6', 'only final states complete', ok, 'WAIT / START reports never complete the Future', fi=orp)
    # unknown transactions are buffered for a later call_operation
    buf = [n for n, c in g.nodes_calling('append') if '_last_operation_invoked_reports' in unparse(c.func)]
    ok = bool(buf) and all(_registered(n) is False for n in buf)
    ctx.ob('C09.R6', 'early reports are kept', ok,
           'a report for a not yet registered transaction is kept for the later call_operation', fi=orp)


# ---------------------------------------------------------------------- self-test seeds
def gathers_isolate_subscribers(ctx, rule):
    """asyncio.gather over the per-subscriber sends collects exceptions (return_exceptions=True): a subscriber that fails in an
    unexpected way does not make the notification call raise into the code that reports the operation / the commit."""
    repo = ctx.repo
    n = 0
    for q, fi in sorted(repo.funcs.items()):
        if not q.startswith('sdc11073.provider.subscriptionmgr_async.'):
            continue
        for c in calls_in(fi.node, 'gather'):
            n += 1
            ok = any(k.arg == 'return_exceptions' and isinstance(k.value, ast.Constant) and k.value.value is True
                     for k in c.keywords)
            ctx.ob(rule, f'{fi.name}: gather(return_exceptions=True)', ok,
                   f'{fi.name}: delivery errors of single subscribers are collected, not raised' if ok else
                   f'{fi.name}: gather() without return_exceptions=True: the first unexpected delivery error of one subscriber '
                   f'is raised into the caller (operation handling sees a failure after the final state was sent; other '
                   f'subscribers get a second, different final state)', fi=fi, node=c)
    ctx.floor(rule, n, 1, 'asyncio.gather calls in subscriptionmgr_async')


from selftest import seed  # noqa: E402

_S = 'src/sdc11073/provider/sco.py'
_P = 'src/sdc11073/provider/providerimpl.py'
_B = 'src/sdc11073/provider/porttypes/porttypebase.py'
_O = 'src/sdc11073/consumer/operations.py'
SEEDS = [
    seed('transaction id read outside the lock', 'C09.R1',
         (_P, "        with self._transaction_id_lock:\n            self._transaction_id += 1\n            return self._transaction_id",
          "        with self._transaction_id_lock:\n            self._transaction_id += 1\n        return self._transaction_id")),
    seed('second id for the response', 'C09.R1',
         (_B, "        set_response.InvocationInfo.TransactionId = transaction_id\n", "        set_response.InvocationInfo.TransactionId = self._sdc_device.generate_transaction_id()\n")),
    seed('worker unpacks the tuple in another order', 'C09.R1',
         (_S, "                    tr_id, operation, request, operation_request = from_queue  # unpack tuple", "                    operation, tr_id, request, operation_request = from_queue  # unpack tuple")),
    seed('START before WAIT', 'C09.R2',
         (_S, "                        operation, tr_id, InvocationState.WAIT, self._mdib.mdib_version_group\n                    )\n                    time.sleep(0.001)  # not really necessary, but in real world there might also be some delay.\n                    self._set_service.notify_operation(\n                        operation, tr_id, InvocationState.START, self._mdib.mdib_version_group",
          "                        operation, tr_id, InvocationState.START, self._mdib.mdib_version_group\n                    )\n                    time.sleep(0.001)  # not really necessary, but in real world there might also be some delay.\n                    self._set_service.notify_operation(\n                        operation, tr_id, InvocationState.WAIT, self._mdib.mdib_version_group")),
    seed('Fail reported in a finally (second final state)', 'C09.R2',
         (_S, "                    except Exception as ex:\n                        self._logger.exception(\n                            '%s: error executing operation \"%s\"', operation.__class__.__name__, operation.handle\n                        )\n                        self._set_service.notify_operation(",
          "                    finally:\n                        ex = None\n                        self._logger.exception(\n                            '%s: error executing operation \"%s\"', operation.__class__.__name__, operation.handle\n                        )\n                        self._set_service.notify_operation(")),
    seed('Fail without error information', 'C09.R2',
         (_S, "                            self._mdib.mdib_version_group,\n                            error=InvocationError.OTHER,\n                            error_message=repr(ex),\n                        )", "                            self._mdib.mdib_version_group,\n                        )")),
    seed('queued request answered with Start', 'C09.R2',
         (_S, "            self._worker.enqueue_operation(operation, request, operation_request, transaction_id)\n            return InvocationState.WAIT", "            self._worker.enqueue_operation(operation, request, operation_request, transaction_id)\n            return InvocationState.START")),
    seed('direct mode answers Fin again', 'C09.R3', (_S, "        return execute_result.invocation_state", "        return InvocationState.FINISHED")),
    seed('direct mode: handler exceptions not caught', 'C09.R4',
         (_S, "        except Exception as ex:\n            self._logger.exception('%s: error executing operation \"%s\"', operation.__class__.__name__, operation.handle)\n            self._set_service.notify_operation(",
          "        except KeyError as ex:\n            self._logger.exception('%s: error executing operation \"%s\"', operation.__class__.__name__, operation.handle)\n            self._set_service.notify_operation(")),
    seed('unknown operation forwarded', 'C09.R5',
         (_B, "        if operation is None:\n            error_text", "        if operation is None and request.OperationHandleRef is None:\n            error_text"), accept_analysis_error=True),
    seed('consumer: report buffer read outside the lock', 'C09.R6',
         (_O, "        with self._transactions_lock:\n            msg_types = self._msg_reader.msg_types\n            abstract_set_response",
          "        early = list(self._last_operation_invoked_reports)\n        with self._transactions_lock:\n            msg_types = self._msg_reader.msg_types\n            abstract_set_response")),
    seed('consumer: registers although already completed', 'C09.R6',
         (_O, "                future_object.set_result(self._mk_operation_result(report_part, abstract_set_response, parts))\n            else:\n                self._logger.info(",
          "                future_object.set_result(self._mk_operation_result(report_part, abstract_set_response, parts))\n            if True:\n                self._logger.info(")),
    seed('consumer: completes without removing the transaction', 'C09.R6',
         (_O, "                        operation_data = self._transactions.pop(transaction_id, None)", "                        operation_data = self._transactions.get(transaction_id, None)")),
    seed('control: direct mode via local variable', 'C09.R3',
         (_S, "        return execute_result.invocation_state", "        self._logger.debug('direct operation done')\n        return execute_result.invocation_state"), control=True),
]
