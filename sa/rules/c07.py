"""C07 - Get responses are consistent snapshots under concurrent transactions.

Decided (structural necessary conditions):
  R1 SAME-REGION: in every Get handler all reads of MDIB content and of the version group that go
     into one response lie in one and the same `with <mdib>.mdib_lock` region, or the response is
     built from exactly one atomic snapshot provider whose own version group is the one used.
  R2 the snapshot providers are atomic (content and version group computed in one region).
  R3 the writer holds the same lock from before the first table write until after the version write,
     and there is exactly one mdib_lock per MDIB object.
Not decided: nothing value-level; see DESIGN.md.
"""
from __future__ import annotations

import ast

from engine.cfg import call_name, cfg_of
from engine.errors import AnalysisError
from engine.repo import walk_no_nested
from engine.util import dotted, local_assignments, registrations, roots, self_calls, unparse

ID = 'C07'
GET_ACTIONS = {'GetMdib', 'GetMdState', 'GetMdDescription', 'GetContextStates'}
MD_ATTRS = {'descriptions', 'states', 'context_states', 'mdib_version', 'sequence_id', 'instance_id',
            'mdib_version_group', 'mdstate_version', 'mddescription_version'}
SNAPSHOT = {'reconstruct_mdib', 'reconstruct_mdib_with_context_states', 'reconstruct_md_description'}
MDIB_BASE = 'sdc11073.mdib.mdibbase.MdibBase'


def is_mdib_alias(e) -> bool:
    d = dotted(e)
    if d is None:
        return False
    last = d.rsplit('.', 1)[-1]
    return last in ('mdib', '_mdib')


def handler_closure(repo, cls, hname):
    """The handler and the methods of its class it calls through self (transitively)."""
    out = []
    todo = [hname]
    seen = set()
    while todo:
        name = todo.pop()
        if name in seen:
            continue
        seen.add(name)
        fi = repo.resolve_method(cls.qual, name)
        if fi is None:
            continue
        # only follow into methods defined in service / port-type classes, not the generic base helpers
        out.append(fi)
        for m, _c in self_calls(fi.node):
            todo.append(m)
    return out


def mdib_reads(g):
    """(node, kind, attr, ast) for reads of MDIB state / snapshot calls in a CFG."""
    out = []
    for n in g.real_nodes():
        for a in n.walk():
            if isinstance(a, ast.Attribute) and is_mdib_alias(a.value):
                if a.attr in MD_ATTRS:
                    out.append((n, 'read', a.attr, a))
                elif a.attr in SNAPSHOT:
                    out.append((n, 'snap', a.attr, a))
    return out


def lock_region(g, n, a=None):
    """The outermost enclosing `with X.mdib_lock` statement of node n (None if unlocked).

    A read that is itself the context expression of the with statement is not inside the region."""
    regs = [w for w, txt in g.held_withs(n, 'mdib_lock')]
    return regs[0] if regs else None


def snapshot_providers(ctx, rule):
    """reconstruct_* return (content, self.mdib_version_group) computed inside one mdib_lock region."""
    repo = ctx.repo
    n_snap = 0
    for name in sorted(SNAPSHOT):
        fi = repo.method(MDIB_BASE, name)
        g = cfg_of(fi)
        n_snap += 1
        rets = [n for n in g.nodes if n.kind == 'return']
        ok = bool(rets)
        detail = []
        for rn in rets:
            region = lock_region(g, rn)
            v = rn.stmt.value
            assigns = local_assignments(fi.node)
            good = region is not None and isinstance(v, ast.Tuple) and len(v.elts) == 2
            if good:
                ver = v.elts[1]
                good = isinstance(ver, ast.Attribute) and ver.attr == 'mdib_version_group' and dotted(ver.value) == 'self'
                # content expression(s) evaluated in the same region
                for r in roots(v.elts[0], assigns):
                    holder = _node_of(g, r)
                    if holder is None or lock_region(g, holder) is not region:
                        good = False
            detail.append({'return_line': rn.lineno, 'in_region': region is not None, 'ok': good})
            ok = ok and good
        ctx.ob(rule, name, ok, f'{name} returns (content, self.mdib_version_group) computed inside one '
               f'`with self.mdib_lock`', fi=fi, witness=detail)
    ctx.floor(rule, n_snap, 3, 'snapshot providers')


def run(ctx):
    repo = ctx.repo
    ctx.rule('C07.R1', 'SAME-REGION: all MDIB reads feeding one Get response lie in one mdib_lock region, or the '
                       'response comes from one atomic snapshot provider and uses that provider\'s version group')
    ctx.rule('C07.R2', 'snapshot providers compute content and version group inside one mdib_lock region')
    ctx.rule('C07.R3', 'the transaction manager holds mdib_lock around yield, commit and version write; a single '
                       'mdib_lock object per MDIB')
    _fresh_version_group(ctx)
    regs = [r for r in registrations(repo) if r[2] in GET_ACTIONS]
    ctx.floor('C07.R1', len(regs), 4, 'Get handlers registered with register_post_handler(DispatchKey(actions.Get*')
    for cls, _reg_fi, action, _msg, hname, _call in regs:
        funcs = [f for f in handler_closure(repo, cls, hname)
                 if f.module.name.startswith('sdc11073.provider.porttypes')]
        if not funcs:
            raise AnalysisError(f'C07.R1: handler {hname} of {cls.qual} for {action} not resolvable')
        n_reads = 0
        for fi in funcs:
            g = cfg_of(fi)
            reads = mdib_reads(g)
            if not reads:
                continue
            n_reads += len(reads)
            assigns = local_assignments(fi.node)
            regions = {}
            for n, kind, attr, a in reads:
                regions.setdefault(lock_region(g, n), []).append((n, kind, attr, a))
            unlocked = regions.get(None, [])
            plain_unlocked = [r for r in unlocked if r[1] == 'read']
            snaps_unlocked = [r for r in unlocked if r[1] == 'snap']
            locked_regions = [k for k in regions if k is not None]
            witness = {'handler': f'{cls.name}.{hname}', 'action': action,
                       'regions': [{'with_line': (k.lineno if k is not None else None),
                                    'reads': [f'{attr}@{n.lineno}' for n, _k, attr, _a in v]}
                                   for k, v in regions.items()]}
            # (a) no plain read outside a region
            for n, _k, attr, a in plain_unlocked:
                ctx.ob('C07.R1', f'unlocked read {unparse(a)}', False,
                       f'{action}: MDIB attribute "{attr}" is read outside any mdib_lock region; a transaction '
                       f'committing between this read and the locked reads makes the response inconsistent',
                       fi=fi, node=a, witness=witness)
            # (b) at most one region / one snapshot on any path
            if len(locked_regions) > 1:
                ctx.ob('C07.R1', 'several regions', False,
                       f'{action}: MDIB is read in {len(locked_regions)} separate mdib_lock regions',
                       fi=fi, node=locked_regions[1], witness=witness)
            if locked_regions and snaps_unlocked:
                n, _k, attr, a = snaps_unlocked[0]
                ctx.ob('C07.R1', f'snapshot outside region {attr}', False,
                       f'{action}: snapshot provider {attr} is called outside the region that holds the other reads',
                       fi=fi, node=a, witness=witness)
            if not locked_regions and snaps_unlocked:
                # exactly one snapshot call per path
                ok = True
                for i, (n1, *_x) in enumerate(snaps_unlocked):
                    for n2, *_y in snaps_unlocked[i + 1:]:
                        if g.reaches(n1, n2) or g.reaches(n2, n1):
                            ok = False
                ctx.ob('C07.R1', 'one snapshot per path', ok,
                       f'{action}: at most one atomic snapshot provider call on any path', fi=fi,
                       node=snaps_unlocked[0][3], witness=witness)
            if len(locked_regions) == 1 and not plain_unlocked and not snaps_unlocked:
                ctx.ob('C07.R1', 'single region', True,
                       f'{action}: all {len(reads)} MDIB reads inside one mdib_lock region', fi=fi,
                       node=locked_regions[0], witness=witness)
            # (c) the version group put into the response comes from that region / that snapshot
            for n, c in g.nodes_calling('set_mdib_version_group'):
                if not c.args:
                    continue
                srcs = roots(c.args[0], assigns)
                for s in srcs:
                    ok, why = _version_source_ok(s, g, fi, reads, locked_regions, assigns)
                    ctx.ob('C07.R1', f'version source {unparse(c.args[0])} <- {unparse(s)}', ok,
                           f'{action}: version group of the response {why}', fi=fi, node=c,
                           witness={'arg': unparse(c.args[0]), 'source': unparse(s), 'line': getattr(s, 'lineno', None)})
        if n_reads == 0:
            raise AnalysisError(f'C07.R1: no MDIB read found in handler closure of {action} ({hname})')

    # ---------------------------------------------------------------- R2
    n_snap = 0
    snapshot_providers(ctx, 'C07.R2')

    # ---------------------------------------------------------------- R4
    # GetMdState / GetContextStates serialise the selected state containers after the lock is released; that is
    # only a snapshot because the provider commit replaces state containers and never mutates a stored one.
    from engine.flow import Resident
    from .c02 import commit_closure, transaction_classes
    from .c03 import INPLACE_MUTATORS
    ctx.rule('C07.R4', 'the provider commit never mutates a stored state container in place (it replaces it)')
    seen = set()
    n_cl = 0
    for cq in transaction_classes(repo):
        for fi in commit_closure(repo, cq).values():
            if fi.qual in seen:
                continue
            seen.add(fi.qual)
            n_cl += 1
            res = Resident(fi.node, extra_sources=lambda e: isinstance(e, ast.Attribute) and e.attr == 'old'
                           and isinstance(e.value, ast.Name))

            def is_state(e):
                txt = unparse(e)
                return 'descr' not in txt.lower() or 'state' in txt.lower()
            bad = []
            for n in walk_no_nested(fi.node):
                if isinstance(n, ast.Call) and isinstance(n.func, ast.Attribute) and n.func.attr in INPLACE_MUTATORS \
                        and res.is_resident(n.func.value) and 'state' in unparse(n.func.value).lower():
                    bad.append(n)
                tg = n.targets if isinstance(n, ast.Assign) else ([n.target] if isinstance(n, ast.AugAssign) else [])
                for t in tg:
                    if isinstance(t, ast.Attribute) and res.is_resident(t.value) and 'state' in unparse(t.value).lower():
                        bad.append(n)
            ctx.ob('C07.R4', f'{fi.name}: stored states immutable', not bad,
                   f'{fi.cls.name}.{fi.name}: no stored state container is changed in place' if not bad else
                   f'{fi.cls.name}.{fi.name}: {unparse(bad[0])[:80]} changes a state container that is stored in the MDIB; a '
                   f'GetMdState / GetContextStates answer that selected it at version N is serialised with the content of '
                   f'N+1', fi=fi, node=bad[0] if bad else None, witness={'resident_locals': sorted(res.tainted)})
    ctx.floor('C07.R4', n_cl, 10, 'functions of the commit closure')

    from . import common
    common.reconstruction_is_uncached(ctx, 'C07.R2')
    common.version_group_setters_total(ctx, 'C07.R2')
    common.entity_getters_hand_out_copies(ctx, 'C07.R4')
    ctx.borrow('C02', {'C02.R1'}, 'C07.R3', why='content and MdibVersion change together')
    ctx.borrow('C11', {'C11.R1'}, 'C07.R1', contains=['roll-back'], why='a rejected insert leaves the lookups of the committed states intact')
    # ... in that order: a commit that fails half-way (a unique index rejects the second state) leaves the part it applied under
    # the NEW MdibVersion - never new content under the version that earlier answers already stated
    n_ord = 0
    for q_, fi_ in sorted(repo.funcs.items()):
        if fi_.name != 'process_transaction' or not q_.startswith('sdc11073.mdib.transactions.'):
            continue
        go = cfg_of(fi_)
        vs = [n_ for n_ in go.real_nodes() if n_.kind == 'stmt' and isinstance(n_.stmt, ast.Assign) and
              any(unparse(t).endswith('_mdib.mdib_version') for t in n_.stmt.targets)]
        eff = [n_ for n_, c_ in go.nodes_calling('_handle_state_updates')]
        if not vs or not eff:
            continue
        n_ord += 1
        late = [e for e in eff if not any(go.dominates(v, e) for v in vs)]
        ctx.ob('C07.R3', f'{fi_.cls.name}.process_transaction: version before table effects', not late,
               f'{fi_.cls.name}.process_transaction raises the MdibVersion before it touches the state tables' if not late else
               f'{fi_.cls.name}.process_transaction changes the state tables before it raises the MdibVersion: when the commit fails '
               f'after the first state, Get responses before and after state the same MdibVersion with different content', fi=fi_)
    ctx.floor('C07.R3', n_ord, 5, 'state transactions with a version store and table effects')
    # writing a container into a response tree changes nothing on the container: the serialisers of the MDIB containers store no
    # attribute (except a missing one they fill once: `if self.X is None: self.X = ..`) and call none of their own mutators
    n_ser = 0
    for q_, fi_ in sorted(repo.funcs.items()):
        if not (q_.startswith(('sdc11073.mdib.statecontainers.', 'sdc11073.mdib.descriptorcontainers.', 'sdc11073.mdib.containerbase.'))
                and fi_.name in ('mk_state_node', 'mk_node', 'mk_descriptor_node', 'update_node', 'mk_descriptor_node')):
            continue
        n_ser += 1
        gs_ = cfg_of(fi_)
        bad_ = []
        for nn in gs_.real_nodes():
            if nn.kind == 'stmt' and isinstance(nn.stmt, (ast.Assign, ast.AugAssign)):
                for t in (nn.stmt.targets if isinstance(nn.stmt, ast.Assign) else [nn.stmt.target]):
                    if isinstance(t, ast.Attribute) and unparse(t.value) == 'self':
                        lazy = any(p is True and txt == f'self.{t.attr} is None' for txt, p in gs_.facts_at(nn).both())
                        if not lazy or isinstance(nn.stmt, ast.AugAssign):
                            bad_.append(unparse(nn.stmt)[:60])
            for c in nn.calls():
                if isinstance(c.func, ast.Attribute) and unparse(c.func.value) == 'self' and \
                        c.func.attr.startswith(('update_descriptor', 'increment_', 'set_', 'update_from')):
                    bad_.append(unparse(c)[:60])
        ctx.ob('C07.R4', f'{fi_.cls.name}.{fi_.name} only reads', not bad_,
               f'{fi_.cls.name}.{fi_.name} writes nothing on the container it serialises' if not bad_ else
               f'{fi_.cls.name}.{fi_.name} changes the container while it is written into a response ({bad_[:2]}): the stored MDIB '
               f'object changes without a transaction and without a new MdibVersion - two Get responses with the same '
               f'MdibVersion differ', fi=fi_)
    ctx.floor('C07.R4', n_ser, 4, 'serialisers of the MDIB containers')
    from .c05 import writers_copy_lxml_values
    writers_copy_lxml_values(ctx, 'C07.R2', used_in=['sdc11073.mdib.', 'sdc11073.xml_types.pm_types'], floor=1)   # building the next response tree takes no element out of the previous one
    common.copies_are_deep(ctx, 'C07.R4')   # a state object selected under the lock does not share values with a later copy
    # ---------------------------------------------------------------- R3
    tm = repo.func('sdc11073.mdib.providermdib.ProviderMdib._transaction_manager')
    g = cfg_of(tm)
    sites = []
    for n in g.real_nodes():
        for a in n.walk():
            if isinstance(a, (ast.Yield, ast.YieldFrom)):
                sites.append(('yield', n))
            if isinstance(a, ast.Call) and call_name(a) == 'process_transaction':
                sites.append(('process_transaction', n))
    kinds = {k for k, _ in sites}
    if kinds != {'yield', 'process_transaction'}:
        raise AnalysisError('C07.R3: yield / process_transaction not found in _transaction_manager')
    regs3 = {id(lock_region(g, n)) for _k, n in sites}
    ok = len(regs3) == 1 and all(lock_region(g, n) is not None for _k, n in sites)
    ctx.ob('C07.R3', 'writer region', ok, 'yield and process_transaction lie in one `with ... self.mdib_lock` region',
           fi=tm, witness=[f'{k}@{n.lineno}' for k, n in sites])
    # single lock object: mdib_lock is assigned exactly once, in MdibBase.__init__, from RLock()
    writers = []
    for fi in repo.funcs.values():
        for n in walk_no_nested(fi.node):
            if isinstance(n, (ast.Assign, ast.AnnAssign, ast.AugAssign)):
                tgts = n.targets if isinstance(n, ast.Assign) else [n.target]
                for t in tgts:
                    if isinstance(t, ast.Attribute) and t.attr == 'mdib_lock':
                        writers.append((fi, n))
    ok = len(writers) == 1 and writers[0][0].qual == f'{MDIB_BASE}.__init__' and \
        isinstance(writers[0][1].value, ast.Call) and call_name(writers[0][1].value) == 'RLock'
    ctx.ob('C07.R3', 'single lock object', ok,
           'mdib_lock is created once (re-entrant) in MdibBase.__init__ and never replaced',
           fi=writers[0][0] if writers else None, node=writers[0][1] if writers else None,
           witness=[f'{f.qual}:{n.lineno}' for f, n in writers], where='mdib_lock writers')


def _node_of(g, expr):
    for n in g.real_nodes():
        for a in n.walk():
            if a is expr:
                return n
    return None


def _fresh_version_group(ctx):
    """R5: the version group a reader captures is a value of its own: MdibBase.mdib_version_group builds a new MdibVersionGroup
    (or the class is frozen).  A cached instance that is refreshed on every read changes under the hands of a Get handler that
    captured it inside the lock and stamps the response after releasing it."""
    repo = ctx.repo
    ctx.rule('C07.R5', 'the version group handed out by the MDIB is a fresh object (or immutable)')
    vg = repo.cls('sdc11073.mdib.mdibbase.MdibVersionGroup')
    frozen = any('frozen=True' in ast.unparse(d) for d in vg.node.decorator_list)
    prop = repo.func('sdc11073.mdib.mdibbase.MdibBase.mdib_version_group')
    g = cfg_of(prop)
    leaves = []
    for n in g.nodes:
        if n.kind == 'return' and n.stmt.value is not None:
            leaves += [leaf for _f, leaf in g.value_cases(n, n.stmt.value)]
    fresh = bool(leaves) and all(isinstance(x, ast.Call) and call_name(x) == 'MdibVersionGroup' for x in leaves)
    writes = [n for n in g.real_nodes() if n.kind == 'stmt' and isinstance(n.stmt, (ast.Assign, ast.AugAssign))
              and any(isinstance(t, (ast.Attribute, ast.Tuple)) for t in getattr(n.stmt, 'targets', [getattr(n.stmt, 'target', None)]))]
    ok = frozen or (fresh and not writes)
    ctx.ob('C07.R5', 'version group is a fresh value', ok,
           'MdibBase.mdib_version_group returns a newly built MdibVersionGroup on every read' if ok else
           f'MdibBase.mdib_version_group returns {[unparse(x) for x in leaves]} - an object that later reads change: a Get '
           f'handler that captured it inside mdib_lock stamps its response with a LATER MdibVersion than the content it '
           f'collected', fi=prop, witness={'returns': [unparse(x) for x in leaves], 'frozen dataclass': frozen})


def _snapshot_callee(call, assigns):
    """Name(s) of the snapshot provider a call invokes: directly, or through a local bound to snapshot provider methods only
    (`reconstruct = mdib.reconstruct_mdib_with_context_states if flag else mdib.reconstruct_mdib; reconstruct()`)."""
    if call_name(call) in SNAPSHOT and isinstance(call.func, ast.Attribute):
        return call_name(call)
    if isinstance(call.func, ast.Name):
        vals = roots(call.func, assigns)
        if vals and all(isinstance(v, ast.Attribute) and v.attr in SNAPSHOT and is_mdib_alias(v.value) for v in vals):
            return '/'.join(sorted({v.attr for v in vals}))
    return None


def _version_source_ok(s, g, fi, reads, locked_regions, assigns):
    # direct read of <mdib>.mdib_version_group
    if isinstance(s, ast.Attribute) and s.attr == 'mdib_version_group' and is_mdib_alias(s.value):
        holder = _node_of(g, s)
        reg = lock_region(g, holder) if holder is not None else None
        if reg is None:
            return False, 'is read outside the mdib_lock region that selected the content'
        if locked_regions and reg is not locked_regions[0]:
            return False, 'is read in a different mdib_lock region than the content'
        return True, 'is read in the same mdib_lock region as the content'
    # element [1] of a snapshot call result
    if isinstance(s, ast.Subscript) and isinstance(s.value, ast.Call) and _snapshot_callee(s.value, assigns):
        idx = s.slice.value if isinstance(s.slice, ast.Constant) else None
        if idx == 1:
            return True, f'is the one returned by the snapshot provider {_snapshot_callee(s.value, assigns)}'
        return False, 'is not the version element of the snapshot result'
    if isinstance(s, ast.Name) and s.id in [a.arg for a in fi.node.args.args]:
        return True, 'is a parameter (checked at the caller)'
    return False, f'comes from {unparse(s)}, which is neither a locked read nor a snapshot result'


from selftest import seed  # noqa: E402

_G = 'src/sdc11073/provider/porttypes/getserviceimpl.py'
_C = 'src/sdc11073/provider/porttypes/contextserviceimpl.py'
_B = 'src/sdc11073/mdib/mdibbase.py'
SEEDS = [
    seed('GetMdState: version read after the region', 'C07.R1',
         (_G, "            mdib_version_group = self._mdib.mdib_version_group\n\n        factory = self._sdc_device.msg_factory",
          "\n        mdib_version_group = self._mdib.mdib_version_group\n        factory = self._sdc_device.msg_factory")),
    seed('GetContextStates: version read in a second region', 'C07.R1',
         (_C, "            mdib_version_group = self._mdib.mdib_version_group\n\n        response = data_model.msg_types.GetContextStatesResponse()",
          "        with self._mdib.mdib_lock:\n            mdib_version_group = self._mdib.mdib_version_group\n\n        response = data_model.msg_types.GetContextStatesResponse()")),
    seed('GetMdib: version from the live mdib instead of the snapshot', 'C07.R1',
         (_G, "        response.set_mdib_version_group(mdib_version_group)\n        response.Mdib = mdib_node",
          "        response.set_mdib_version_group(self._mdib.mdib_version_group)\n        response.Mdib = mdib_node")),
    seed('GetMdDescription: lock removed', 'C07.R1',
         (_G, "        with mdib.mdib_lock:  # version, handle check and content must come from the same mdib version\n", "        if True:\n")),
    seed('reconstruct_mdib: version read after the lock', 'C07.R2',
         (_B, "        with self.mdib_lock:\n            return self._reconstruct_mdib(add_context_states=False), self.mdib_version_group",
          "        with self.mdib_lock:\n            node = self._reconstruct_mdib(add_context_states=False)\n        return node, self.mdib_version_group")),
    seed('writer releases mdib_lock before commit', 'C07.R3',
         ('src/sdc11073/mdib/providermdib.py', "        with self._tr_lock, self.mdib_lock:\n            try:\n                self.current_transaction",
          "        with self._tr_lock:\n            try:\n                self.current_transaction")),
    seed('commit bumps the stored state instead of a copy', 'C07.R4',
         ('src/sdc11073/mdib/transactions.py', "                if old_state is not None:\n                    new_state = old_state.mk_copy()", "                if old_state is not None:\n                    new_state = old_state")),
    seed('control: hoist data_model lookup', 'C07.R1',
         (_G, "        factory = self._sdc_device.msg_factory\n        response = data_model.msg_types.GetMdStateResponse()",
          "        response = data_model.msg_types.GetMdStateResponse()\n        factory = self._sdc_device.msg_factory"), control=True),
]
