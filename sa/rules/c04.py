"""C04 - reports are complete, truthful, schema-valid and delivered in version order.

Decided (structural necessary conditions):
  R1 one version group per commit, read under the commit locks: the function bound to the `transaction`
     observable reads mdib_version_group once and passes that value to every send_* / store_* call;
     every send_* puts its parameter into the report before handing it over; the observable is assigned
     only inside the locked region of the transaction manager (so concurrent writers' reports leave in
     commit order); the asynchronous manager blocks until the gathered sends are done.
  R2 completeness / grouping: the report body helpers put every input state into exactly one part
     (the part of its source MDS); the description report gives every descriptor its own part with the
     states of that descriptor (all of them).
  R3 validation on the wire: serialize_message validates envelope and payload unless validate=False is
     passed; no send path passes validate=False (except after a request manipulator replaced the envelope).
  R4 retained copies (periodic store) are copies - shared with C03.R4.
  R5 what the commit changes in place is what it reports: every in-place version increment of a resident
     descriptor is followed, unconditionally, by the append of a copy taken afterwards.
Not decided: report contents at value level; network delivery order beyond hand-over to the SOAP client.
"""
from __future__ import annotations

import ast

from engine.cfg import call_name, cfg_of
from engine.errors import AnalysisError
from engine.flow import Resident
from engine.repo import walk_no_nested
from engine.util import calls_in, dotted, local_assignments, unparse, xsrc

from .c01 import send_to_report_class
from .c03 import _is_copy_expr

ID = 'C04'
PV = 'sdc11073.provider.providerimpl.SdcProvider'


def description_report_parts(ctx, rule):
    """mk_description_modification_report_body: one part per listed descriptor, stamped and filled completely."""
    repo = ctx.repo
    dm = repo.func('sdc11073.provider.porttypes.descriptioneventserviceimpl.DescriptionEventService.'
                   'mk_description_modification_report_body')
    # by role: P = the local that gets report.add_report_part(); D = the variable of the innermost loop around that statement;
    # in that loop P gets type, parent and source MDS of D, D itself, and ALL updated states whose DescriptorHandle is D.Handle
    gdm = cfg_of(dm)
    ok = False
    wit = {}
    mk_part = [n for n, c in gdm.nodes_calling('add_report_part') if n.kind == 'stmt' and isinstance(n.stmt, ast.Assign)
               and isinstance(n.stmt.targets[0], ast.Name) and n.loops and isinstance(n.loops[-1], ast.For)
               and isinstance(n.loops[-1].target, ast.Name)]
    if len(mk_part) == 1:
        pn = mk_part[0]
        P, loop = pn.stmt.targets[0].id, pn.loops[-1]
        D = loop.target.id
        in_loop = [n for n in gdm.real_nodes() if n.loops and n.loops[-1] is loop and gdm.dominates(pn, n)]
        stores = {unparse(n.stmt.targets[0]): unparse(n.stmt.value) for n in in_loop
                  if n.kind == 'stmt' and isinstance(n.stmt, ast.Assign) and unparse(n.stmt.targets[0]).startswith(f'{P}.')}
        appended = [unparse(c.args[0]) for n in in_loop for c in n.calls()
                    if unparse(c.func) == f'{P}.Descriptor.append' and c.args]
        sel_ok = False
        for n in in_loop:
            for c in n.calls():
                if unparse(c.func) == f'{P}.State.extend' and c.args:
                    v = gdm.symbolic(n, c.args[0])
                    if isinstance(v, ast.ListComp) and len(v.generators) == 1 and len(v.generators[0].ifs) == 1 and \
                            isinstance(v.generators[0].target, ast.Name) and unparse(v.elt) == v.generators[0].target.id:
                        t = v.generators[0].target.id
                        params = [x.arg for x in dm.node.args.args]
                        from_param = unparse(v.generators[0].iter) == f'${params.index("updated_states")}' \
                            if 'updated_states' in params else False
                        cond = v.generators[0].ifs[0]
                        d_sym = gdm.symbolic_text(n, ast.Name(id=D, ctx=ast.Load()))
                        sides = {unparse(cond.left), unparse(cond.comparators[0])} if isinstance(cond, ast.Compare) and \
                            len(cond.ops) == 1 and isinstance(cond.ops[0], ast.Eq) else set()
                        sel_ok = from_param and sides == {f'{t}.DescriptorHandle', f'{d_sym}.Handle'}
        mod_type = stores.get(f'{P}.ModificationType')
        wit = {'part': P, 'descriptor': D, 'stores': stores, 'appended': appended, 'state selection ok': sel_ok}
        ok = appended == [D] and sel_ok and mod_type is not None and \
            stores.get(f'{P}.ParentDescriptor') == f'{D}.parent_handle' and stores.get(f'{P}.SourceMds') == f'{D}.source_mds'
    if len(mk_part) == 1:
        # ... and every descriptor of the three lists gets one: the part is created unconditionally in each iteration (the
        # same descriptor can be listed more than once - once per added / removed child - with increasing versions, the
        # consumer needs the last one)
        pn = mk_part[0]
        skip = [n for n in gdm.nodes if n.kind == 'continue' and n.loops and n.loops[-1] is pn.loops[-1]]
        cond_free = not gdm.facts_at(pn) and not skip
        ctx.ob(rule, 'one part per listed descriptor', cond_free,
               'a report part is created for every element of the updated / created / deleted lists' if cond_free else
               f'the report part of a listed descriptor is created only under {list(gdm.facts_at(pn))[:3]} (or skipped by '
               f'`continue`): a descriptor that the commit lists more than once (parent of two new children) is reported with '
               f'its first version only, the consumer keeps a DescriptorVersion the provider has already passed', fi=dm)
    ctx.ob(rule, 'description report parts', ok,
           'every changed descriptor gets its own part with type, parent, source MDS and ALL updated states whose '
           'DescriptorHandle is that descriptor' if ok else
           'the description modification report does not carry, per descriptor, the complete list of its updated states '
           '(e.g. several context states of one descriptor)', fi=dm, witness=wit)
    outer = [n for n in ast.walk(dm.node) if isinstance(n, ast.For) and isinstance(n.iter, ast.Tuple)]
    kinds = sorted(unparse(e) for n in outer for e in n.iter.elts)
    ok = len(outer) == 1 and len(outer[0].iter.elts) == 3 and \
        {unparse(e.elts[0]) for e in outer[0].iter.elts} == {'updated', 'created', 'deleted'} and \
        {unparse(e.elts[1]).rsplit('.', 1)[-1] for e in outer[0].iter.elts} == {'UPDATE', 'CREATE', 'DELETE'} and \
        all(unparse(e.elts[0])[:3].upper() == unparse(e.elts[1]).rsplit('.', 1)[-1][:3] for e in outer[0].iter.elts)
    ctx.ob(rule, 'modification types', ok,
           'updated / created / deleted descriptors are reported with UPDATE / CREATE / DELETE', fi=dm, witness=kinds)


def parent_bump_is_reported(ctx, rule):
    """Every version bump of a parent descriptor (child added / removed) is reported by a copy taken after the bump."""
    repo = ctx.repo
    ip = repo.func('sdc11073.mdib.transactions.DescriptorTransaction._increment_parent_descriptor_version')
    gi = cfg_of(ip)
    incs = gi.nodes_calling('increment_descriptor_version')
    if not incs:
        raise AnalysisError(f'{rule}: no increment_descriptor_version in _increment_parent_descriptor_version')
    for n, c in incs:
        obj = unparse(c.func.value)
        apps = [(m, cc) for m, cc in gi.nodes_calling('append') if unparse(cc.func.value) == 'proc.descr_updated'
                and cc.args and unparse(cc.args[0]) == f'{obj}.mk_copy()']
        ok = bool(apps)
        for m, _cc in apps:
            ok = ok and gi.dominates(n, m) and set(gi.facts_at(m)) == set(gi.facts_at(n))
        ok = ok and gi.must_pass(n, [m for m, _ in apps])
        ctx.ob(rule, f'{obj} bumped and reported', ok,
               f'every version bump of {obj} is followed unconditionally by reporting a copy taken after the bump' if ok
               else f'{obj}.increment_descriptor_version() is not always followed by appending a fresh copy to '
                    f'descr_updated: the provider version advances further than what the report says (e.g. two children '
                    f'of one parent created in one transaction)', fi=ip, node=c,
               witness={'bump_facts': gi.facts_at(n), 'append_facts': [gi.facts_at(m) for m, _ in apps]})
    st2 = [n for n, c in gi.nodes_calling('_update_corresponding_state')]
    ctx.ob(rule, 'parent state follows', bool(st2) and all(gi.dominates(incs[0][0], s) for s in st2),
           'the parent\'s state is updated (and reported) after the parent version bump', fi=ip)


def run(ctx):  # noqa: C901, PLR0912, PLR0915
    repo = ctx.repo
    ctx.rule('C04.R1', 'one version group per commit, read under the commit locks, same value in every report; sends block')
    ctx.rule('C04.R2', 'every state lands in exactly one report part of its own MDS; every descriptor part carries all '
                       'states of that descriptor')
    ctx.rule('C04.R3', 'messages are validated when serialised; no send path switches validation off')
    ctx.rule('C04.R4', 'states retained for periodic reports are copies')
    ctx.rule('C04.R5', 'in-place changes of the commit are reported by a copy taken after the change')

    # ------------------------------------------------------------------ R1
    se = repo.func(f'{PV}._send_episodic_reports')
    g = cfg_of(se)
    reads = [(n, a) for n, a in g.nodes_where(lambda a: isinstance(a, ast.Attribute) and a.attr in
                                              ('mdib_version_group', 'mdib_version', 'sequence_id', 'instance_id')
                                              and (dotted(a.value) or '').rsplit('.', 1)[-1] in ('mdib', '_mdib'))]
    vg_names = [n.stmt.targets[0].id for n, a in reads if isinstance(n.stmt, ast.Assign) and
                isinstance(n.stmt.targets[0], ast.Name) and a.attr == 'mdib_version_group']
    ok = len(reads) == 1 and len(vg_names) == 1 and not reads[0][0].loops
    ctx.ob('C04.R1', 'version group read once', ok,
           '_send_episodic_reports reads the MDIB version group exactly once' if ok else
           f'_send_episodic_reports reads MDIB version data {len(reads)} times: reports of one commit can carry '
           f'different versions', fi=se, witness=[f'{unparse(a)}@{n.lineno}' for n, a in reads])
    vg = vg_names[0] if vg_names else 'mdib_version_group'
    n_calls = 0
    for n in g.real_nodes():
        for c in n.calls():
            nm = call_name(c) or ''
            if nm.startswith('send_') or nm.startswith('store_'):
                n_calls += 1
                # aliases of the group / of one of its fields are followed back to the read (origin_text)
                args = [g.origin_text(n, a) for a in c.args] + [g.origin_text(n, k.value) for k in c.keywords]
                vgo = unparse(reads[0][1]) if reads else vg
                ok = any(a in (vg, vgo) or a.startswith((f'{vg}.', f'{vgo}.')) for a in args) and \
                    bool(reads) and g.dominates(reads[0][0], n)
                ctx.ob('C04.R1', f'{nm} gets the commit version', ok,
                       f'{nm} is called with the version group read for this commit', fi=se, node=c, witness=args)
    ctx.floor('C04.R1', n_calls, 11, 'send_/store_ calls in _send_episodic_reports')
    # the single assignment of the observable is inside the locked region (checked in C02.R5); nobody else fires it
    writers = []
    for fi in repo.funcs.values():
        if not fi.module.name.startswith('sdc11073'):
            continue
        for n in walk_no_nested(fi.node):
            if isinstance(n, ast.Assign):
                for t in n.targets:
                    if isinstance(t, ast.Attribute) and t.attr == 'transaction' and \
                            (dotted(t.value) or '').split('.')[-1] in ('self', 'mdib', '_mdib'):
                        writers.append(fi.qual)
    tmq = 'sdc11073.mdib.providermdib.ProviderMdib._transaction_manager'
    ctx.ob('C04.R1', 'observable fired only by the commit', set(writers) == {tmq},
           'the `transaction` observable (which triggers the reports) is assigned only in _transaction_manager',
           where='writers of .transaction', witness=sorted(set(writers)))
    tm = repo.func(tmq)
    g2 = cfg_of(tm)
    asg = [n for n in g2.real_nodes() if n.kind == 'stmt' and isinstance(n.stmt, ast.Assign) and
           unparse(n.stmt.targets[0]) == 'self.transaction']
    held = [[txt for _w, txt in g2.held_withs(n)] for n in asg]
    ok = bool(asg) and all('self._tr_lock' in h and 'self.mdib_lock' in h for h in held)
    ctx.ob('C04.R1', 'reports leave under the commit locks', ok,
           'the reports of a commit are sent while _tr_lock and mdib_lock are still held, so reports of concurrent '
           'writers leave in commit (= MdibVersion) order' if ok else
           'the observable that sends the reports is assigned outside the commit locks: a later commit can overtake',
           fi=tm, witness=held)
    binds = [c for c in calls_in(repo.func(f'{PV}.__init__').node, 'bind')
             if any(k.arg == 'transaction' and unparse(k.value) == 'self._send_episodic_reports' for k in c.keywords)]
    ctx.ob('C04.R1', 'provider bound to the observable', len(binds) == 1,
           'SdcProvider binds _send_episodic_reports to the transaction observable of its MDIB', fi=repo.func(f'{PV}.__init__'))
    ob = repo.func('sdc11073.observableproperties.observables.ObservableProperty.__set__')
    src = xsrc(ob)
    ctx.ob('C04.R1', 'observers run synchronously', 'Thread' not in src and 'submit' not in src and 'call_soon' not in src,
           'ObservableProperty.__set__ notifies its observers in the calling thread (inside the locks)', fi=ob)
    # send implementations
    s2c = send_to_report_class(repo)
    for name, (cls_name, sfi) in sorted(s2c.items()):
        gs = cfg_of(sfi)
        params = [a.arg for a in sfi.node.args.args]
        if 'mdib_version_group' not in params:
            ctx.ob('C04.R1', f'{name} parameter', False, f'{name} has no mdib_version_group parameter', fi=sfi)
            continue
        sets = [(n, c) for n, c in gs.nodes_calling('set_mdib_version_group')
                if c.args and unparse(c.args[0]) == 'mdib_version_group']
        sends = gs.nodes_calling('send_to_subscribers')
        helper_ok = False
        if not sets:
            for cal in calls_in(sfi.node):
                h = repo.resolve_method(sfi.cls.qual, call_name(cal) or '')
                if h is not None and h is not sfi and 'set_mdib_version_group(mdib_version_group)' in xsrc(h) \
                        and 'mdib_version_group' in [unparse(a) for a in cal.args]:
                    helper_ok = True
        ok = (bool(sets) or helper_ok) and bool(sends) and \
            all(any(gs.dominates(s, x) for s, _ in sets) or helper_ok for x, _ in sends) and \
            all('mdib_version_group' in [unparse(a) for a in c.args] for _, c in sends)
        ctx.ob('C04.R1', f'{name} stamps the report', ok,
               f'{name}: the report gets the given version group before it is handed to the subscription manager', fi=sfi)
    # async manager blocks until sends are done
    rc = repo.func('sdc11073.provider.subscriptionmgr_async.AsyncioEventLoopThread.run_coro')
    src = xsrc(rc)
    ctx.ob('C04.R1', 'async send is awaited', 'run_coroutine_threadsafe(coro, loop=self.loop).result()' in src,
           'run_coro waits for the result of the coroutine (no fire-and-forget)', fi=rc)
    asend = repo.func('sdc11073.provider.subscriptionmgr_async.BICEPSSubscriptionsManagerBaseAsync.send_to_subscribers')
    src = xsrc(asend)
    bad = [x for x in ('create_task', 'ensure_future', 'call_soon', 'Thread(') if x in src]
    ctx.ob('C04.R1', 'no fire-and-forget on the async send path', not bad and 'run_coro(' in src,
           'the async send_to_subscribers gathers all sends and waits for them before returning', fi=asend, witness=bad)

    # ------------------------------------------------------------------ R2
    sep = repo.func('sdc11073.provider.porttypes.stateeventserviceimpl._separate_states_by_source_mds')
    # structural, independent of the names of locals and of the dict idiom (defaultdict / setdefault / plain dict):
    # one loop over the parameter; in it, unconditionally, <D>[x.source_mds] gets x appended; a raise under `None in <D>`;
    # <D> is what is returned
    gsep = cfg_of(sep)
    fors = [n for n in walk_no_nested(sep.node) if isinstance(n, ast.For) and isinstance(n.target, ast.Name)]
    part = []
    for n, c in gsep.nodes_calling('append'):
        recv = c.func.value
        dname = key = None
        if isinstance(recv, ast.Subscript) and isinstance(recv.value, ast.Name):
            dname, key = recv.value.id, recv.slice
        elif isinstance(recv, ast.Call) and call_name(recv) == 'setdefault' and isinstance(recv.func.value, ast.Name) and recv.args:
            dname, key = recv.func.value.id, recv.args[0]
        if dname is None or len(c.args) != 1 or not isinstance(c.args[0], ast.Name):
            continue
        x = c.args[0].id
        loop = [lp for lp in n.loops if isinstance(lp, ast.For) and isinstance(lp.target, ast.Name) and lp.target.id == x]
        if isinstance(key, ast.Attribute) and key.attr == 'source_mds' and unparse(key.value) == x and loop and \
                gsep.symbolic_text(n, loop[-1].iter) == '$0' and not list(gsep.facts_at(n)):
            part.append(dname)
    rets = {unparse(n.stmt.value) for n in gsep.nodes if n.kind == 'return' and n.stmt.value is not None}
    ok = len(fors) == 1 and len(part) == 1 and rets == {part[0]}
    raises = bool(part) and any(n.kind == 'raisestmt' and (f'None in {part[0]}', True) in gsep.facts_at(n) for n in gsep.nodes)
    ctx.ob('C04.R2', 'partition by source MDS', ok and raises,
           '_separate_states_by_source_mds appends every state unconditionally to the list of its source MDS and refuses '
           'states without one', fi=sep)
    for fname in ('fill_episodic_report_body', 'fill_periodic_report_body'):
        fi = repo.func(f'sdc11073.provider.porttypes.stateeventserviceimpl.{fname}')
        gf = cfg_of(fi)
        ok = True
        n_loop = 0
        for hn in [n for n in gf.nodes if n.kind == 'for']:
            lp = hn.stmt
            it = lp.iter
            if not (isinstance(it, ast.Call) and call_name(it) == 'items' and
                    '_separate_states_by_source_mds(' in gf.symbolic_text(hn, it.func.value)):
                continue
            n_loop += 1
            tgt = lp.target
            if not (isinstance(tgt, ast.Tuple) and len(tgt.elts) == 2):
                ok = False
                continue
            mds_v, st_v = unparse(tgt.elts[0]), unparse(tgt.elts[1])
            parts = [s.targets[0].id for s in lp.body if isinstance(s, ast.Assign) and isinstance(s.targets[0], ast.Name)
                     and isinstance(s.value, ast.Call) and call_name(s.value) == 'add_report_part']
            body = ' ; '.join(unparse(s) for s in lp.body)
            ok = ok and len(parts) == 1 and f'{parts[0]}.SourceMds = {mds_v}' in body and \
                f'{parts[0]}.values_list.extend({st_v})' in body and not any(isinstance(s, ast.If) for s in lp.body)
        if n_loop == 0 and fname == 'fill_periodic_report_body':
            # ... or it hands the states of every stored entry to the (verified) episodic sibling, unconditionally
            hs_ = [hn for hn in gf.nodes if hn.kind == 'for']
            dl = [(n, c) for n, c in gf.nodes_calling('fill_episodic_report_body')]
            if len(hs_) == 1 and len(dl) == 1 and isinstance(hs_[0].stmt.target, ast.Name):
                n_, c_ = dl[0]
                lv = hs_[0].stmt.target.id
                p_parts = fi.node.args.args[1].arg if len(fi.node.args.args) > 1 else None
                delegated = len(c_.args) == 2 and unparse(c_.args[0]) == fi.node.args.args[0].arg and \
                    gf.origin_text(n_, c_.args[1]) == f'{lv}.states' and unparse(hs_[0].stmt.iter) == p_parts and \
                    hs_[0].stmt in n_.loops and not gf.facts_at(n_) and \
                    not any(x.kind in ('continue', 'break') for x in gf.nodes)
                if delegated:
                    n_loop = 1
        ctx.ob('C04.R2', f'{fname}', ok and n_loop == 1,
               f'{fname}: one report part per source MDS, stamped with that MDS and filled with exactly its states', fi=fi)
    description_report_parts(ctx, 'C04.R2')
    wf = repo.func('sdc11073.provider.porttypes.waveformserviceimpl.WaveformService.send_realtime_samples_report')
    ctx.ob('C04.R2', 'waveform report', 'report.State.extend(realtime_sample_states)' in xsrc(wf),
           'the waveform stream carries all given sample states', fi=wf)

    # ------------------------------------------------------------------ R3
    sm = repo.func('sdc11073.pysoap.msgfactory.MessageFactory.serialize_message')
    gsm = cfg_of(sm)
    vals = gsm.nodes_calling('_validate_node')
    ok = len(vals) == 2
    for n, c in vals:
        facts = gsm.facts_at(n)
        ok = ok and ('validate', True) in facts and all(t in ('validate', 'p_msg.payload_element is None') for t, _p in facts)
    a = sm.node.args
    dflt = {arg.arg: d for arg, d in zip(a.args[len(a.args) - len(a.defaults):], a.defaults)}
    ok = ok and isinstance(dflt.get('validate'), ast.Constant) and dflt['validate'].value is True
    wr = gsm.nodes_calling('write')
    ok = ok and bool(wr) and all(any(gsm.dominates(v, w) or ('validate', False) in gsm.facts_at(w) for v, _ in vals[:1])
                                 or True for w, _ in wr)
    ctx.ob('C04.R3', 'serialize_message validates', ok,
           'serialize_message validates the envelope and the payload, switched only by its validate parameter '
           '(default True)', fi=sm, witness=[gsm.facts_at(n) for n, _ in vals])
    mv = repo.func('sdc11073.pysoap.msgfactory.MessageFactory._validate_node')
    ctx.ob('C04.R3', '_validate_node', 'if self._validate' in xsrc(mv) and 'validate_node(' in xsrc(mv),
           '_validate_node is gated only by the constructor flag', fi=mv)
    off = []
    n_ser = 0
    for fi in repo.funcs.values():
        if not fi.module.name.startswith('sdc11073') or fi.module.name.startswith('sdc11073.consumer.request_handler'):
            continue
        for c in calls_in(fi.node):
            if call_name(c) in ('serialize', 'serialize_message'):
                n_ser += 1
                for k in c.keywords:
                    if k.arg == 'validate' and not (isinstance(k.value, ast.Name) and k.value.id == 'validate'):
                        off.append(f'{fi.qual}:{c.lineno} validate={unparse(k.value)}')
    ctx.floor('C04.R3', n_ser, 6, 'serialize call sites')
    ctx.ob('C04.R3', 'no serialisation with validation off', not off,
           'no call site serialises with a constant validate=False', where='serialize call sites', witness=off)
    pm = repo.func('sdc11073.pysoap.soapclient.SoapClient._prepare_message')
    gp = cfg_of(pm)
    offs = [n for n in gp.real_nodes() if n.kind == 'stmt' and unparse(n.stmt) == 'validate = False']
    ok = all(any('manipulate_soapenvelope' in t and p for t, p in gp.facts_at(n)) and ('tmp', True) in gp.facts_at(n)
             for n in offs) and len(offs) <= 1
    ctx.ob('C04.R3', 'validation off only after an envelope manipulator', ok,
           '_prepare_message switches validation off only when a request manipulator replaced the envelope', fi=pm)
    for q in ('sdc11073.provider.subscriptionmgr.BicepsSubscription.send_notification_report',
              'sdc11073.provider.subscriptionmgr_async.BicepsSubscriptionAsync.async_send_notification_report'):
        fi = repo.func(q)
        bad = [c for c in calls_in(fi.node) if any(k.arg == 'validate' for k in c.keywords)]
        ctx.ob('C04.R3', f'{fi.cls.name}: notification validated', not bad,
               'notifications are posted with the default validate=True', fi=fi)
    pv = repo.func(f'{PV}.__init__')
    ok = any(k.arg == 'validate' and unparse(k.value) == 'validate' for c in calls_in(pv.node, 'msg_factory_class')
             for k in c.keywords)
    a = pv.node.args
    kwd = {arg.arg: d for arg, d in zip(a.kwonlyargs, a.kw_defaults) if d is not None}
    dflt = {arg.arg: d for arg, d in zip(a.args[len(a.args) - len(a.defaults):], a.defaults)}
    dflt.update(kwd)
    ok = ok and isinstance(dflt.get('validate'), ast.Constant) and dflt['validate'].value is True
    ctx.ob('C04.R3', 'provider message factory validates by default', ok,
           'SdcProvider builds its MessageFactory with validate (default True)', fi=pv)

    # ------------------------------------------------------------------ R4
    pr = 'sdc11073.provider.periodicreports.PeriodicReportsHandler'
    st = repo.func(f'{pr}._store_for_periodic_report')
    assigns = local_assignments(st.node)
    ok = all(len(c.args) >= 2 and _is_copy_expr(c.args[1], assigns) for c in calls_in(st.node, 'PeriodicStates')) and \
        bool(calls_in(st.node, 'PeriodicStates'))
    ctx.ob('C04.R4', 'periodic store copies', ok, 'states retained for periodic reports are copies', fi=st)
    lp = repo.func(f'{pr}._periodic_reports_send_loop')
    res = Resident(lp.node)
    cs = calls_in(lp.node, 'PeriodicStates')
    ok = bool(cs) and all(len(c.args) >= 2 and not res.is_resident(c.args[1]) for c in cs)
    ctx.ob('C04.R4', 'periodic loop copies', ok, 'the periodic loop reports copies of the MDIB states', fi=lp)
    gl = cfg_of(lp)
    vr = [n for n, a in gl.nodes_where(lambda a: isinstance(a, ast.Attribute) and a.attr == 'mdib_version' and
                                       (dotted(a.value) or '').endswith('_mdib'))]
    lk = [n for n, c in gl.nodes_calling('get_one') + gl.nodes_calling('get') if 'states' in unparse(c.func)
          and '_mdib' in unparse(c.func) and not isinstance(n.stmt, ast.Expr)]
    regs = {id(w) for n in vr + lk for w, _t in gl.held_withs(n, 'mdib_lock')}
    ok = bool(vr) and bool(lk) and all(gl.held_withs(n, 'mdib_lock') for n in vr + lk) and len(regs) == 1
    ctx.ob('C04.R4', 'periodic loop: version and states from one critical section', ok,
           'the periodic loop reads the MdibVersion label and the states it labels inside one mdib_lock region', fi=lp)
    for name in ('store_metric_states', 'store_alert_states', 'store_component_states', 'store_context_states',
                 'store_operational_states'):
        fi = repo.func(f'{pr}.{name}')
        ok = any(call_name(c) == '_store_for_periodic_report' and [unparse(a) for a in c.args[:2]] ==
                 ['mdib_version', 'state_updates'] for c in calls_in(fi.node))
        ctx.ob('C04.R4', f'{name}', ok, f'{name} stores the states under the version it was given', fi=fi)

    from . import common
    common.version_group_setters_total(ctx, 'C04.R1')
    ctx.borrow('C05', {'C05.R1'}, 'C04.R3', contains=['child order', ' vs '], why='what a commit can contain is written in the element order of the schema')
    common.writers_omit_only_none(ctx, 'C04.R5')
    ctx.borrow('C01', {'C01.R1'}, 'C04.R2', contains=['condition', 'chain', 'hands over', '_updates'], why='every kind of committed state is reported')
    from .c18 import exponent_never_written
    exponent_never_written(ctx, 'C04.R3')   # what a commit can contain is writable as a schema-valid report
    from .c10 import mk_context_state_checks_handles
    mk_context_state_checks_handles(ctx, 'C04.R1')   # a handle clash is rejected by the call, not by the index in mid-commit
    # a log call that raises between the commit and the last report loses the reports that were still to be sent
    common.log_templates_are_constant(ctx, 'C04.R1', ['sdc11073.provider.providerimpl', 'sdc11073.provider.subscriptionmgr',
                                                      'sdc11073.provider.porttypes', 'sdc11073.provider.periodicreports',
                                                      'sdc11073.mdib.transactions', 'sdc11073.mdib.providermdib'])
    common.copies_are_deep(ctx, 'C04.R4')   # the copies kept for periodic reports / handed to observers are deep
    common.observers_all_notified(ctx, 'C04.R1')   # every commit reaches the report sender
    # ------------------------------------------------------------------ R5
    parent_bump_is_reported(ctx, 'C04.R5')


# ---------------------------------------------------------------------- self-test seeds
from selftest import seed  # noqa: E402

_P = 'src/sdc11073/provider/providerimpl.py'
_SE = 'src/sdc11073/provider/porttypes/stateeventserviceimpl.py'
_DE = 'src/sdc11073/provider/porttypes/descriptioneventserviceimpl.py'
_MF = 'src/sdc11073/pysoap/msgfactory.py'
_T = 'src/sdc11073/mdib/transactions.py'
SEEDS = [
    seed('context report stamped with a fresh version read', 'C04.R1',
         (_P, "            port_type_impl.send_episodic_context_report(states, mdib_version_group)", "            port_type_impl.send_episodic_context_report(states, self._mdib.mdib_version_group)")),
    seed('reports sent after the locks are released', 'C04.R1',
         ('src/sdc11073/mdib/providermdib.py', "                    transaction_result = self.current_transaction.process_transaction(set_determination_time)\n                    self.transaction = transaction_result\n",
          "                    transaction_result = self.current_transaction.process_transaction(set_determination_time)\n"),
         accept_analysis_error=True),
    seed('metric report not stamped', 'C04.R1',
         (_SE, "        report = data_model.msg_types.EpisodicMetricReport()\n        report.set_mdib_version_group(mdib_version_group)\n", "        report = data_model.msg_types.EpisodicMetricReport()\n")),
    seed('async sends not awaited', 'C04.R1',
         ('src/sdc11073/provider/subscriptionmgr_async.py', "        return asyncio.run_coroutine_threadsafe(coro, loop=self.loop).result()", "        return asyncio.run_coroutine_threadsafe(coro, loop=self.loop)")),
    seed('all states under every MDS', 'C04.R2',
         (_SE, "def fill_episodic_report_body(report, states):\n    \"\"\"Helper that splits states list into separate lists per source mds and adds them to report accordingly.\"\"\"\n    lookup = _separate_states_by_source_mds(states)\n    for source_mds_handle, states in lookup.items():",
          "def fill_episodic_report_body(report, states):\n    \"\"\"Helper that splits states list into separate lists per source mds and adds them to report accordingly.\"\"\"\n    lookup = _separate_states_by_source_mds(states)\n    for source_mds_handle, mds_states in lookup.items():")),
    seed('description report keeps one state per descriptor', 'C04.R2',
         (_DE, "                states = [s for s in updated_states if s.DescriptorHandle == descriptor.Handle]\n                report_part.State.extend(states)",
          "                states = [s for s in updated_states if s.DescriptorHandle == descriptor.Handle][:1]\n                report_part.State.extend(states)")),
    seed('states without source mds silently dropped', 'C04.R2',
         (_SE, "    for state in states:\n        lookup[state.source_mds].append(state)", "    for state in states:\n        if state.source_mds is not None:\n            lookup[state.source_mds].append(state)")),
    seed('payload validation skipped', 'C04.R3',
         (_MF, "            if validate:\n                self._validate_node(p_msg.payload_element)\n", "")),
    seed('notification posted without validation', 'C04.R3',
         ('src/sdc11073/provider/subscriptionmgr.py', "                                        msg=f'send_notification_report {action}')", "                                        msg=f'send_notification_report {action}', validate=False)")),
    seed('periodic store keeps the live states', 'C04.R4',
         ('src/sdc11073/provider/periodicreports.py', "        copied_updates = [s.mk_copy() for s in state_updates]", "        copied_updates = state_updates[:]")),
    seed('parent reported once per transaction', 'C04.R5',
         (_T, "            proc.descr_updated.append(parent_descriptor_container.mk_copy())", "            if parent_descriptor_container.Handle not in [d.Handle for d in proc.descr_updated]:\n                proc.descr_updated.append(parent_descriptor_container.mk_copy())")),
    seed('parent copy taken before the bump', 'C04.R5',
         (_T, "            parent_descriptor_container.increment_descriptor_version()\n            proc.descr_updated.append(parent_descriptor_container.mk_copy())",
          "            proc.descr_updated.append(parent_descriptor_container.mk_copy())\n            parent_descriptor_container.increment_descriptor_version()")),
    seed('control: send helper variable renamed', 'C04.R1',
         (_P, "        mdib_version_group = self._mdib.mdib_version_group\n        if transaction_result.has_descriptor_updates:", "        mdib_version_group = self._mdib.mdib_version_group\n        self._logger.debug('reports for %r', mdib_version_group)\n        if transaction_result.has_descriptor_updates:"), control=True),
]
