"""C18 - scalar XML value conversions are exact over the wire value space.

Decided (structural necessary conditions):
  R1 lossy-conversion lint: no converter `to_xml` truncates a scaled float with int(<x * k>) / int(<x / k>).
  R2 AGREE: the scale the timestamp reader divides by equals the scale the writer multiplies by.
  R3 NO-ESCAPE: on the Decimal path of DecimalConverter.to_xml the value never passes through
     float()/round()/the float formatter; exponent notation is turned into fixed point.
  R4 finite lexical spaces are closed: a to_py whose lexical space is a finite literal set rejects
     other input (BooleanConverter today coerces - known finding, pinned by the existing tests).
Not decided: the round trips themselves (value level).
"""
from __future__ import annotations

import ast

from engine.cfg import call_name, cfg_of
from engine.errors import AnalysisError
from engine.repo import walk_no_nested
from engine.util import calls_in, local_assignments, unparse, xsrc

ID = 'C18'
DC = 'sdc11073.xml_types.dataconverters'


def _scaled(e):
    return isinstance(e, ast.BinOp) and isinstance(e.op, (ast.Mult, ast.Div))


def exponent_never_written(ctx, rule):
    """C18.R3 part, shared with C04 / C05: a decimal in exponent notation is not a valid xsd:decimal - the report fails validation
    (no report for a committed version) or goes out invalid."""
    repo = ctx.repo
    dc = repo.cls(f'{DC}.DecimalConverter')
    tx = dc.methods.get('to_xml')
    # exponent form -> fixed point
    dx = dc.methods.get('_decimal_to_xml')
    ok = False
    if dx is not None:
        gd = cfg_of(dx)
        rets = [n for n in gd.nodes if n.kind == 'return']
        ok = bool(rets)
        for r in rets:
            facts = gd.facts_at(r)
            v = r.stmt.value
            exp_branch = any(pol is True and "'E' in" in txt for txt, pol in facts.both())
            if exp_branch:
                fixed = (isinstance(v, ast.Call) and call_name(v) == 'format' and len(v.args) == 2 and
                         isinstance(v.args[1], ast.Constant) and v.args[1].value == 'f') or \
                        (isinstance(v, ast.JoinedStr) and ':f' in unparse(v))
                ok = ok and fixed
            else:
                no_exp = any(pol is False and "'E' in" in txt for txt, pol in facts.both()) or \
                    any(pol is False and "'e' in" in txt for txt, pol in facts.both())
                ok = ok and no_exp
    ctx.ob(rule, 'exponent notation', ok,
           '_decimal_to_xml returns str(value) only when it contains no exponent and the fixed-point format otherwise',
           fi=dx or tx)


def decimal_lexical_rules(ctx, rule):
    """DecimalConverter.to_xml: lexical clean-up touches only fractional zeros; the 18 digit budget counts digits only."""
    repo = ctx.repo
    tx = repo.cls(f'{DC}.DecimalConverter').methods.get('to_xml')
    g = cfg_of(tx)
    la = local_assignments(tx.node)
    frac_names = set()
    for n in walk_no_nested(tx.node):
        if isinstance(n, ast.Assign) and isinstance(n.targets[0], ast.Tuple) and len(n.targets[0].elts) == 2 and \
                isinstance(n.value, ast.Call) and call_name(n.value) == 'split' and n.value.args and \
                isinstance(n.value.args[0], ast.Constant) and n.value.args[0].value == '.':
            frac_names.add(unparse(n.targets[0].elts[1]))
            int_name = unparse(n.targets[0].elts[0])
    strips = [c for c in calls_in(tx.node) if call_name(c) in ('rstrip', 'strip', 'lstrip') and c.args and
              isinstance(c.args[0], ast.Constant) and isinstance(c.args[0].value, str) and '0' in c.args[0].value]
    def _has_point(e, node):
        """The string e certainly contains the decimal point (so stripping zeros from its right end stops there)."""
        if isinstance(e, ast.JoinedStr):
            return any(isinstance(v, ast.Constant) and '.' in str(v.value) for v in e.values)
        if isinstance(e, ast.BinOp) and isinstance(e.op, ast.Add):
            return _has_point(e.left, node) or _has_point(e.right, node) or \
                any(isinstance(x, ast.Constant) and x.value == '.' for x in (e.left, e.right))
        if isinstance(e, ast.Call) and call_name(e) in ('rstrip', 'strip', 'lstrip') and isinstance(e.func, ast.Attribute) and \
                e.args and isinstance(e.args[0], ast.Constant) and '.' not in str(e.args[0].value):
            return _has_point(e.func.value, node)
        if isinstance(e, ast.Name) and node is not None:
            if (f"'.' in {e.id}", True) in g.facts_at(node):
                return True
            d = g.unique_def(node, e.id)
            if d is not None:
                return _has_point(g.def_value(d, e.id), d)
        return False
    bad = []
    for c in strips:
        if call_name(c) == 'lstrip':
            continue
        recv = c.func.value
        chars = c.args[0].value
        # zeros may be stripped from the fraction alone, or from a string that still contains the point - and then the
        # character set must not contain the point itself (otherwise the stripping runs on into the integer part)
        if unparse(recv) in frac_names or ('.' not in chars and _has_point(recv, g.holder(c))):
            continue
        bad.append(c)
    ctx.ob(rule, 'zero stripping only on the fraction', not bad,
           'trailing zeros are removed only from the fractional part' if not bad else
           f'{unparse(bad[0])} strips the characters {bad[0].args[0].value!r} from the whole number: once the point is gone '
           f'it also removes zeros of the integer part (Decimal("100.0") is written as "1")', fi=tx,
           node=bad[0] if bad else None)
    # trailing-character loops: every loop that shortens the number must re-check that a point is still present
    ok = True
    n_loops = 0
    for w in [n for n in walk_no_nested(tx.node) if isinstance(n, ast.While) and not getattr(n, '_inline_wrapper', False)]:
        cuts = [x for x in ast.walk(w) if isinstance(x, ast.Assign) and isinstance(x.value, ast.Subscript)
                and isinstance(x.value.slice, ast.Slice) and unparse(x.value.slice) == ':-1']
        if cuts:
            n_loops += 1
            tgt = unparse(cuts[0].targets[0])
            ok = ok and f"'.' in {tgt}" in unparse(w.test) and isinstance(w.test, ast.BoolOp) and isinstance(w.test.op, ast.And)
    ctx.ob(rule, 'truncation loop keeps the integer part', ok,
           'a loop that removes trailing characters runs only while the number still contains a decimal point', fi=tx,
           witness=n_loops)
    # digit budget
    budget = [x for x in ast.walk(tx.node) if isinstance(x, ast.Subscript) and isinstance(x.slice, ast.Slice)
              and x.slice.upper is not None and isinstance(x.slice.upper, ast.BinOp) and isinstance(x.slice.upper.op, ast.Sub)
              and isinstance(x.slice.upper.left, ast.Constant) and x.slice.upper.left.value == 18]
    if not budget:
        ctx.ob(rule, 'digit budget', False, 'the 18 digit limit of xsd:decimal output is not applied', fi=tx)
    for b in budget:
        hb = g.holder(b)
        right = g.symbolic(hb, b.slice.upper.right) if hb is not None else b.slice.upper.right   # temporaries written out
        txt = unparse(right)
        counts_sign = isinstance(right, ast.Call) and call_name(right) == 'len' and right.args and \
            isinstance(right.args[0], (ast.Name, ast.Subscript))
        # what is counted has the sign and a leading zero stripped (written out: lstrip('-') .. lstrip('0'), or one lstrip
        # with both characters)
        strips = {ch for c_ in ast.walk(right) if isinstance(c_, ast.Call) and call_name(c_) in ('lstrip', 'strip', 'removeprefix')
                  and c_.args and isinstance(c_.args[0], ast.Constant) and isinstance(c_.args[0].value, str)
                  for ch in c_.args[0].value}
        ok = not counts_sign and {'-', '0'} <= strips
        ctx.ob(rule, f'digit budget {unparse(b)}', ok,
               'the number of fractional digits kept is 18 minus the number of integer digits (sign and a lone leading zero '
               'not counted)' if ok else
               f'{unparse(b)}: the budget subtracts len() of the raw integer part, which counts the minus sign and a '
               f'leading "0" as digits: -1.23456789012345678 and 0.000000000000000001 (both within 18 digits) lose digits',
               fi=tx, node=b)

    # time zone offsets: the sign comes from the sign of the WHOLE offset; hours and minutes are written from the absolute
    # value without a sign flag (a sign derived from the hour component is lost for -00:30)
    tzf = repo.funcs.get('sdc11073.xml_types.isoduration._tz_to_string')
    if tzf is not None:
        from engine.deps import Deps
        dtz = Deps(tzf.node)
        # the formatted offset - returned directly or through a result variable
        rets = [e for r_ in walk_no_nested(tzf.node) if isinstance(r_, ast.Return) and r_.value is not None
                for e in dtz.reach(r_.value) if isinstance(e, ast.JoinedStr) and len(e.values) >= 3]
        ok = bool(rets)
        why = ''
        for r in rets:
            flagged = [unparse(v) for v in r.values if isinstance(v, ast.FormattedValue) and v.format_spec is not None
                       and '+' in unparse(v.format_spec)]
            first = r.values[0]
            sign_src = dtz.sources(first.value) if isinstance(first, ast.FormattedValue) else set()
            sign_ok = isinstance(first, ast.FormattedValue) and first.format_spec is None and \
                bool({'cmp:GtE', 'cmp:Lt', 'cmp:Gt', 'cmp:LtE'} & sign_src) and 'call:total_seconds' in sign_src
            abs_ok = all('call:abs' in dtz.sources(v.value) for v in r.values[1:] if isinstance(v, ast.FormattedValue))
            if flagged or not sign_ok or not abs_ok:
                ok = False
                why = f'sign flag on a component: {flagged}' if flagged else \
                    ('the sign is not chosen by comparing the whole offset with 0' if not sign_ok else
                     'hours / minutes are not computed from the absolute offset')
        ctx.ob(rule, 'time zone sign', ok,
               '_tz_to_string writes the sign of the whole offset followed by hours and minutes of its absolute value' if ok else
               f'_tz_to_string: {why} - an offset between -00:59 and -00:01 is written with the wrong sign', fi=tzf)



XS_ = 'sdc11073.xml_types.xml_structure'


def run(ctx):  # noqa: C901, PLR0912
    repo = ctx.repo
    ctx.rule('C18.R1', 'no int() truncation of a scaled value in any converter to_xml')
    ctx.rule('C18.R2', 'timestamp reader and writer use the same scale constant')
    ctx.rule('C18.R3', 'Decimal never flows through float()/round() on its way to XML; exponent form becomes fixed point')
    ctx.rule('C18.R4', 'finite literal sets are closed (unknown literals are rejected)')
    conv_classes = [q for q in repo.classes if q.startswith(DC + '.') and q.endswith('Converter')]
    ctx.floor('C18.R1', len(conv_classes), 10, 'converter classes')

    # ------------------------------------------------------------------ R1
    n_fn = 0
    for q in conv_classes:
        for mname in ('to_xml', 'elem_to_xml', '_float_to_xml', '_decimal_to_xml'):
            fi = repo.classes[q].methods.get(mname)
            if fi is None:
                continue
            n_fn += 1
            bad = [c for c in calls_in(fi.node, 'int') if c.args and _scaled(c.args[0])]
            ctx.ob('C18.R1', f'{repo.classes[q].name}.{mname}', not bad,
                   f'{repo.classes[q].name}.{mname}: no truncating int() of a scaled value' if not bad else
                   f'{repo.classes[q].name}.{mname}: {unparse(bad[0])} truncates - a float such as 1.001 * 1000 = '
                   f'1000.9999999999999 is written one unit too small', fi=fi, node=bad[0] if bad else None)
    ctx.floor('C18.R1', n_fn, 10, 'converter to_xml functions')
    dur = repo.func('sdc11073.xml_types.isoduration.duration_string')
    bad = [c for c in calls_in(dur.node, 'int') if c.args and _scaled(c.args[0])]
    ctx.ob('C18.R1', 'duration_string', not bad, 'duration_string: no truncating int() of a scaled value', fi=dur)

    from .c08 import duration_fraction_is_decimal
    duration_fraction_is_decimal(ctx, 'C18.R1')
    # ------------------------------------------------------------------ R2
    ts = repo.cls(f'{DC}.TimestampConverter')
    rd, wr = ts.methods.get('to_py'), ts.methods.get('to_xml')
    if rd is None or wr is None:
        raise AnalysisError('C18.R2: TimestampConverter.to_py/to_xml missing')
    rk = [n.right.value for n in ast.walk(rd.node) if isinstance(n, ast.BinOp) and isinstance(n.op, ast.Div)
          and isinstance(n.right, ast.Constant)]
    wk = [n.right.value for n in ast.walk(wr.node) if isinstance(n, ast.BinOp) and isinstance(n.op, ast.Mult)
          and isinstance(n.right, ast.Constant)]
    ok = len(rk) == 1 and len(wk) == 1 and rk[0] == wk[0] == 1000
    ctx.ob('C18.R2', 'timestamp scale', ok, f'reader divides by {rk}, writer multiplies by {wk} (milliseconds <-> seconds)',
           fi=wr, witness={'reader': rk, 'writer': wk})
    # the reader parses an integer (no float parsing of the lexical value)
    ok = any(call_name(c) == 'int' for c in calls_in(rd.node)) and not any(call_name(c) == 'float' for c in calls_in(rd.node))
    ctx.ob('C18.R2', 'timestamp reader parses an integer', ok, 'TimestampConverter.to_py parses the lexical value with int()',
           fi=rd)
    # the writer rounds to the nearest millisecond
    ok = any(call_name(c) == 'round' and c.args and _scaled(c.args[0]) for c in calls_in(wr.node))
    ctx.ob('C18.R2', 'timestamp writer rounds', ok, 'TimestampConverter.to_xml rounds the scaled value', fi=wr)
    # ... and it rounds the whole value once: the written integer is round(<value> * 1000) of the parameter itself. A writer that
    # splits the value into seconds and a separately rounded millisecond part loses the carry (12.9996 -> '121000') or pads wrongly
    from engine.deps import Deps
    dw = Deps(wr.node)
    wparams = [a.arg for a in wr.node.args.args if a.arg not in ('self', 'cls')]
    gw_ = cfg_of(wr)
    whole = []
    for n_ in gw_.real_nodes():
        for c in n_.calls():
            if call_name(c) == 'round' and c.args:
                a0 = gw_.origin_expr(n_, c.args[0]) or c.args[0]
                if isinstance(a0, ast.Name) and len(local_assignments(wr.node).get(a0.id, [])) == 1:
                    a0 = local_assignments(wr.node)[a0.id][0]
                whole.append(isinstance(a0, ast.BinOp) and isinstance(a0.op, ast.Mult) and
                             any(isinstance(x, ast.Name) and x.id in wparams for x in (a0.left, a0.right)) and
                             any(isinstance(x, ast.Constant) for x in (a0.left, a0.right)))
    trunc = [unparse(c) for c in calls_in(wr.node) if call_name(c) in ('int', 'divmod', 'floor', 'trunc', 'modf') and c.args and
             not (isinstance(c.args[0], ast.Call) and call_name(c.args[0]) == 'round') and
             any(p_ in dw.sources(c.args[0]) | {unparse(c.args[0])} or f'param:{p_}' in dw.sources(c.args[0]) for p_ in wparams)]
    ok = len(whole) == 1 and whole[0] and not trunc
    ctx.ob('C18.R2', 'timestamp writer rounds the whole value once', ok,
           'TimestampConverter.to_xml writes round(value * 1000) of the value as a whole' if ok else
           f'TimestampConverter.to_xml does not round the value as a whole (round of the parameter times a constant: {whole}; '
           f'truncating split: {trunc}): a fraction that rounds up to 1000 ms is written as a fourth digit instead of being '
           f'carried into the seconds (12.9996 s -> "121000"), the time read back is wrong by orders of magnitude', fi=wr)

    # ------------------------------------------------------------------ R3
    dc = repo.cls(f'{DC}.DecimalConverter')
    tx = repo.cls(f'{DC}.DecimalConverter').methods.get('to_xml')
    g = cfg_of(tx)
    dec_nodes = [n for n in g.real_nodes() if any(pol is True and txt == 'isinstance(py_value, Decimal)'
                                                  for txt, pol in g.facts_at(n))]
    if not dec_nodes:
        raise AnalysisError('C18.R3: Decimal branch of DecimalConverter.to_xml not found')
    callees = set()
    lossy_here = []
    for n in dec_nodes:
        for c in n.calls():
            nm = call_name(c)
            if nm in ('float', 'round', '_float_to_xml'):
                lossy_here.append(c)
            if isinstance(c.func, ast.Attribute) and unparse(c.func.value) in ('cls', 'self') and nm in dc.methods:
                callees.add(nm)
    todo, seen = list(callees), set()
    while todo:
        nm = todo.pop()
        if nm in seen:
            continue
        seen.add(nm)
        fi = dc.methods[nm]
        for c in calls_in(fi.node):
            cn = call_name(c)
            if cn in ('float', 'round', '_float_to_xml'):
                lossy_here.append(c)
            elif isinstance(c.func, ast.Attribute) and unparse(c.func.value) in ('cls', 'self') and cn in dc.methods:
                todo.append(cn)
    ctx.ob('C18.R3', 'Decimal path free of binary floats', not lossy_here,
           'a Decimal reaches its XML text without float()/round()' if not lossy_here else
           f'on the Decimal path {[unparse(c)[:40] for c in lossy_here]} converts to a binary float (rounded to 1-3 '
           f'fractional digits): Decimal("1E-7") is written as 0', fi=tx, node=lossy_here[0] if lossy_here else None,
           witness={'functions_on_decimal_path': sorted(seen)})
    exponent_never_written(ctx, 'C18.R3')
    # Decimal reader uses Decimal()
    rdx = dc.methods.get('to_py')
    src = xsrc(rdx)
    ctx.ob('C18.R3', 'decimal reader', 'Decimal(xml_value)' in src and 'USE_DECIMAL_TYPE' in src,
           'DecimalConverter.to_py builds a Decimal from the lexical value when USE_DECIMAL_TYPE is set', fi=rdx)
    v, _ = repo.class_attr(dc.qual, 'USE_DECIMAL_TYPE')
    ctx.ob('C18.R3', 'USE_DECIMAL_TYPE default', isinstance(v, ast.Constant) and v.value is True,
           'USE_DECIMAL_TYPE is True by default', where=dc.qual, line=getattr(v, 'lineno', None))

    # ------------------------------------------------------------------ R5 (lexical post-processing of numbers)
    ctx.rule('C18.R5', 'lexical clean-up of a number touches only fractional zeros; the 18-digit budget counts digits, '
                       'not the sign or a leading zero')
    decimal_lexical_rules(ctx, 'C18.R5')
    from . import common
    common.implied_value_only_for_none(ctx, 'C18.R3')
    common.readers_catch_only_absence(ctx, 'C18.R4')
    common.readers_test_only_for_none(ctx, 'C18.R3')
    snv = repo.funcs.get('sdc11073.consumer.serviceclients.setservice.SetServiceClient.set_numeric_value')
    if snv is not None:
        gsn = cfg_of(snv)
        lossy = []
        for nn in gsn.real_nodes():
            fmt = [x for x in nn.walk() if isinstance(x, ast.FormattedValue) and x.format_spec is not None] + \
                  [c for c in nn.calls() if call_name(c) in ('format', 'round', 'float')]
            if fmt and not any(p is True and 'isinstance' in t and 'float' in t for t, p in gsn.facts_at(nn).both()):
                lossy.append(nn.text()[:70])
        ctx.ob('C18.R3', 'set_numeric_value hands a Decimal on exactly', not lossy,
               'SetServiceClient.set_numeric_value formats / rounds only float arguments' if not lossy else
               f'SetServiceClient.set_numeric_value formats the value outside the float branch ({lossy[:1]}): a Decimal or int with '
               f'more significant digits than the format keeps changes its value on the way into RequestedNumericValue', fi=snv)
    # the value range of a timestamp is the one of xsd:unsignedLong: zero is a value (a device without a clock reports 0) - the
    # validity check rejects negative values only
    cv = repo.cls(f'{DC}.TimestampConverter').methods.get('check_valid')
    if cv is not None:
        gcv = cfg_of(cv)
        rej = [b for b in gcv.nodes if b.kind == 'branch' and b.label is True and b.test is not None and
               isinstance(b.test, ast.Compare) and any(isinstance(k, ast.Constant) and k.value == 0 for k in ast.walk(b.test))
               and any(r.kind == 'raisestmt' and gcv.dominates(b, r) for r in gcv.nodes)]
        from engine.cfg import canon_compare
        strict = [canon_compare(b.test) for b in rej if len(b.test.ops) == 1]
        # `py_value < 0` / `0 > py_value` are both not(0 <= py_value) in canonical form
        pname = [a.arg for a in cv.node.args.args if a.arg not in ('self', 'cls')][0]
        ok_cv = bool(rej) and all((txt, neg) == (f'0 <= {pname}', True) for (txt, neg), b in zip(strict, rej))
        ctx.ob('C18.R2', 'timestamp 0 is valid', ok_cv,
               'TimestampConverter.check_valid rejects negative values only' if ok_cv else
               f'TimestampConverter.check_valid rejects under {[unparse(b.test) for b in rej]}: the legal timestamp 0 raises in '
               f'the middle of an in-place update of a received state - the consumer keeps a half-updated state', fi=cv)
    # the list converter hands every element to the element converter, on every path (no short cut that writes str(x): a Decimal
    # element would get exponent notation and lose the digit limit)
    lc = repo.cls(f'{DC}.ListConverter')
    for meth, want in (('elem_to_xml', 'to_xml'), ('elem_to_py', 'to_py')):
        fi_ = lc.methods.get(meth)
        if fi_ is None:
            raise AnalysisError(f'C18.R3: ListConverter.{meth} missing')
        rets = [r.value for r in walk_no_nested(fi_.node) if isinstance(r, ast.Return)]
        ok = bool(rets) and all(isinstance(v, ast.Call) and isinstance(v.func, ast.Attribute) and v.func.attr == want and
                                '_element_converter' in unparse(v.func.value) for v in rets)
        ctx.ob('C18.R3', f'ListConverter.{meth} delegates every element', ok,
               f'ListConverter.{meth} returns what the element converter made of the element, on every path' if ok else
               f'ListConverter.{meth} has a path that does not go through the element converter ({[unparse(v)[:40] for v in rets if v is not None]}): '
               f'list elements (waveform samples are xsd:decimal) are written / read without the conversion rules of their type',
               fi=fi_)
    # every scalar that is written goes through its converter - also the elements of list attributes (the samples of a
    # waveform are xsd:decimal values: str() would write exponent notation and skip the digit limit)
    for q_, meth, wanted in ((f'{XS_}._AttributeListBase', 'update_xml_value', 'elem_to_xml'),
                             (f'{XS_}._AttributeListBase', 'get_py_value_from_node', 'elem_to_py'),
                             (f'{XS_}._AttributeBase', 'update_xml_value', 'to_xml'),
                             (f'{XS_}._AttributeBase', 'get_py_value_from_node', 'to_py')):
        fi_ = repo.resolve_method(q_, meth)
        uses = fi_ is not None and any(isinstance(n, ast.Attribute) and n.attr == wanted and '_converter' in unparse(n.value)
                                       for n in ast.walk(fi_.node))
        ctx.ob('C18.R3', f'{q_.rsplit(".", 1)[1]}.{meth} converts through the converter', uses,
               f'{q_.rsplit(".", 1)[1]}.{meth} passes every value through self._converter.{wanted}' if uses else
               f'{q_.rsplit(".", 1)[1]}.{meth} does not call self._converter.{wanted}: the values of this kind of attribute '
               f'by-pass the converter of their data type (decimals in exponent notation, unbounded digits)', fi=fi_)
    # lexical space of xs:dateTime: the end-of-day form 24:00:00 admits only zeros as fraction (parse_date_time drops the
    # fraction of that form, so anything else would be coerced instead of rejected) - decided on the parsed pattern
    import re as _re
    from engine.util import const_str
    iso = repo.module('sdc11073.xml_types.isoduration')
    pat = const_str(iso.tree, ast.Name(id='__DATETIME_PATTERN__', ctx=ast.Load()))
    if pat is None:
        raise AnalysisError('C18.R4: the dateTime pattern of isoduration.py cannot be folded to a constant string')
    tree_ = _re._parser.parse(pat)  # noqa: SLF001

    def _group(items, name_idx):
        for op, av in items:
            if str(op) == 'SUBPATTERN':
                if av[0] == name_idx:
                    return av[3]
                r = _group(av[3], name_idx)
                if r is not None:
                    return r
            elif str(op) in ('MAX_REPEAT', 'MIN_REPEAT'):
                r = _group(av[2], name_idx)
                if r is not None:
                    return r
            elif str(op) == 'BRANCH':
                for alt in av[1]:
                    r = _group(alt, name_idx)
                    if r is not None:
                        return r
        return None

    def _chars_after_dot(items, seen_dot=False, out=None):
        out = [] if out is None else out
        for op, av in items:
            o = str(op)
            if o == 'LITERAL':
                if seen_dot:
                    out.append(chr(av))
                elif chr(av) == '.':
                    seen_dot = True
            elif o in ('IN', 'CATEGORY', 'ANY', 'NOT_LITERAL', 'RANGE'):
                if seen_dot:
                    out.append(f'<{o}>')
            elif o == 'SUBPATTERN':
                seen_dot = _chars_after_dot(av[3], seen_dot, out)[0]
            elif o in ('MAX_REPEAT', 'MIN_REPEAT'):
                seen_dot = _chars_after_dot(av[2], seen_dot, out)[0]
            elif o == 'BRANCH':
                for alt in av[1]:
                    _chars_after_dot(alt, seen_dot, out)
        return seen_dot, out
    eod_idx = tree_.state.groupdict.get('eod')
    eod = _group(tree_, eod_idx) if eod_idx is not None else None
    if eod is None:
        raise AnalysisError('C18.R4: end-of-day group not found in the dateTime pattern')
    _sd, frac = _chars_after_dot(eod)
    ctx.ob('C18.R4', 'end of day admits only a zero fraction', all(c == '0' for c in frac),
           '24:00:00 may only be followed by .000...' if all(c == '0' for c in frac) else
           f'the end-of-day alternative of the dateTime pattern accepts the fraction characters {sorted(set(frac))}: '
           f'2001-10-26T24:00:00.5 is accepted and silently read as 24:00:00 (coerced, not rejected)', where=iso.name,
           witness=pat[:200])
    # ------------------------------------------------------------------ R4
    bc = repo.cls(f'{DC}.BooleanConverter').methods.get('to_py')
    raises = any(isinstance(n, ast.Raise) for n in walk_no_nested(bc.node))
    coerces = any(isinstance(n, ast.Return) and isinstance(n.value, ast.Compare) for n in walk_no_nested(bc.node))
    ctx.ob('C18.R4', 'boolean literals closed', raises and not coerces,
           'BooleanConverter.to_py accepts the xsd:boolean literals and rejects everything else' if raises and not coerces
           else 'BooleanConverter.to_py returns `value in (true literals)`: every other string ("TRUE", "yes", " true ") '
                'is coerced to False instead of being rejected', fi=bc)
    # both lexical forms of `true` are read as True: xsd:boolean is {true, false, 1, 0}
    lits = {k.value for k in ast.walk(bc.node) if isinstance(k, ast.Constant) and isinstance(k.value, str)}
    ctx.ob('C18.R4', 'boolean: 1 and true', {'true', '1'} <= lits,
           'BooleanConverter.to_py knows both lexical forms of true ("true", "1")' if {'true', '1'} <= lits else
           f'BooleanConverter.to_py compares with {sorted(lits)} only: the legal literal "1" (or "true") of a peer is read as '
           f'False and written back as "false"', fi=bc)
    ec = repo.cls(f'{DC}.EnumConverter').methods.get('to_py')
    ok = any(unparse(c.func) == 'self._klass' for c in calls_in(ec.node))
    ctx.ob('C18.R4', 'enum literals closed', ok, 'EnumConverter.to_py constructs the enum member (raises for unknown '
           'literals)', fi=ec)
    ic = repo.cls(f'{DC}.IntegerConverter').methods.get('to_py')
    ctx.ob('C18.R4', 'integer lexical space', any(call_name(c) == 'int' for c in calls_in(ic.node)),
           'IntegerConverter.to_py parses with int() (raises for non-integers)', fi=ic)
    pd = repo.func('sdc11073.xml_types.isoduration.parse_duration')
    ctx.ob('C18.R4', 'duration lexical space', any(isinstance(n, ast.Raise) for n in walk_no_nested(pd.node)) and
           'REGEX' in xsrc(pd).upper(), 'parse_duration matches the SDPI duration pattern and raises otherwise',
           fi=pd)


# ---------------------------------------------------------------------- self-test seeds
from selftest import seed  # noqa: E402

_D = 'src/sdc11073/xml_types/dataconverters.py'
SEEDS = [
    seed('timestamp truncated again', 'C18.R1', (_D, "        return str(round(py_value * 1000))", "        return str(int(py_value * 1000))")),
    seed('timestamp written in microseconds', 'C18.R2', (_D, "        return str(round(py_value * 1000))", "        return str(round(py_value * 1000000))")),
    seed('timestamp read through float', 'C18.R2', (_D, "        return int(xml_value) / 1000", "        return float(xml_value) / 1000")),
    seed('exponent decimals through float again', 'C18.R3', (_D, "            return format(py_value, 'f')", "            return cls._float_to_xml(float(py_value))")),
    seed('decimal normalised with round()', 'C18.R3', (_D, "        xml_value = str(py_value)\n        if 'E' in xml_value", "        xml_value = str(round(py_value, 9))\n        if 'E' in xml_value")),
    seed('exponent check dropped', 'C18.R3',
         (_D, "        if 'E' in xml_value or 'e' in xml_value:\n            # no exp form allowed in xml\n            return format(py_value, 'f')\n        return xml_value\n", "        return xml_value\n")),
    seed('trailing zeros stripped with a character set', 'C18.R5',
         (_D, "            while '.' in xml_value and xml_value[-1] in ('0', '.'):\n                xml_value = xml_value[:-1]", "            xml_value = xml_value.rstrip('0.') or '0'")),
    seed('truncation loop without the point check', 'C18.R5',
         (_D, "            while '.' in xml_value and xml_value[-1] in ('0', '.'):", "            while xml_value[-1] in ('0', '.'):")),
    seed('enum converter falls back to the raw string', 'C18.R4',
         (_D, "        value = self._klass(xml_value)\n        return value", "        try:\n            return self._klass[xml_value]\n        except KeyError:\n            return xml_value")),
    seed('control: timestamp writer with a named constant', 'C18.R1',
         (_D, "        return str(round(py_value * 1000))", "        millis = round(py_value * 1000)\n        return str(millis)"), control=True),
]
