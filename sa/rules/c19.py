"""C19 - with TLS configured no endpoint is advertised or contacted in plaintext.

Decided (structural necessary conditions):
  R1 schemes come from the TLS state: a literal plaintext scheme in URL-forming code appears only on the
     else-edge of a test of the TLS context; every advertised address is built from that scheme / from
     base urls that were built from it.
  R2 every SOAP client gets the TLS client context whenever TLS is configured (provider) / in use
     (consumer); both client classes open HTTPS iff they have a context.
  R3 enforced means never downgraded: `is_ssl_connection = False` outside the constructor is dominated
     by `is_ssl_connection is None` (the non-enforced case); force_ssl_connect without a container raises.
  R4 both HTTP servers get the server context under the same condition.
  R5 contexts built from a CA file require and verify the peer in both directions; no CERT_NONE /
     CERT_OPTIONAL anywhere.
Not decided: what the TLS library does at run time.
"""
from __future__ import annotations

import ast

from engine.cfg import call_name, cfg_of, expand_aliases
from engine.errors import AnalysisError
from engine.repo import walk_no_nested
from engine.util import calls_in, local_assignments, unparse, xsrc

ID = 'C19'
PV = 'sdc11073.provider.providerimpl.SdcProvider'
CO = 'sdc11073.consumer.consumerimpl.SdcConsumer'
TLS_TESTS = ('_ssl_context_container', '_ssl_context', 'ssl_context_container', 'ssl_context')


def _tls_fact(facts, polarity_true):
    """A dominating fact that says the TLS context is present (True) / absent (False)."""
    for txt, pol in list(facts) + list(getattr(facts, 'resolved', [])):   # as written, and with boolean locals written out
        base = txt.replace(' is None', '').replace('self.', '')
        if base in TLS_TESTS:
            present = (pol is False) if txt.endswith(' is None') else (pol is True)
            if present == polarity_true:
                return True
    return False




TLS_ATOMS = {'self._ssl_context_container': ('B', False), 'self._ssl_context_container is None': ('B', True),
             'self.is_ssl_connection': ('A', False), 'use_ssl': ('U', False)}


def _fact_mask(e, pol=True):
    """Worlds over the atoms A (connection uses TLS), B (context container present), U (use_ssl flag) - as a set of
    (A, B, U) triples - in which fact e holds.  Sub-formulas about anything else do not constrain."""
    import itertools
    allw = set(itertools.product((False, True), repeat=3))

    def ev(x):
        if isinstance(x, ast.UnaryOp) and isinstance(x.op, ast.Not):
            r = ev(x.operand)
            return None if r is None else allw - r
        if isinstance(x, ast.BoolOp):
            rs = [ev(v) for v in x.values]
            if isinstance(x.op, ast.And):
                out = set(allw)
                for r in rs:
                    if r is not None:
                        out &= r
                return out
            if any(r is None for r in rs):
                return None
            out = set()
            for r in rs:
                out |= r
            return out
        from engine.cfg import canon_lit
        t, p = canon_lit(unparse(x), True)
        hit = TLS_ATOMS.get(t)
        if hit is None:
            return None
        var, inverted = hit
        i = 'ABU'.index(var)
        want = p != inverted
        return {w for w in allw if w[i] == want}
    r = ev(e)
    if r is None:
        return allw
    return r if pol else allw - r


def _context_cases(g, node, expr, attr, off):
    """Every value expr can take at node is the container's <attr>, or None - and None only in worlds allowed by `off`
    (a predicate on (A, B, U)); the context is passed in at least one case.  The facts of each case (branch facts, tests of
    conditional expressions, facts at the definitions of locals, all with aliases written out) are turned into the set of
    worlds they allow, so `if a and b`, nested ifs, guard clauses and conditional expressions give the same verdict."""
    import itertools
    some, bad, wit = False, [], []
    for facts, leaf in g.value_cases(node, expr):
        t = unparse(leaf)
        worlds = set(itertools.product((False, True), repeat=3))
        for txt, pol in list(facts) + list(facts.resolved):
            try:
                worlds &= _fact_mask(ast.parse(txt, mode='eval').body, pol)
            except SyntaxError:
                continue
        wit.append(f'{list(facts.resolved)} => {t}')
        if not worlds:
            continue  # infeasible combination of definitions
        if t == 'None':
            if not all(off(*w) for w in worlds):
                bad.append(t)
        elif t == f'self._ssl_context_container.{attr}':
            some = True
        else:
            bad.append(t)
    return some and not bad, wit


def _context_argument(g, kw, attr, off):
    sites = [(n, k.value) for n in g.real_nodes() for c in n.calls() for k in c.keywords if k.arg == kw]
    if len(sites) != 1:
        return False, f'{len(sites)} calls with a {kw} argument'
    return _context_cases(g, sites[0][0], sites[0][1], attr, off)


def _edge_facts(b):
    """The literals that hold on branch edge b itself."""
    from engine.cfg import Facts, _atoms
    f = Facts()
    _atoms(b.test, b.label, f)
    f.resolved = list(f)
    return f


def plaintext_sites(repo):
    """(fi, node, kind) literal plaintext schemes in URL-forming code."""
    out = []
    for fi in repo.funcs.values():
        if not fi.module.name.startswith('sdc11073'):
            continue
        for n in walk_no_nested(fi.node):
            if isinstance(n, ast.JoinedStr) and n.values and isinstance(n.values[0], ast.Constant) and \
                    isinstance(n.values[0].value, str) and n.values[0].value in ('http://', 'https://') and len(n.values) > 1:
                out.append((fi, n, n.values[0].value))
            if isinstance(n, ast.Constant) and n.value in ('http', 'https'):
                par = getattr(n, '_parent', None)
                if isinstance(par, ast.Call) and call_name(par) in ('startswith', 'endswith', 'getLogger'):
                    continue
                if isinstance(par, (ast.Assign, ast.IfExp, ast.Call, ast.keyword, ast.Return)):
                    out.append((fi, n, n.value))
            if isinstance(n, ast.Call) and call_name(n) in ('HTTPConnectionNoDelay', 'HTTPConnection',
                                                            'HTTPSConnectionNoDelay', 'HTTPSConnection'):
                out.append((fi, n, 'https' if 'HTTPS' in call_name(n) else 'http'))
    return out


def run(ctx):  # noqa: C901, PLR0912, PLR0915
    repo = ctx.repo
    ctx.rule('C19.R1', 'plaintext scheme literals only on the no-TLS edge; advertised addresses built from the chosen scheme')
    ctx.rule('C19.R2', 'SOAP clients get the client context whenever TLS is configured / in use')
    ctx.rule('C19.R3', 'no downgrade when TLS is enforced')
    ctx.rule('C19.R4', 'HTTP servers get the server context')
    ctx.rule('C19.R5', 'CA file => CERT_REQUIRED + load_verify_locations for client and server context')

    # ------------------------------------------------------------------ R1
    sites = plaintext_sites(repo)
    ctx.floor('C19.R1', len(sites), 6, 'literal http/https scheme sites')
    n_plain = 0
    for fi, node, kind in sites:
        g = cfg_of(fi)
        holder = next((n for n in g.real_nodes() if any(a is node for a in n.walk())), None)
        if holder is None:
            raise AnalysisError(f'C19.R1: cannot locate scheme literal in {fi.qual}')
        facts = g.facts_at(holder)
        # conditional expression: `x if <tls> else y`
        cur, child = getattr(node, '_parent', None), node
        while cur is not None and not isinstance(cur, ast.stmt):
            if isinstance(cur, ast.IfExp) and child is not cur.test:
                from engine.cfg import _atoms
                _atoms(cur.test, child is cur.body, facts)
            child, cur = cur, getattr(cur, '_parent', None)
        plain = kind.startswith('http') and not kind.startswith('https')
        if plain:
            n_plain += 1
        ok = _tls_fact(facts, polarity_true=not plain)
        par = getattr(node, '_parent', None)
        if not ok and plain and isinstance(par, ast.Assign) and len(par.targets) == 1 and isinstance(par.targets[0], ast.Name):
            # "default, then override": `scheme = 'http'` unconditionally, `scheme = 'https'` under the TLS test.  The plaintext
            # default may reach a use only along paths through an edge on which the TLS context is known to be absent.
            var = par.targets[0].id
            other_defs = [d for d in g.real_nodes() if d is not holder and any(
                isinstance(x, ast.Name) and x.id == var and isinstance(x.ctx, ast.Store) for x in d.walk())]
            no_tls_edges = [b for b in g.nodes if b.kind == 'branch' and b.label in (True, False)
                            and _tls_fact(_edge_facts(b), polarity_true=False)]
            uses = [u for u in g.real_nodes() if u is not holder and any(
                isinstance(x, ast.Name) and x.id == var and isinstance(x.ctx, ast.Load) for x in u.walk())]
            ok = bool(uses) and bool(other_defs) and not any(
                g.path_exists(holder, u, avoid=other_defs + no_tls_edges, normal_only=True) for u in uses)
        ctx.ob('C19.R1', f'{fi.name}: {kind} literal', ok,
               f'{fi.cls.name if fi.cls else ""}.{fi.name}: "{kind}" is used only when the TLS context is '
               f'{"absent" if plain else "present"}' if ok else
               f'{fi.cls.name if fi.cls else ""}.{fi.name}: the {"plaintext" if plain else "https"} scheme "{kind}" is not '
               f'selected by a test of the TLS context (facts: {facts}): with TLS configured a plaintext address can be '
               f'advertised / contacted', fi=fi, node=node, witness={'facts': facts})
    ctx.floor('C19.R1', n_plain, 4, 'plaintext sites')
    # advertised addresses
    gx = repo.func(f'{PV}.get_xaddrs')
    ctx.ob('C19.R1', 'xaddrs', "f'{self._urlschema}://" in xsrc(gx) and 'http:' not in xsrc(gx).replace('{self._urlschema}', ''),
           'the discovery XAddrs use the scheme chosen from the TLS state', fi=gx)
    ss = repo.func(f'{PV}._start_services')
    ok = any(call_name(c) == 'SplitResult' and c.args and unparse(c.args[0]) == 'self._urlschema' for c in calls_in(ss.node))
    ctx.ob('C19.R1', 'base urls', ok, 'the provider base urls (hosted services, subscription manager) use that scheme', fi=ss)
    sr = repo.func('sdc11073.provider.subscriptionmgr_base.SubscriptionsManagerBase._mk_subscribe_response_message')
    gsr = cfg_of(sr)
    import re as _re
    addr_ok = any(n.kind == 'stmt' and isinstance(n.stmt, ast.Assign) and isinstance(n.stmt.value, ast.JoinedStr) and
                  _re.search(r"\{\$(\d+)\[0\]\.scheme\}://\{\$\1\[0\]\.netloc\}/", gsr.symbolic_text(n, n.stmt.value))
                  for n in gsr.real_nodes())
    ctx.ob('C19.R1', 'subscription manager address', addr_ok,
           'the subscription manager address in SubscribeResponse is built from the provider base url', fi=sr)
    hs = repo.module('sdc11073.provider.dpwshostedservice')
    lits = [n for n in ast.walk(hs.tree) if isinstance(n, ast.JoinedStr) and n.values and isinstance(n.values[0], ast.Constant)
            and str(n.values[0].value).startswith(('http://', 'https://')) and len(n.values) > 1]
    ctx.ob('C19.R1', 'hosted service addresses', not lits and 'base_urls' in hs.src,
           'hosted service endpoint addresses are derived from the provider base urls, no literal scheme', where=hs.name,
           witness=[unparse(x) for x in lits])
    cb = repo.func(f'{CO}.base_url')
    src = xsrc(cb)
    ctx.ob('C19.R1', 'consumer NotifyTo/EndTo base', 'urlparse(self._http_server.base_url)' in src and "f'{p.scheme}://" in src,
           'the consumer base url (NotifyTo / EndTo) takes its scheme from its HTTP server', fi=cb)
    mk = repo.func(f'{CO}._mk_subscription') if f'{CO}._mk_subscription' in repo.funcs else None
    cs = repo.module('sdc11073.consumer.subscription')
    lits = [n for n in ast.walk(cs.tree) if isinstance(n, ast.JoinedStr) and n.values and isinstance(n.values[0], ast.Constant)
            and str(n.values[0].value).startswith(('http://', 'https://'))]
    ctx.ob('C19.R1', 'consumer subscription urls', not lits,
           'notification / end-to urls of consumer subscriptions are derived from the given base url', where=cs.name)

    # ------------------------------------------------------------------ R2
    pm = repo.func(f'{PV}._mk_soap_client')
    ok, wit = _context_argument(cfg_of(pm), 'ssl_context', 'client_context', lambda a, b, u: not b)
    ctx.ob('C19.R2', 'provider clients', ok,
           'every SOAP client of the provider (notifications) gets the client context when a context container is set',
           fi=pm, witness=wit)
    callers = [f.qual for f in repo.funcs.values() for a in ast.walk(f.node) if isinstance(a, ast.Attribute)
               and a.attr == 'soap_client_class' and isinstance(a.ctx, ast.Load) and f.module.name.startswith('sdc11073.provider')]
    ctx.ob('C19.R2', 'single provider client factory', set(callers) == {pm.qual},
           'provider SOAP clients are created only in _mk_soap_client', where=PV, witness=sorted(set(callers)))
    # the consumer's client factory, by role: the method of SdcConsumer that instantiates soap_client_class (the private
    # helper _mk_soap_client, or get_soap_client itself when the helper was folded into its only caller)
    factories = [f for f in repo.cls(CO).methods.values() if any(
        isinstance(a, ast.Attribute) and a.attr == 'soap_client_class' and isinstance(a.ctx, ast.Load) for a in ast.walk(f.node))]
    if len(factories) != 1:
        raise AnalysisError(f'C19.R2: expected one method of SdcConsumer that instantiates soap_client_class, found '
                            f'{[f.name for f in factories]}')
    cm = factories[0]
    ok, wit = _context_argument(cfg_of(cm), 'ssl_context', 'client_context', lambda a, b, u: not u)
    ctx.ob('C19.R2', 'consumer clients', ok, 'consumer SOAP clients get the client context whenever use_ssl is set', fi=cm,
           witness=wit)
    gs = expand_aliases(repo.func(f'{CO}.get_soap_client'))   # `pool = self._soap_clients` written out
    gg = cfg_of(gs)
    # symbolic expansion (locals written out in terms of self / parameters): names of temporaries do not matter
    mkc = gg.nodes_calling(cm.name) if cm.name != 'get_soap_client' else []
    flag = 'self.is_ssl_connection is not False'
    if mkc:
        ok = len(mkc) == 1 and bool(mkc[0][1].args) and gg.symbolic_text(mkc[0][0], mkc[0][1].args[0]) == flag
    else:
        # the factory is this function: the test that selects the client context is the flag itself
        created = [(n, k.value) for n in gg.real_nodes() for c in n.calls() for k in c.keywords if k.arg == 'ssl_context']
        ok = len(created) == 1
        if ok:
            cases = gg.value_cases(created[0][0], created[0][1])
            with_ctx = [f for f, leaf in cases if not (isinstance(leaf, ast.Constant) and leaf.value is None)]
            ok = bool(with_ctx) and all(any(gg.symbolic_text(created[0][0], ast.parse(t, mode='eval').body) == flag and p is True
                                            for t, p in f.both() if not t.startswith('$')) for f in with_ctx)
    # the client pool is keyed by that flag too (a TLS client is never handed out for a plaintext decision and vice versa)
    # every access to the pool: pool[key] (read or write), pool.get(key), key in pool
    keys = []
    for n in gg.real_nodes():
        for a in n.walk():
            if isinstance(a, ast.Subscript) and unparse(a.value) == 'self._soap_clients':
                keys.append(gg.symbolic(n, a.slice))
            elif isinstance(a, ast.Call) and call_name(a) == 'get' and unparse(a.func.value) == 'self._soap_clients' and a.args:
                keys.append(gg.symbolic(n, a.args[0]))
            elif isinstance(a, ast.Compare) and len(a.ops) == 1 and isinstance(a.ops[0], (ast.In, ast.NotIn)) and \
                    unparse(a.comparators[0]) == 'self._soap_clients':
                keys.append(gg.symbolic(n, a.left))
    ok = ok and len(keys) >= 2 and all(isinstance(k, ast.Tuple) and k.elts and unparse(k.elts[0]) == flag for k in keys) and \
        len({unparse(k) for k in keys}) == 1
    ctx.ob('C19.R2', 'use_ssl from the connection state', ok,
           'use_ssl is true unless plaintext was decided (never for an enforced TLS consumer), independent of the scheme '
           'of the address', fi=gs)
    callers = [f.qual for f in repo.funcs.values() for a in ast.walk(f.node) if isinstance(a, ast.Attribute)
               and a.attr == 'soap_client_class' and isinstance(a.ctx, ast.Load) and f.module.name.startswith('sdc11073.consumer')]
    ctx.ob('C19.R2', 'single consumer client factory', set(callers) == {cm.qual},
           'consumer SOAP clients are created only in _mk_soap_client', where=CO, witness=sorted(set(callers)))
    for q in ('sdc11073.pysoap.soapclient.SoapClient._mk_http_connection',
              'sdc11073.pysoap.soapclient_async.SoapClientAsync._mk_http_connection'):
        fi = repo.func(q)
        g = cfg_of(fi)
        tls = [n for n in g.real_nodes() if any(isinstance(a, ast.Call) and (call_name(a) in ('HTTPSConnectionNoDelay',)
                                                                            or (call_name(a) == 'TCPConnector' and a.keywords))
                                                for a in n.walk())]
        ok = bool(tls) and all(('self._ssl_context is None', False) in g.facts_at(n) for n in tls) and \
            all(unparse(k.value) == 'self._ssl_context' for n in tls for a in n.walk() if isinstance(a, ast.Call)
                for k in a.keywords if k.arg in ('context', 'ssl'))
        ctx.ob('C19.R2', f'{fi.cls.name}: https iff context', ok,
               f'{fi.cls.name} opens a TLS connection with its context exactly when it has one', fi=fi)

    # ------------------------------------------------------------------ R3
    n_w = 0
    for name, fi in repo.cls(CO).methods.items():
        g = cfg_of(fi)
        for n in g.real_nodes():
            if n.kind == 'stmt' and isinstance(n.stmt, ast.Assign) and unparse(n.stmt.targets[0]) == 'self.is_ssl_connection':
                n_w += 1
                val = unparse(n.stmt.value)
                facts = g.facts_at(n)
                if name == '__init__':
                    if val == 'False':
                        ok = ('force_ssl_connect', False) in facts and ('ssl_context_container is None', True) in facts
                    elif val == 'True':
                        ok = ('force_ssl_connect', True) in facts
                    else:
                        ok = val == 'None' and ('force_ssl_connect', False) in facts
                    ctx.ob('C19.R3', f'__init__: is_ssl_connection = {val}', ok,
                           f'constructor: is_ssl_connection = {val} under {[f for f in facts if "ssl" in f[0]]}', fi=fi,
                           node=n.stmt)
                elif val not in ('True', 'False'):
                    ctx.ob('C19.R3', f'{name}: decision reset', False,
                           f'{name}: is_ssl_connection is set to {val} after construction: the decision "TLS enforced" '
                           f'(True) is forgotten and the next connect may fall back to plaintext on an SSLError', fi=fi,
                           node=n.stmt, witness={'facts': facts})
                elif val == 'False':
                    ok = ('self.is_ssl_connection is None', True) in facts
                    ctx.ob('C19.R3', f'{name}: downgrade', ok,
                           f'{name}: the fallback to plaintext happens only when TLS was not enforced '
                           f'(is_ssl_connection is None)' if ok else
                           f'{name}: is_ssl_connection is set to False without the test that TLS was left undecided: an '
                           f'enforced TLS consumer can fall back to plaintext', fi=fi, node=n.stmt, witness={'facts': facts})
    ctx.floor('C19.R3', n_w, 5, 'writes of is_ssl_connection')
    init = repo.func(f'{CO}.__init__')
    g = cfg_of(init)
    rz = [n for n in g.nodes if n.kind == 'raisestmt' and ('force_ssl_connect', True) in g.facts_at(n)
          and ('ssl_context_container is None', True) in g.facts_at(n)]
    ctx.ob('C19.R3', 'force without container raises', bool(rz),
           'force_ssl_connect=True without an ssl context container is rejected', fi=init)
    cn = repo.func(f'{CO}._connect')
    g = cfg_of(cn)
    handlers = [n for n in g.nodes if n.kind == 'except']
    # what the handler does to go on without TLS (a second connect) happens only where TLS was left undecided - the handler
    # as a whole may sit inside that branch, or re-raise first when a decision exists
    def _in_handler(node):
        cur = getattr(node.stmt, '_parent', None) if node.stmt is not None else None
        while cur is not None and cur is not cn.node:
            if isinstance(cur, ast.ExceptHandler):
                return True
            cur = getattr(cur, '_parent', None)
        return False
    retries = [n for n, _c in g.nodes_calling('connect') if _in_handler(n)]
    ok = all('SSLError' in unparse(h.stmt.type) for h in handlers if h.stmt.type is not None) and bool(handlers) and \
        bool(retries) and all(('self.is_ssl_connection is None', True) in g.facts_at(r) for r in retries)
    ctx.ob('C19.R3', 'plaintext retry only in the undecided case', ok,
           'the retry without TLS (on SSLError) exists only in the branch where TLS was optional', fi=cn)

    # ------------------------------------------------------------------ R4
    n_srv = 0
    for fi in repo.funcs.values():
        if not fi.module.name.startswith('sdc11073'):
            continue
        for c in calls_in(fi.node, 'HttpServerThreadBase'):
            n_srv += 1
            arg = None
            for k in c.keywords:
                if k.arg == 'ssl_context':
                    arg = k.value
            if arg is None and len(c.args) >= 2:
                arg = c.args[1]
            txt = unparse(arg) if arg is not None else ''
            g = cfg_of(fi)
            ok, wit = (False, 'no ssl context argument') if arg is None else \
                _context_cases(g, g.holder(c), arg, 'server_context',
                               (lambda a, b, u: not b) if fi.module.name.startswith('sdc11073.provider') else
                               (lambda a, b, u: not (a and b)))
            ctx.ob('C19.R4', f'{fi.name}: server context', ok,
                   f'{fi.cls.name}.{fi.name}: the HTTP server gets the server context whenever TLS is configured / in use',
                   fi=fi, node=c, witness={'argument': txt, 'cases': wit})
    ctx.floor('C19.R4', n_srv, 2, 'HttpServerThreadBase constructions')
    hr = repo.func('sdc11073.httpserver.httpserverimpl.HttpServerThreadBase.run')
    g = cfg_of(hr)
    wraps = g.nodes_calling('wrap_socket')
    ok = bool(wraps) and all(('self._ssl_context', True) in g.facts_at(n) for n, _ in wraps) and \
        all(any(k.arg == 'server_side' and isinstance(k.value, ast.Constant) and k.value.value is True for k in c.keywords)
            for _, c in wraps)
    https_url = [n for n in g.real_nodes() if any(isinstance(x, ast.Constant) and isinstance(x.value, str)
                                                   and x.value.startswith('https') for x in n.walk())]
    # the https url is chosen behind the wrap: dominated by it, or chosen under the same (unchanged) test `self._ssl_context`
    # that guards the wrap further up (`if ctx: wrap ... scheme = 'https' if ctx else 'http'`)
    stores_ctx = [n for n in g.real_nodes() if n.kind == 'stmt' and isinstance(n.stmt, ast.Assign) and
                  unparse(n.stmt.targets[0]) == 'self._ssl_context']
    ok = ok and bool(https_url) and all(
        any(g.dominates(w, u) for w, _ in wraps) or
        (('self._ssl_context', True) in g.facts_at(u) and not stores_ctx and any(g.path_exists(w, u) for w, _ in wraps)
         and not any(g.path_exists(u, w) for w, _ in wraps))
        for u in https_url)
    ctx.ob('C19.R4', 'server wraps its socket', ok,
           'with a context the listening socket is wrapped (server side) before the https base url is published', fi=hr)

    ctx.borrow('C08', {'C08.R5'}, 'C19.R2', contains=['connection and path agree', 'address'], why='the end message goes through the pooled TLS client')
    # ------------------------------------------------------------------ R5
    mc = repo.func('sdc11073.certloader.mk_ssl_contexts')
    g = cfg_of(mc)
    # the two context objects are found by how they are made (PROTOCOL_TLS_CLIENT / PROTOCOL_TLS_SERVER), not by their names
    made = {}
    for n in g.real_nodes():
        if n.kind == 'stmt' and isinstance(n.stmt, ast.Assign) and isinstance(n.stmt.targets[0], ast.Name) and \
                isinstance(n.stmt.value, ast.Call) and unparse(n.stmt.value.func) == 'ssl.SSLContext' and n.stmt.value.args:
            proto = unparse(n.stmt.value.args[0])
            if proto in ('ssl.PROTOCOL_TLS_CLIENT', 'ssl.PROTOCOL_TLS_SERVER'):
                made['client' if proto.endswith('CLIENT') else 'server'] = n.stmt.targets[0].id
    if set(made) != {'client', 'server'}:
        raise AnalysisError(f'C19.R5: client and server SSLContext constructions not found in mk_ssl_contexts ({made})')
    for role, ctxname in sorted(made.items()):
        wit5 = None
        vm = [n for n in g.real_nodes() if n.kind == 'stmt' and isinstance(n.stmt, ast.Assign) and
              unparse(n.stmt.targets[0]) == f'{ctxname}.verify_mode']
        lv = [n for n, c in g.nodes_calling('load_verify_locations') if unparse(c.func.value) == ctxname
              and c.args and unparse(c.args[0]) == 'ca_file']
        ok = len(vm) == 1 and unparse(vm[0].stmt.value) == 'ssl.CERT_REQUIRED' and len(lv) == 1 and \
            ('ca_file', True) in g.facts_at(vm[0]) and ('ca_file', True) in g.facts_at(lv[0])
        if ok:
            # path condition: whenever the function returns normally and a CA file was given, BOTH statements were executed -
            # no other condition (cipher string given or not, ...) may decide about peer verification
            from engine.pathcond import worlds_of
            w = worlds_of(g, extra_atoms=('ca_file',))
            with_ca = w.cond(g.exit) & w.mask('ca_file')
            missed = with_ca & ~(w.cond(vm[0]) & w.cond(lv[0])) & w.all
            ok = missed == 0
            if not ok:
                wit5 = {'returns with a CA file but without verification when': w.describe(missed)}
        ctx.ob('C19.R5', f'{role}_ssl_context', ok,
               f'{role} context: with a CA file verify_mode is CERT_REQUIRED and the CA is loaded for verification', fi=mc,
               witness=wit5)
    ret = [n for n in walk_no_nested(mc.node) if isinstance(n, ast.Return)]
    ok = len(ret) == 1 and isinstance(ret[0].value, ast.Call) and call_name(ret[0].value) == 'SSLContextContainer' and \
        {k.arg: unparse(k.value) for k in ret[0].value.keywords} == {'client_context': made['client'],
                                                                      'server_context': made['server']}
    ctx.ob('C19.R5', 'container wiring', ok, 'the container returns the client context as client_context and the server '
           'context as server_context', fi=mc)
    src = xsrc(mc)
    ok = 'ssl.SSLContext(ssl.PROTOCOL_TLS_CLIENT)' in src and 'ssl.SSLContext(ssl.PROTOCOL_TLS_SERVER)' in src
    ctx.ob('C19.R5', 'protocols', ok, 'client context uses PROTOCOL_TLS_CLIENT, server context PROTOCOL_TLS_SERVER', fi=mc)
    weak = []
    for mod in repo.modules.values():
        if not mod.name.startswith('sdc11073'):
            continue
        for n in ast.walk(mod.tree):
            if isinstance(n, ast.Attribute) and n.attr in ('CERT_NONE', 'CERT_OPTIONAL', '_create_unverified_context'):
                weak.append(f'{mod.name}:{n.lineno} {n.attr}')
    # the folder variant hands the configured CA file on whenever one is named: whether peer verification is switched on is
    # decided by the configuration (`ca_public_key`), never by what happens to be on disk - a missing CA file must surface as
    # an error of load_verify_locations, not as contexts that silently verify nothing
    ff = repo.func('sdc11073.certloader.mk_ssl_contexts_from_folder')
    gf5 = cfg_of(ff)
    la5 = local_assignments(ff.node)
    mcalls = [(n, c) for n, c in gf5.nodes_calling('mk_ssl_contexts')]
    if not mcalls:
        raise AnalysisError('C19.R5: mk_ssl_contexts_from_folder does not call mk_ssl_contexts')
    mparams = [a.arg for a in mc.node.args.args]
    for n, c in mcalls:
        bound = dict(zip(mparams, c.args))
        bound.update({k.arg: k.value for k in c.keywords if k.arg})
        ca = bound.get(mparams[2]) if len(mparams) > 2 else None
        names, todo, exprs = set(), [ca] if ca is not None else [], []
        while todo:
            e = todo.pop()
            exprs.append(e)
            for x in ast.walk(e):
                if isinstance(x, ast.Name) and x.id not in names:
                    names.add(x.id)
                    todo.extend(la5.get(x.id, []))
        tests = [t.test for e in exprs for t in ast.walk(e) if isinstance(t, ast.IfExp)]
        for m in gf5.real_nodes():
            if m.kind == 'stmt' and isinstance(m.stmt, ast.Assign) and any(isinstance(t, ast.Name) and t.id in names
                                                                           for t in m.stmt.targets):
                tests += [ast.parse(txt, mode='eval').body for txt, _ in gf5.facts_at(m).both()]
        FS = {'exists', 'is_file', 'isfile', 'is_dir', 'isdir', 'access', 'stat', 'lstat', 'glob', 'listdir', 'iterdir', 'open',
              'read_text', 'read_bytes', 'getsize', 'resolve'}
        probes = [unparse(t) for t in tests if any(isinstance(x, ast.Call) and call_name(x) in FS for x in ast.walk(t))]
        ok = ca is not None and not probes and not (isinstance(ca, ast.Constant) and ca.value is None)
        ctx.ob('C19.R5', 'folder variant passes the CA file on', ok,
               'mk_ssl_contexts_from_folder: the CA file goes to mk_ssl_contexts whenever ca_public_key names one' if ok else
               f'mk_ssl_contexts_from_folder: whether a CA file reaches mk_ssl_contexts depends on {probes or "nothing - None is passed"}: '
               f'with the file missing (wrong name, not deployed) TLS contexts are built without CERT_REQUIRED and every peer '
               f'certificate is accepted', fi=ff, node=c)
    ctx.ob('C19.R5', 'no weak verification modes', not weak, 'no CERT_NONE / CERT_OPTIONAL / unverified context in src/',
           where='sdc11073', witness=weak)


# ---------------------------------------------------------------------- self-test seeds
from selftest import seed  # noqa: E402

_P = 'src/sdc11073/provider/providerimpl.py'
_C = 'src/sdc11073/consumer/consumerimpl.py'
_H = 'src/sdc11073/httpserver/httpserverimpl.py'
_L = 'src/sdc11073/certloader.py'
SEEDS = [
    seed('xaddrs always http', 'C19.R1',
         (_P, "        return [f'{self._urlschema}://{addr}:{self._http_server.server_port}/{self.path_prefix}']", "        return [f'http://{addr}:{self._http_server.server_port}/{self.path_prefix}']")),
    seed('scheme chosen from the alternative hostname', 'C19.R1',
         (_P, "        if self._ssl_context_container is not None:\n            self._urlschema = 'https'", "        if self._alternative_hostname is not None:\n            self._urlschema = 'https'")),
    seed('async client builds http base url unconditionally', 'C19.R1',
         ('src/sdc11073/pysoap/soapclient_async.py', "            connector = TCPConnector(ssl=self._ssl_context)\n            base_url = f'https://{self._netloc}/'", "            connector = TCPConnector(ssl=self._ssl_context)\n            base_url = f'http://{self._netloc}/'")),
    seed('provider notification clients without context', 'C19.R2',
         (_P, "            ssl_context=self._ssl_context_container.client_context if self._ssl_context_container else None,\n            sdc_definitions", "            ssl_context=None,\n            sdc_definitions")),
    seed('consumer follows the scheme of the address', 'C19.R2',
         (_C, "        use_ssl = self.is_ssl_connection is not False  # if is_ssl_connection is still None, default to use_ssl = True", "        use_ssl = self.is_ssl_connection is not False and _url.scheme == 'https'")),
    seed('downgrade also when enforced', 'C19.R3',
         (_C, "        if self.is_ssl_connection is not None:\n            # decision was already made in constructor\n            soap_client.connect()\n        else:", "        if self.is_ssl_connection is False:\n            # decision was already made in constructor\n            soap_client.connect()\n        else:")),
    seed('restart forgets the enforcement', 'C19.R3',
         (_C, "    def _connect(self):\n        soap_client = self.get_soap_client(self._provider_address)", "    def _reset_tls_decision(self):\n        if self._ssl_context_container is not None:\n            self.is_ssl_connection = None\n\n    def _connect(self):\n        soap_client = self.get_soap_client(self._provider_address)")),
    seed('force without container tolerated', 'C19.R3',
         (_C, "            if ssl_context_container is None:\n                raise ValueError(\n                    'Invalid combination of ssl_connect (True) and ssl_context_container (None) parameters',\n                )\n            self.is_ssl_connection = True",
          "            self.is_ssl_connection = ssl_context_container is not None"), accept_analysis_error=True),
    seed('consumer event sink without TLS', 'C19.R4',
         (_C, "                ssl_context_container.server_context if ssl_context_container else None,", "                None,")),
    seed('server does not verify clients', 'C19.R5',
         (_L, "        server_ssl_context.verify_mode = ssl.CERT_REQUIRED\n", "        server_ssl_context.verify_mode = ssl.CERT_OPTIONAL\n")),
    seed('client context does not load the CA', 'C19.R5',
         (_L, "        client_ssl_context.verify_mode = ssl.CERT_REQUIRED\n        client_ssl_context.load_verify_locations(ca_file)", "        client_ssl_context.verify_mode = ssl.CERT_REQUIRED")),
]
