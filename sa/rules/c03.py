"""C03 - transactions are atomic and the data they hand out is isolated from the MDIB.

Decided (structural necessary conditions):
  R1 WHO-MAY: outside the commit closure no method of a transaction class calls a table mutator or
     mutates a table-resident object in place.
  R2 abort: from the exceptional edge of the yield in _transaction_manager nothing but
     `self.current_transaction = None` is reachable; the observable that sends the reports is
     assigned only after a completed commit.
  R3 belief: TransactionItem.old / .new are None for some producers, so every dereference in the commit
     closure is guarded (or the other field is known None, no producer builds (None, None)).
  R4 NO-ESCAPE: transaction getters, entity getters, transaction results and the periodic store hand out
     copies; ContainerBase.mk_copy copies every property value deeply.
  R5 the object stored in the table by the commit is not the object the caller still holds
     (by design violated: known findings).
"""
from __future__ import annotations

import ast

from engine.cfg import call_name, cfg_of
from engine.errors import AnalysisError
from engine.flow import Resident, is_table_expr
from engine.repo import walk_no_nested
from engine.util import calls_in, dotted, local_assignments, unparse, xsrc

from .c02 import TABLE_MUTATORS, commit_closure, transaction_classes

ID = 'C03'
TR = 'sdc11073.mdib.transactions'
PM = 'sdc11073.mdib.providermdib.ProviderMdib'
INPLACE_MUTATORS = {'update_from_other_container', 'increment_state_version', 'increment_descriptor_version',
                    'update_descriptor_version', 'set_source_mds', 'update_from_node', 'mk_metric_value',
                    'update_from_sdc_location'}


def run(ctx):  # noqa: C901, PLR0912, PLR0915
    repo = ctx.repo
    ctx.rule('C03.R1', 'WHO-MAY: no table mutation / in-place mutation of resident objects outside the commit closure')
    ctx.rule('C03.R2', 'abort edge of the transaction context manager reaches no effect; reports only after commit')
    ctx.rule('C03.R3', 'every dereference of TransactionItem.old/.new in the commit closure is guarded against None')
    ctx.rule('C03.R4', 'hand-outs (getters, entities, results, periodic store) are copies; mk_copy is deep')
    ctx.rule('C03.R5', 'the committed table entry is not the object the caller holds')
    classes = transaction_classes(repo)
    closure_quals = set()
    for cq in classes:
        for fi in commit_closure(repo, cq).values():
            closure_quals.add(fi.qual)
    ctx.floor('C03.R1', len(closure_quals), 10, 'functions in the commit closure')

    # ------------------------------------------------------------------ R1
    api_funcs = []
    seen = set()
    for cq in classes:
        for c in repo.mro(cq):
            if not c.startswith(TR):
                continue
            for fi in repo.classes[c].methods.values():
                if fi.qual in closure_quals or fi.qual in seen:
                    continue
                seen.add(fi.qual)
                api_funcs.append(fi)
    ctx.floor('C03.R1', len(api_funcs), 25, 'transaction API functions outside the commit closure')
    for fi in api_funcs:
        res = Resident(fi.node)
        bad = []
        for c in calls_in(fi.node):
            nm = call_name(c)
            if nm in TABLE_MUTATORS and isinstance(c.func, ast.Attribute) and res.is_table(c.func.value):
                bad.append((c, f'table mutator {unparse(c.func)}() is called before the commit'))
            if nm in INPLACE_MUTATORS and isinstance(c.func, ast.Attribute) and res.is_resident(c.func.value):
                bad.append((c, f'{unparse(c.func)}() mutates an object that is stored in the MDIB'))
            if nm == 'setattr' and c.args and res.is_resident(c.args[0]):
                bad.append((c, 'setattr on an object that is stored in the MDIB'))
        for n in walk_no_nested(fi.node):
            tgts = []
            if isinstance(n, ast.Assign):
                tgts = n.targets
            elif isinstance(n, (ast.AugAssign, ast.AnnAssign)):
                tgts = [n.target]
            for t in tgts:
                if isinstance(t, (ast.Attribute, ast.Subscript)) and res.is_resident(t.value):
                    bad.append((n, f'store {unparse(t)} = ... writes into an object that is stored in the MDIB'))
                if isinstance(t, ast.Attribute) and t.attr in ('mdib_version', 'sequence_id', 'instance_id') and \
                        'mdib' in (dotted(t.value) or ''):
                    bad.append((n, f'store to {unparse(t)} outside the commit'))
        if bad:
            for node, msg in bad:
                ctx.ob('C03.R1', f'{norm_stmt(node)}', False, msg + ' (an abort would not undo it)', fi=fi, node=node)
        else:
            ctx.ob('C03.R1', 'no effect before commit', True,
                   f'{fi.name}: no table mutator, no in-place mutation of resident objects', fi=fi,
                   witness={'resident_locals': sorted(res.tainted)})

    # table methods that the API calls before the commit must be read-only on the table
    api_table_methods = set()
    for fi in api_funcs:
        res = Resident(fi.node)
        for c in calls_in(fi.node):
            if isinstance(c.func, ast.Attribute) and res.is_table(c.func.value) and \
                    unparse(c.func.value).rsplit('.', 1)[-1] in ('descriptions', 'states', 'context_states'):
                api_table_methods.add(call_name(c))
    ctx.floor('C03.R1', len(api_table_methods), 1, 'table methods called by the transaction API before commit')
    mutating = {'pop', 'popitem', 'clear', 'update', 'append', 'extend', 'remove', 'add', 'setdefault', 'insert',
                'discard', 'appendleft'}
    for tq in sorted(repo.subclasses('sdc11073.multikey.MultiKeyLookup')):
        for m in sorted(api_table_methods):
            tfi = repo.resolve_method(tq, m)
            if tfi is None:
                continue
            bad = []
            for n in walk_no_nested(tfi.node):
                if isinstance(n, ast.Call) and isinstance(n.func, ast.Attribute) and n.func.attr in mutating and \
                        (dotted(n.func.value) or '').startswith('self.'):
                    bad.append(n)
                tg = n.targets if isinstance(n, ast.Assign) else ([n.target] if isinstance(n, ast.AugAssign) else [])
                for t in tg:
                    base = t.value if isinstance(t, (ast.Subscript, ast.Attribute)) else None
                    if base is not None and (dotted(base) or '').startswith('self'):
                        bad.append(n)
                if isinstance(n, ast.Delete) and any((dotted(getattr(t, 'value', None)) or '').startswith('self')
                                                     for t in n.targets):
                    bad.append(n)
            ctx.ob('C03.R1', f'{tq.rsplit(".", 1)[1]}.{m} read-only', not bad,
                   f'{tq.rsplit(".", 1)[1]}.{m} (called by the transaction API before the commit) does not change the '
                   f'table' if not bad else
                   f'{tq.rsplit(".", 1)[1]}.{m} is called while a transaction is being prepared and changes table state '
                   f'({norm_stmt(bad[0])}): an aborted transaction leaves that change behind', fi=tfi,
                   node=bad[0] if bad else None)

    # ------------------------------------------------------------------ R2
    tm = repo.func(f'{PM}._transaction_manager')
    g = cfg_of(tm)
    yields = [n for n, a in g.nodes_where(lambda a: isinstance(a, (ast.Yield, ast.YieldFrom)))]
    if len(yields) != 1:
        raise AnalysisError('C03.R2: expected exactly one yield in _transaction_manager')
    y = yields[0]
    after = [n for n in g.reach_after_exception_of(y) if n.stmt is not None and n.kind in ('stmt', 'return', 'test', 'for', 'with')]
    effects = []
    resets = 0
    for n in after:
        st = n.stmt
        if n.kind == 'stmt' and isinstance(st, ast.Assign) and len(st.targets) == 1 and \
                unparse(st.targets[0]) == 'self.current_transaction' and isinstance(st.value, ast.Constant) and \
                st.value.value is None:
            resets += 1
            continue
        if n.kind == 'stmt' and isinstance(st, ast.Expr) and isinstance(st.value, ast.Constant):
            continue
        effects.append(n)
    ctx.ob('C03.R2', 'abort edge', not effects,
           'after the transaction body raised only `self.current_transaction = None` runs' if not effects else
           f'after the transaction body raised these statements can still run: '
           f'{[e.text()[:60] for e in effects][:4]}', fi=tm, node=y.stmt,
           witness={'reachable_after_abort': [n.text()[:70] for n in after]})
    # ... and it does run: the aborted transaction object does not stay registered as the current one (the helpers of
    # mdib.xtra consult current_transaction and would treat the content of the dead transaction as pending)
    sets = [n for n in g.real_nodes() if n.kind == 'stmt' and isinstance(n.stmt, ast.Assign) and
            any(unparse(t) == 'self.current_transaction' for t in n.stmt.targets) and
            not (isinstance(n.stmt.value, ast.Constant) and n.stmt.value.value is None)]
    ctx.ob('C03.R2', 'abort edge forgets the transaction', resets > 0 or not sets,
           'after the transaction body raised, current_transaction is reset to None' if resets or not sets else
           'after the transaction body raised, self.current_transaction keeps the aborted transaction (the reset is not on '
           'the exception edge of the yield): mdib.xtra helpers put new states into the dead transaction and resolve '
           'descriptors that were never committed', fi=tm, node=y.stmt)
    pts = g.nodes_calling('process_transaction')
    obs = observable_names(repo, PM)
    ctx.floor('C03.R2', len(obs), 8, 'ObservableProperty attributes of ProviderMdib/MdibBase')
    n_as = 0
    for n in g.real_nodes():
        if n.kind == 'stmt' and isinstance(n.stmt, ast.Assign):
            for t in n.stmt.targets:
                if isinstance(t, ast.Attribute) and dotted(t.value) == 'self' and t.attr in obs:
                    n_as += 1
                    ok = bool(pts) and all(g.dominates(p, n) for p, _ in pts) and \
                        (unparse(pts[0][0].stmt.targets[0]) if isinstance(pts[0][0].stmt, ast.Assign) else '') != ''
                    ctx.ob('C03.R2', f'observable {t.attr}', ok,
                           f'self.{t.attr} (observers send reports / notifications) is assigned only after a '
                           f'completed process_transaction', fi=tm, node=n.stmt)
    ctx.floor('C03.R2', n_as, 10, 'observable assignments in _transaction_manager')
    # the error flag suppresses the commit
    gated = bool(pts) and all(('self.current_transaction.error', False) in g.facts_at(p) for p, _ in pts)
    ctx.ob('C03.R2', 'error flag gates commit', gated,
           'process_transaction runs only where current_transaction.error is known to be false', fi=tm)

    # ------------------------------------------------------------------ R3
    producers = {'old': [], 'new': []}
    both_none = []
    for fi in repo.funcs.values():
        if fi.module.name != TR:
            continue
        for c in calls_in(fi.node, 'TransactionItem'):
            args = {}
            for i, a in enumerate(c.args):
                args[('old', 'new')[i]] = a
            for kw in c.keywords:
                args[kw.arg] = kw.value
            nn = [k for k in ('old', 'new') if isinstance(args.get(k), ast.Constant) and args[k].value is None]
            for k in nn:
                producers[k].append(f'{fi.qual}:{c.lineno}')
            if len(nn) == 2:
                both_none.append((fi, c))
    ctx.ob('C03.R3', 'no (None, None) item', not both_none,
           'no producer builds TransactionItem(None, None), so one field being None implies the other is set',
           witness=producers, where=TR)
    n_deref = 0
    for q in sorted(closure_quals):
        fi = repo.funcs[q]
        n_deref += _check_none_derefs(ctx, fi, producers)
    ctx.floor('C03.R3', n_deref, 12, 'dereferences of TransactionItem.old/.new in the commit closure')

    # ------------------------------------------------------------------ R7 a rejected API call leaves the transaction as it was
    ctx.rule('C03.R7', 'validate before mutate: in a transaction API method no explicit raise is reachable after the method '
                       'has changed the transaction (a rejected call has no partial effect)')
    by_cls = {}
    for fi in api_funcs:
        by_cls.setdefault(fi.cls.qual, []).append(fi)

    def _mutates_directly(n, g_):
        st = n.stmt
        if n.kind == 'stmt' and isinstance(st, (ast.Assign, ast.Delete)):
            for t in st.targets:
                if isinstance(t, ast.Subscript):
                    tv = g_.origin_text(n, t.value)     # `d = self._state_updates; d[k] = ..` counts
                    if '_updates' in tv and tv.startswith('self.'):
                        return True
        return False
    summary = {}

    def _summary(cls_q, name, depth=0):
        """(mutates the transaction?, [explicit raise guards as symbolic literal sets]) of method `name` resolved on cls_q."""
        key = (cls_q, name)
        if key in summary:
            return summary[key]
        summary[key] = (False, [])
        f = repo.resolve_method(cls_q, name)
        if f is None or f.module.name != TR or depth > 3:
            return summary[key]
        gf = cfg_of(f)
        mut = any(_mutates_directly(n, gf) for n in gf.real_nodes())
        # `raise NotImplementedError` marks a case the author states cannot happen (exhaustive classification): not a rejection
        guards = [frozenset(gf.facts_symbolic(n)) for n in gf.nodes if n.kind == 'raisestmt' and n.stmt.exc is not None
                  and 'NotImplementedError' not in unparse(n.stmt.exc)]
        for n in gf.real_nodes():
            for c in n.calls():
                if isinstance(c.func, ast.Attribute) and unparse(c.func.value) == 'self':
                    m2, g2 = _summary(cls_q, c.func.attr, depth + 1)
                    mut = mut or m2
                    guards = guards + [frozenset()] * len(g2)   # guards of nested callees: not comparable, kept as unconditional
        summary[key] = (mut, guards)
        return summary[key]
    n_api = 0
    for cq in classes:
        for fi in [f for c in repo.mro(cq) if c in by_cls for f in by_cls[c]]:
            if fi.name.startswith('_') or repo.resolve_method(cq, fi.name) is not fi:
                continue
            g7 = cfg_of(fi)
            muts, raisers = [], []
            for n in g7.real_nodes():
                if _mutates_directly(n, g7):
                    muts.append((n, 'store'))
                for c in n.calls():
                    if isinstance(c.func, ast.Attribute) and unparse(c.func.value) == 'self':
                        m2, g2 = _summary(cq, c.func.attr)
                        if m2:
                            muts.append((n, f'self.{c.func.attr}()'))
                        # a callee can reject only what the caller of THIS method handed in: arguments computed from the MDIB
                        # tables (e.g. handles of states just looked up) were accepted before
                        from_caller = any('$' in g7.symbolic_text(n, a) and 'self._mdib' not in g7.symbolic_text(n, a)
                                          for a in list(c.args) + [k.value for k in c.keywords])
                        if g2 and from_caller:
                            raisers.append((n, f'self.{c.func.attr}()', g2, c))
            for n in g7.nodes:
                if n.kind == 'raisestmt' and n.stmt.exc is not None and 'NotImplementedError' not in unparse(n.stmt.exc):
                    raisers.append((n, 'raise', None, None))

            def _rolled_back(rn, mn):
                """The raising call sits in a try whose catch-all handler removes what the mutation mn stored and re-raises."""
                if mn.kind != 'stmt' or not isinstance(mn.stmt, ast.Assign):
                    return False
                stored = unparse(mn.stmt.targets[0])
                for t, part in rn.trys:
                    if part != 'body':
                        continue
                    for h in t.handlers:
                        if not (h.type is None or 'Exception' in unparse(h.type)):
                            continue
                        dels = [unparse(x) for st_ in h.body if isinstance(st_, ast.Delete) for x in st_.targets]
                        reraise = any(isinstance(st_, ast.Raise) and st_.exc is None for st_ in h.body)
                        if stored in dels and reraise:
                            return True
                return False
            if not muts:
                continue
            n_api += 1
            bad = []
            for rn, what, guards, call in raisers:
                for mn, mwhat in muts:
                    if not g7.path_exists(mn, rn, normal_only=True):
                        continue
                    if guards is not None and call is not None and _prevalidated(g7, fi, rn, call, guards):
                        continue
                    if _rolled_back(rn, mn):
                        continue
                    bad.append(f'{mwhat} at line {mn.lineno} can be followed by {what} at line {rn.lineno}')
                    break
            key7 = f'{fi.cls.name}.{fi.name}' if repo.resolve_method(cq, fi.name).cls.qual == fi.cls.qual else fi.name
            ctx.ob('C03.R7', f'{key7} on {cq.rsplit(".", 1)[1]}', not bad,
                   f'{fi.cls.name}.{fi.name}: every check that can reject the call runs before the transaction is changed'
                   if not bad else
                   f'{fi.cls.name}.{fi.name} can reject a call after it has already changed the transaction '
                   f'({"; ".join(bad[:3])}): when the application handles the exception inside the transaction body the '
                   f'accepted part is committed - the rejected call had an effect', fi=fi, witness=bad)
    ctx.floor('C03.R7', n_api, 10, 'transaction API methods that change the transaction')

    # ------------------------------------------------------------------ R6 unique keys are checked when the call is made
    ctx.rule('C03.R6', 'a new object is accepted into a transaction only after its unique key was checked against the table')
    unique_idx = {'descriptions': 'handle', 'states': 'descriptor_handle', 'context_states': 'handle'}
    from .c10 import mk_context_state_checks_handles
    mk_context_state_checks_handles(ctx, 'C03.R6')
    n_new = 0
    for fi in api_funcs:
        g = cfg_of(fi)
        src = xsrc(fi)
        for n, c in g.nodes_calling('TransactionItem'):
            args = {}
            for i, a in enumerate(c.args):
                args[('old', 'new')[i]] = a
            for kw in c.keywords:
                args[kw.arg] = kw.value
            old = args.get('old')
            if not (isinstance(old, ast.Constant) and old.value is None):
                # old comes from a lookup: the None case is "lookup found nothing" on the unique index
                continue
            n_new += 1
            # which tables can the new object go to?
            new = unparse(args.get('new'))
            tables = []
            if 'descriptor_updates' in unparse(getattr(n.stmt, 'targets', [ast.Constant(value='')])[0]):
                tables = ['descriptions']
            else:
                ctxonly = fi.cls is not None and fi.cls.name == 'ContextStateTransaction'
                tables = ['context_states'] if ctxonly else ['states', 'context_states']
            missing = []
            for t in tables:
                idx = f'{t}.{unique_idx[t]}'
                # what the membership tests / lookups of this function can refer to, locals written out (a table or an
                # index chosen by an if/else into a local counts for every value it can take: cfg.value_cases)
                checked = any(idx in t for t in _lookup_texts(g, fi))
                raises = any(isinstance(x, ast.Raise) for x in walk_no_nested(fi.node))
                generated = t == 'context_states' and 'uuid.uuid4().hex' in src and fi.name == 'mk_context_state'
                if not (checked and raises) and not generated:
                    missing.append(idx)
            ctx.ob('C03.R6', f'{fi.cls.name}.{fi.name}: new {new}', not missing,
                   f'{fi.cls.name}.{fi.name}: the unique key of the new object is checked against the table when the call '
                   f'is made' if not missing else
                   f'{fi.cls.name}.{fi.name} accepts a new object without checking the unique index {missing}: a duplicate is '
                   f'only noticed by the KeyError of the table during the commit, after mdib_version was raised and '
                   f'earlier items were written (half-applied commit)', fi=fi, node=c)
    ctx.floor('C03.R6', n_new, 4, 'producers of TransactionItem(None, new)')

    # ------------------------------------------------------------------ R4
    # (i) mk_copy is deep
    mk = repo.func('sdc11073.mdib.containerbase.ContainerBase.mk_copy')
    deep, why = _mk_copy_is_deep(mk)
    ctx.ob('C03.R4', 'mk_copy deep', deep, 'ContainerBase.mk_copy ' + why, fi=mk)
    # (ii) getters
    getter_funcs = [f for f in api_funcs if not f.name.startswith('_')]
    eg = ['sdc11073.mdib.mdibbase.EntityGetter._mk_entity', 'sdc11073.mdib.mdibbase.EntityGetter.by_handle',
          'sdc11073.mdib.mdibbase.EntityGetter.by_node_type', 'sdc11073.mdib.mdibbase.EntityGetter.by_parent_handle',
          'sdc11073.mdib.mdibbase.EntityGetter.items', 'sdc11073.mdib.mdibbase.MdibBase.get_entity',
          'sdc11073.mdib.mdibbase.MdibBase.get_context_entity',
          'sdc11073.mdib.providermdib.ProviderEntityGetter.new_entity']
    for q in eg:
        if q in repo.funcs:
            getter_funcs.append(repo.funcs[q])
    n_ret = 0
    for fi in getter_funcs:
        res = Resident(fi.node, self_is_mdib=fi.cls is not None and
                       'sdc11073.mdib.mdibbase.MdibBase' in repo.mro(fi.cls.qual))
        for n in walk_no_nested(fi.node):
            if isinstance(n, ast.Return) and n.value is not None:
                n_ret += 1
                leaks = _resident_parts(n.value, res)
                g = cfg_of(fi)
                ctx.ob('C03.R4', f'return {g.canon_text(g.holder(n), n.value)}', not leaks,
                       f'{fi.name} returns a copy / a new object' if not leaks else
                       f'{fi.name} hands out the object(s) stored in the MDIB without a copy: '
                       f'{[unparse(x) for x in leaks]}; changing them changes the MDIB without a commit',
                       fi=fi, node=n, witness={'resident_locals': sorted(res.tainted)})
    ctx.floor('C03.R4', n_ret, 12, 'return statements of transaction / entity getters')
    # (iii) transaction results
    n_app = 0
    for q in sorted(closure_quals):
        fi = repo.funcs[q]
        assigns = local_assignments(fi.node)
        for c in calls_in(fi.node):
            nm = call_name(c)
            if nm not in ('append', 'extend') or not isinstance(c.func, ast.Attribute):
                continue
            tgt = unparse(c.func.value)
            # result lists: fields of the TransactionResult (proc.*), lists this function returns, lists that stand for a
            # TransactionResult field in a loop over (updates, proc.<field>) pairs
            returned = {unparse(r.value) for r in walk_no_nested(fi.node) if isinstance(r, ast.Return) and r.value is not None}
            gq = cfg_of(fi)
            hq = gq.holder(c)
            origin = gq.origin_text(hq, c.func.value) if hq is not None else tgt   # a local alias of proc.<field>
            if not (tgt.startswith('proc.') or origin.startswith('proc.') or tgt in returned or tgt == 'dest_list'):
                continue
            n_app += 1
            arg = c.args[0]
            ok = _is_copy_expr(arg, assigns)
            g = cfg_of(fi)
            ctx.ob('C03.R4' if ok else 'C03.R5', f'{tgt}.{nm}({g.canon_text(g.holder(c), arg)})', ok,
                   f'{tgt}.{nm}: published element is a copy' if ok else
                   f'{tgt}.{nm}({unparse(arg)}) publishes an object that the caller / the MDIB still holds '
                   f'(no copy): later changes alter what this commit published', fi=fi, node=c)
    ctx.floor('C03.R4', n_app, 9, 'appends to TransactionResult lists')
    # (iv) periodic store
    pr = 'sdc11073.provider.periodicreports.PeriodicReportsHandler'
    st = repo.func(f'{pr}._store_for_periodic_report')
    assigns = local_assignments(st.node)
    n_st = 0
    for c in calls_in(st.node, 'PeriodicStates'):
        n_st += 1
        ok = len(c.args) >= 2 and _is_copy_expr(c.args[1], assigns)
        ctx.ob('C03.R4', f'periodic store {unparse(c)}', ok,
               'states retained for periodic reports are copies', fi=st, node=c)
    ctx.floor('C03.R4', n_st, 1, 'PeriodicStates constructions in _store_for_periodic_report')
    loop = repo.func(f'{pr}._periodic_reports_send_loop')
    res = Resident(loop.node)
    n_lk = 0
    for c in calls_in(loop.node, 'PeriodicStates'):
        n_lk += 1
        ok = len(c.args) >= 2 and not res.is_resident(c.args[1])
        ctx.ob('C03.R4', f'periodic loop {unparse(c)}', ok,
               'states put into a periodic report are copies of the MDIB states' if ok else
               'states put into a periodic report are the objects stored in the MDIB (no copy)', fi=loop, node=c,
               witness={'resident_locals': sorted(res.tainted)})
    ctx.floor('C03.R4', n_lk, 5, 'PeriodicStates constructions in _periodic_reports_send_loop')

    from . import common
    common.copies_are_deep(ctx, 'C03.R4', with_mk_copy=False)
    common.written_entities_are_copied(ctx, 'C03.R4')
    common.entity_getters_hand_out_copies(ctx, 'C03.R4')   # incl. Entity.update / MultiStateEntity.update
    ctx.borrow('C12', {'C12.R1'}, 'C03.R4', why='a parsed container shares no default object with other containers')
    # the pre-commit hook is part of the transaction body: what a role provider raises there aborts the transaction (R2 shows that
    # an exception at that point commits nothing) - the product does not swallow it
    bp = repo.classes.get('sdc11073.provider.baseproduct.BaseProduct')
    if bp is not None:
        pre = bp.methods.get('_on_pre_commit')
        todo_, seen_, swallowed = [pre] if pre is not None else [], set(), []
        while todo_:
            f_ = todo_.pop()
            if f_ is None or f_.qual in seen_:
                continue
            seen_.add(f_.qual)
            for t_ in [x for x in walk_no_nested(f_.node) if isinstance(x, ast.Try)]:
                for h in t_.handlers:
                    wide_ = h.type is None or unparse(h.type).split('.')[-1] in ('Exception', 'BaseException')
                    if wide_ and not any(isinstance(x, ast.Raise) for b in h.body for x in ast.walk(b)):
                        swallowed.append(f'{f_.name}: except {unparse(h.type) if h.type else ""}')
            for c in calls_in(f_.node):
                if isinstance(c.func, ast.Attribute) and unparse(c.func.value) == 'self':
                    todo_.append(bp.methods.get(c.func.attr))
        ctx.ob('C03.R2', 'pre-commit failures abort the transaction', pre is not None and not swallowed,
               'BaseProduct._on_pre_commit lets an exception of a role provider reach the transaction manager' if not swallowed else
               f'BaseProduct._on_pre_commit swallows exceptions ({swallowed}): a role provider that raises for the data of this '
               f'transaction no longer aborts it - the body and the half-finished additions of the provider are committed', fi=pre)
    # a log call that raises in the middle of the commit leaves it half applied
    common.log_templates_are_constant(ctx, 'C03.R3', ['sdc11073.mdib.transactions', 'sdc11073.mdib.providermdib', 'sdc11073.mdib.mdibbase',
                                                      'sdc11073.multikey'])
    common.no_mutation_while_iterating(ctx, 'C03.R3', ['sdc11073.mdib.transactions', 'sdc11073.mdib.providermdib', 'sdc11073.mdib.mdibbase'])
    # ------------------------------------------------------------------ R5
    hs = repo.func(f'{TR}._TransactionBase._handle_state_updates')
    for c in calls_in(hs.node):
        if call_name(c) in ('add_object_no_lock', 'add_object') and c.args:
            ok = _is_copy_expr(c.args[0], local_assignments(hs.node))
            g = cfg_of(hs)
            ctx.ob('C03.R5', f'{call_name(c)}({g.canon_text(g.holder(c), c.args[0])})', ok,
                   'the state object stored in the table is a fresh copy' if ok else
                   'the state object stored in the table is the very object that get_state/add_state handed to / took '
                   'from the caller: changing it after the transaction changes the MDIB without a commit', fi=hs, node=c)
    uo = repo.func('sdc11073.mdib.containerbase.ContainerBase._update_from_other')
    deep = any(call_name(c) == 'deepcopy' for c in calls_in(uo.node))
    ctx.ob('C03.R5', 'update_from_other_container copies deeply', deep,
           '_update_from_other deep-copies the property values' if deep else
           '_update_from_other copies property values one level only (copy.copy): after a descriptor update / a '
           'consumer-side update the table object shares nested values with the source object', fi=uo)


def _prevalidated(g, fi, call_node, call, guards):
    """The raising, mutating callee is called in a loop `for x in XS: self.m(x, ..)`; every condition under which the callee
    raises (on its first parameter) is raised for by an earlier loop over the same XS that changes nothing: all elements are
    checked before any is written."""
    loops = [lp for lp in call_node.loops if isinstance(lp, ast.For) and isinstance(lp.target, ast.Name)]
    if not loops or not call.args or not isinstance(call.args[0], ast.Name) or call.args[0].id != loops[-1].target.id:
        return False
    it = unparse(loops[-1].iter)
    head = next((h for h in g.nodes if h.kind == 'for' and h.stmt is loops[-1]), None)
    checked = []
    for h in g.nodes:
        if h.kind == 'for' and h.stmt is not loops[-1] and unparse(h.stmt.iter) == it and isinstance(h.stmt.target, ast.Name) \
                and head is not None and g.dominates(h, head):
            body_nodes = [n for n in g.real_nodes() if h.stmt in n.loops]
            if any(n.kind == 'stmt' and isinstance(n.stmt, (ast.Assign, ast.Delete)) and
                   any(isinstance(t, ast.Subscript) for t in getattr(n.stmt, 'targets', [])) for n in body_nodes):
                continue
            for n in g.nodes:
                if n.kind == 'raisestmt' and h.stmt in n.loops:
                    lits = {(t.replace(f'elem({g.symbolic_text(h, h.stmt.iter)})', '$E'), p) for t, p in g.facts_symbolic(n)}
                    checked.append(lits)
    if not checked:
        return False
    for gset in guards:
        lits = {(t.replace('$1', '$E'), p) for t, p in gset}
        if not any(c <= lits for c in checked):
            return False
    return True


_lookup_cache = {}


def _lookup_texts(g, fi):
    """Texts of everything an `in` / `not in` test or a get_one / get call of fi can be applied to (locals resolved)."""
    key = id(fi.node)
    if key in _lookup_cache:
        return _lookup_cache[key]
    out = set()
    for n in g.real_nodes():
        for x in n.walk():
            exprs = []
            if isinstance(x, ast.Compare) and any(isinstance(o, (ast.In, ast.NotIn)) for o in x.ops):
                exprs = list(x.comparators)
            elif isinstance(x, ast.Call) and call_name(x) in ('get_one', 'get') and isinstance(x.func, ast.Attribute):
                exprs = [x.func.value]
            for e in exprs:
                out.add(unparse(e))
                for _facts, leaf in g.value_cases(n, e):
                    out.add(unparse(leaf))
    _lookup_cache[key] = out
    return out


# ---------------------------------------------------------------------- helpers
def norm_stmt(node):
    return ' '.join(unparse(node).split())[:120]


def observable_names(repo, cls_q):
    out = set()
    for c in repo.mro(cls_q):
        for name, val in repo.classes[c].assigns.items():
            if isinstance(val, ast.Call) and call_name(val) == 'ObservableProperty':
                out.add(name)
    return out


def _resident_parts(e, res):
    """Sub-expressions of a returned expression that are resident (looks into constructor arguments)."""
    if res.is_resident(e):
        return [e]
    out = []
    if isinstance(e, ast.Call) and call_name(e) not in ('mk_copy', 'deepcopy', 'len', 'str', 'repr', 'bool', 'isinstance'):
        nm = call_name(e) or ''
        if nm[:1].isupper() or nm == 'cast':  # constructor wrapping values
            for a in list(e.args) + [k.value for k in e.keywords]:
                out.extend(_resident_parts(a, res))
    elif isinstance(e, (ast.List, ast.Tuple)):
        for a in e.elts:
            out.extend(_resident_parts(a, res))
    elif isinstance(e, (ast.ListComp, ast.GeneratorExp, ast.SetComp)):
        out.extend(_resident_parts(e.elt, res))
    elif isinstance(e, ast.DictComp):
        out.extend(_resident_parts(e.value, res))
    elif isinstance(e, ast.IfExp):
        out.extend(_resident_parts(e.body, res) + _resident_parts(e.orelse, res))
    return out


def _is_copy_expr(e, assigns, depth=4):
    if isinstance(e, ast.Call) and call_name(e) in ('mk_copy', 'deepcopy'):
        return True
    if isinstance(e, (ast.ListComp, ast.GeneratorExp)):
        return _is_copy_expr(e.elt, assigns, depth)
    if isinstance(e, (ast.List, ast.Tuple)):
        return all(_is_copy_expr(x, assigns, depth) for x in e.elts)
    if isinstance(e, ast.Name) and depth > 0 and e.id in assigns:
        vals = assigns[e.id]
        # a list that is only filled through append(copy) counts as list of copies
        real = [v for v in vals if not (isinstance(v, ast.List) and not v.elts)]
        if not real:
            return True  # empty list literal, filled by checked appends
        return all(_is_copy_expr(v, assigns, depth - 1) for v in real)
    if isinstance(e, ast.Call) and call_name(e) == '_handle_state_updates':
        return True  # its own appends are checked
    return False


def _mk_copy_is_deep(fi):
    ret_names = set()
    for n in walk_no_nested(fi.node):
        if isinstance(n, ast.Return) and isinstance(n.value, ast.Name):
            ret_names.add(n.value.id)
    assigns = local_assignments(fi.node)
    for nm in ret_names:
        for v in assigns.get(nm, []):
            if isinstance(v, ast.Call) and call_name(v) == 'deepcopy' and v.args and unparse(v.args[0]) == 'self':
                return True, 'is copy.deepcopy(self)'
    from engine.deps import Deps
    dp = Deps(fi.node)

    def none_test(t):
        if isinstance(t, ast.BoolOp):
            return all(none_test(v) for v in t.values)
        if isinstance(t, ast.UnaryOp) and isinstance(t.op, ast.Not):
            return none_test(t.operand)
        return isinstance(t, ast.Compare) and len(t.ops) == 1 and isinstance(t.ops[0], (ast.Is, ast.IsNot)) and \
            isinstance(t.comparators[0], ast.Constant) and t.comparators[0].value is None
    for n in walk_no_nested(fi.node):
        # the loop over all container properties - directly, or over a (generator) expression computed from them
        if isinstance(n, ast.For) and 'call:sorted_container_properties' in dp.sources(n.iter):
            g_ok = False
            for c in calls_in(n, 'setattr'):
                if len(c.args) == 3 and isinstance(c.args[0], ast.Name) and c.args[0].id in ret_names and \
                        isinstance(c.args[2], ast.Call) and call_name(c.args[2]) == 'deepcopy':
                    g_ok = True
            # only guards on None are allowed - inside the loop and in the expression that feeds it
            tests = [t.test for t in walk_no_nested(n) if isinstance(t, (ast.If, ast.IfExp, ast.While))]
            for e in dp.reach(n.iter):
                for x in ast.walk(e):
                    if isinstance(x, ast.comprehension):
                        tests += x.ifs
                    if isinstance(x, ast.Call) and call_name(x) == 'filter':
                        g_ok = False
            if not all(none_test(t) for t in tests):
                g_ok = False
            if any(isinstance(t, (ast.Break, ast.Return)) for t in walk_no_nested(n)):
                g_ok = False
            if g_ok:
                return True, 'deep-copies every container property value into the copy'
    return False, ('is a shallow copy: nested values (MetricValue, CoreData, lists) stay shared between the MDIB object '
                   'and the copy handed out, so changing them changes the MDIB even if the transaction is aborted')


def _check_none_derefs(ctx, fi, producers):  # noqa: C901, PLR0912
    """Every X.old.attr / X.new.attr (or alias.attr) in fi must be guarded."""
    g = cfg_of(fi)
    assigns = local_assignments(fi.node)
    cand = set()
    for nm, vals in assigns.items():
        for v in vals:
            if isinstance(v, ast.Attribute) and v.attr in ('old', 'new') and isinstance(v.value, ast.Name):
                cand.add(nm)
    # aliases of aliases (`ref = old_state`), to a fixed point
    grown = True
    while grown:
        grown = False
        for nm, vals in assigns.items():
            if nm not in cand and any(isinstance(v, ast.Name) and v.id in cand for v in vals):
                cand.add(nm)
                grown = True
    rdefs = {nm: g.reaching_defs(nm) for nm in cand}

    def sources_at(node, nm, depth=3):
        """For every binding of nm that reaches node and aliases a TransactionItem field: (def node, field, '<item>.<field>',
        names on the alias chain); None when no binding does."""
        out = []
        for d in rdefs[nm].get(node.id, ()):
            v = _bound_value(d, nm)
            if isinstance(v, ast.Attribute) and v.attr in ('old', 'new') and isinstance(v.value, ast.Name):
                out.append((d, v.attr, unparse(v), [nm]))
            elif isinstance(v, ast.Name) and v.id in cand and depth > 0:
                inner = sources_at(d, v.id, depth - 1)
                if inner is not None:
                    out.extend((d, f, t, [nm] + chain) for _d2, f, t, chain in inner)
            # any other binding (a copy, a lookup result ..) is not a TransactionItem field: nothing to guard
        return out or None

    def alias_at(node, nm):
        """(field, item text) if every binding of nm reaching node is an alias of one `<item>.old|new`, else None."""
        src = sources_at(node, nm)
        if src is None or len({(f, t) for _d, f, t, _c in src}) != 1:
            return None
        return src[0][1], src[0][2]

    count = 0
    for n in g.real_nodes():
        for a in n.walk():
            if not isinstance(a, ast.Attribute):
                continue
            base = a.value
            field = None
            if isinstance(base, ast.Attribute) and base.attr in ('old', 'new') and isinstance(base.value, ast.Name):
                field, txt, item = base.attr, unparse(base), unparse(base.value)
                other = f'{item}.{"new" if field == "old" else "old"}'
            elif isinstance(base, ast.Name) and base.id in cand and isinstance(base.ctx, ast.Load) and \
                    alias_at(n, base.id) is None and sources_at(n, base.id) is not None:
                # bound to different fields on different paths (`ref = old if old is not None else new`): every binding
                # must be made where its source is known to be set, or where the other field of the item is None
                srcs = sources_at(n, base.id)
                if not all(producers[f] for _d, f, _t, _c in srcs):
                    continue
                count += 1
                bad = []
                for d, f, t, chain in srcs:
                    fd = g.facts_at(d)
                    item = t.rsplit('.', 1)[0]
                    other_t = f'{item}.{"new" if f == "old" else "old"}'
                    names = [t] + [c for c in chain if c != base.id]
                    others = [other_t] + [k for k in cand if k not in chain and alias_at(d, k) == (('new' if f == 'old' else 'old'), other_t)]
                    if not (any((f'{x} is None', False) in fd or (x, True) in fd for x in names) or
                            any((f'{o} is None', True) in fd for o in others)):
                        bad.append(f'{t} bound at line {d.lineno}')
                ctx.ob('C03.R3', f'deref {unparse(a)}', not bad,
                       f'{unparse(a)}: every binding of {base.id} is made where its source is known to be set' if not bad else
                       f'{unparse(a)} dereferences {base.id}, which can be a TransactionItem field that producers set to None: '
                       f'{bad}', fi=fi, node=a)
                continue
            elif isinstance(base, ast.Name) and base.id in cand and isinstance(base.ctx, ast.Load) and \
                    alias_at(n, base.id) is not None:
                field, txt = alias_at(n, base.id)[0], base.id
                other_field = 'new' if field == 'old' else 'old'
                other = next((k for k in cand if k != base.id and alias_at(n, k) is not None
                              and alias_at(n, k)[0] == other_field), None)
            else:
                continue
            if not producers[field]:
                continue
            count += 1
            facts = list(g.facts_at(n))
            # short-circuit operands and comprehension filters that precede the dereference
            cur, child = getattr(a, '_parent', None), a
            while cur is not None and not isinstance(cur, ast.stmt):
                if isinstance(cur, ast.BoolOp):
                    idx = next((i for i, v in enumerate(cur.values) if v is child), None)
                    if idx:
                        from engine.cfg import _atoms
                        for v in cur.values[:idx]:
                            _atoms(v, isinstance(cur.op, ast.And), facts)
                if isinstance(cur, (ast.ListComp, ast.GeneratorExp, ast.SetComp, ast.DictComp)):
                    from engine.cfg import _atoms
                    for gen in cur.generators:
                        for cond in gen.ifs:
                            _atoms(cond, True, facts)
                if isinstance(cur, ast.IfExp) and child is not cur.test:
                    from engine.cfg import _atoms
                    _atoms(cur.test, child is cur.body, facts)
                child, cur = cur, getattr(cur, '_parent', None)
            ok = (f'{txt} is None', False) in facts or (txt, True) in facts or \
                (other is not None and (f'{other} is None', True) in facts)
            if not ok and isinstance(base, ast.Name):
                # path-sensitive: every path from each aliasing binding to this use passes a None guard
                from engine.cfg import _atoms
                guards = []
                for b in g.nodes:
                    if b.kind == 'branch' and b.label in (True, False):
                        fs = []
                        _atoms(b.test, b.label, fs)
                        if (f'{txt} is None', False) in fs or (txt, True) in fs or \
                                (other is not None and (f'{other} is None', True) in fs):
                            guards.append(b)
                ok = True
                for d in rdefs[base.id].get(n.id, ()):
                    v = _bound_value(d, base.id)
                    if isinstance(v, ast.Attribute) and v.attr in ('old', 'new') and isinstance(v.value, ast.Name):
                        kills = [x for x in g.nodes if x is not d and any(
                            x in ds for ds in rdefs[base.id].values()) and x is not n]
                        if g.path_exists(d, n, avoid=guards + kills):
                            ok = False
            if not ok and isinstance(base, ast.Name):
                # the alias is bound behind a merge: <alias> = <item>.<field>, where <item> is either a TransactionItem that
                # was just constructed with that field set (nothing to guard) or one that was looked up and whose field is
                # tested on its own path (`elif item.new is None: continue`)
                from engine.cfg import _atoms
                srcs = sources_at(n, base.id) or []
                ok = bool(srcs)
                for d, f, t, _chain in srcs:
                    item = t.rsplit('.', 1)[0]
                    idefs = g.reaching_defs(item).get(d.id, set())
                    iguards = []
                    for b in g.nodes:
                        if b.kind == 'branch' and b.label in (True, False):
                            fs = []
                            _atoms(b.test, b.label, fs)
                            if (f'{t} is None', False) in fs or (t, True) in fs:
                                iguards.append(b)
                    if not idefs:
                        ok = False
                    for dj in idefs:
                        v = _bound_value(dj, item)
                        if isinstance(v, ast.Call) and call_name(v) == 'TransactionItem':
                            pos = {'old': 0, 'new': 1}[f]
                            arg = v.args[pos] if len(v.args) > pos else next((k.value for k in v.keywords if k.arg == f), None)
                            if arg is not None and not (isinstance(arg, ast.Constant) and arg.value is None) and \
                                    not (isinstance(arg, ast.Name) and arg.id in cand):
                                continue   # constructed with the field set
                        if g.path_exists(dj, d, avoid=iguards + [x for x in idefs if x is not dj]):
                            ok = False
            ctx.ob('C03.R3', f'deref {unparse(a)}', ok,
                   f'{unparse(a)}: guarded against {txt} being None' if ok else
                   f'{unparse(a)} dereferences TransactionItem.{field} although producers store None there '
                   f'({producers[field][0]}); the commit would fail half-way with mdib_version already raised',
                   fi=fi, node=a, witness={'facts': facts[:8]})
    return count


def _bound_value(def_node, name):
    st = def_node.stmt
    if def_node.kind == 'stmt' and isinstance(st, ast.Assign):
        for t in st.targets:
            if isinstance(t, ast.Name) and t.id == name:
                return st.value
            if isinstance(t, (ast.Tuple, ast.List)) and isinstance(st.value, (ast.Tuple, ast.List)) and \
                    len(t.elts) == len(st.value.elts):
                for i, e in enumerate(t.elts):
                    if isinstance(e, ast.Name) and e.id == name:
                        return st.value.elts[i]
    return None


# ---------------------------------------------------------------------- self-test seeds
from selftest import seed  # noqa: E402

_T = 'src/sdc11073/mdib/transactions.py'
_P = 'src/sdc11073/mdib/providermdib.py'
_B = 'src/sdc11073/mdib/mdibbase.py'
SEEDS = [
    seed('MultiStateEntity.update refreshes from the MDIB object itself (the defect repaired by 4191469)', 'C03.R4',
         ('src/sdc11073/mdib/mdibbase.py', "                state.update_from_other_container(copy.deepcopy(orig))", "                state.update_from_other_container(orig)")),
    seed('get_descriptor bumps the version of the MDIB object', 'C03.R1',
         (_T, "        descriptor_container = orig_descriptor_container.mk_copy()\n        descriptor_container.increment_descriptor_version()",
          "        descriptor_container = orig_descriptor_container.mk_copy()\n        orig_descriptor_container.increment_descriptor_version()\n        descriptor_container.increment_descriptor_version()")),
    seed('remove_descriptor removes from the table at once', 'C03.R1',
         (_T, "        self.descriptor_updates[descriptor_handle] = TransactionItem(orig_descriptor_container, None)",
          "        self._mdib.descriptions.remove_object_no_lock(orig_descriptor_container)\n        self.descriptor_updates[descriptor_handle] = TransactionItem(orig_descriptor_container, None)")),
    seed('disassociate_all writes into the MDIB state', 'C03.R1',
         (_T, "                transaction_state = self.get_context_state(old_state.Handle)\n                transaction_state.ContextAssociation = pm_types.ContextAssociation.DISASSOCIATED",
          "                transaction_state = self.get_context_state(old_state.Handle)\n                old_state.ContextAssociation = pm_types.ContextAssociation.DISASSOCIATED\n                transaction_state.ContextAssociation = pm_types.ContextAssociation.DISASSOCIATED")),
    seed('observable reset in finally (runs on abort)', 'C03.R2',
         (_P, "            finally:\n                self.current_transaction = None",
          "            finally:\n                self.transaction = None\n                self.current_transaction = None")),
    seed('commit although error flag is set', 'C03.R2',
         (_P, "                if self.current_transaction.error:\n                    self._logger.info('transaction_manager: transaction without updates!')\n                else:",
          "                if self.current_transaction.error:\n                    self._logger.info('transaction_manager: transaction without updates!')\n                if True:")),
    seed('_handle_state_updates: None check removed', 'C03.R3',
         (_T, "            if transaction_item.new is None:\n                continue  # state was deleted, there is nothing to add or to report\n", "")),
    seed('_update_corresponding_state: None check removed', 'C03.R3',
         (_T, "                    if new_state is None:\n                        continue  # the state is deleted in this transaction\n", "")),
    seed('metric commit: None check on new dropped', 'C03.R3',
         (_T, "                if tr_item.new is not None and tr_item.new.MetricValue is not None:", "                if tr_item.new.MetricValue is not None:")),
    seed('mk_copy shallow again', 'C03.R4',
         ('src/sdc11073/mdib/containerbase.py', "                setattr(copied, cprop._local_var_name, copy.deepcopy(value))  # noqa: SLF001", "                setattr(copied, cprop._local_var_name, copy.copy(value))  # noqa: SLF001")),
    seed('get_context_state returns the MDIB object', 'C03.R4',
         (_T, "        mdib_state = self._mdib.context_states.handle.get_one(context_state_handle, allow_none=False)\n        copied_state = mdib_state.mk_copy()",
          "        mdib_state = self._mdib.context_states.handle.get_one(context_state_handle, allow_none=False)\n        copied_state = mdib_state")),
    seed('_mk_entity: shallow copy of the state', 'C03.R4',
         (_B, "        return Entity(self._mdib, copy.deepcopy(descriptor), copy.deepcopy(state))", "        return Entity(self._mdib, copy.deepcopy(descriptor), copy.copy(state))")),
    seed('get_entity without copies', 'C03.R4',
         (_B, "        return Entity(self, copy.deepcopy(descr), copy.deepcopy(state))", "        return Entity(self, descr, state)")),
    seed('result publishes the table object', 'C03.R',
         (_T, "            updates_list.append(transaction_item.new.mk_copy(copy_node=False))", "            updates_list.append(transaction_item.new)")),
    seed('periodic store keeps the objects', 'C03.R4',
         ('src/sdc11073/provider/periodicreports.py', "        copied_updates = [s.mk_copy() for s in state_updates]", "        copied_updates = list(state_updates)")),
    seed('periodic loop reads without copy', 'C03.R4',
         ('src/sdc11073/provider/periodicreports.py', "                alert_states = [self._mdib.states.descriptor_handle.get_one(h).mk_copy() for h in alerts]", "                alert_states = [self._mdib.states.descriptor_handle.get_one(h) for h in alerts]")),
    seed('control: get_state refactored', 'C03.R4',
         (_T, "        mdib_state = self._mdib.states.descriptor_handle.get_one(descriptor_handle, allow_none=False)\n        if not self._is_correct_state_type(mdib_state):",
          "        table = self._mdib.states\n        mdib_state = table.descriptor_handle.get_one(descriptor_handle, allow_none=False)\n        if not self._is_correct_state_type(mdib_state):"), control=True),
]

SEEDS += [
    seed('context add_state: duplicate handle check dropped', 'C03.R6',
         (_T, "        if state_container.Handle in self._state_updates or state_container.Handle in self._mdib.context_states.handle:\n            msg = f'Context State {state_container.Handle} already exists!'\n            raise ValueError(msg)\n", "")),
    seed('add_descriptor: existing handle accepted', 'C03.R6',
         (_T, "        if descriptor_handle in self._mdib.descriptions.handle:\n            msg = f'Cannot create descriptor {descriptor_handle}, it already exists in mdib!'\n            raise ValueError(msg)\n", "")),
]
