"""C05 - BICEPS/WS-* data types round-trip losslessly through schema-valid XML.

Round-trip equality over the value space is a runtime fact and NOT decided.  Decided (structural
necessary conditions, all from the class-body declarations (ast) and the bundled XSD files (xml.etree)):
  R1 AGREE declarations x XSD for every data class whose NODETYPE names a BICEPS complex type or an
     anonymous message type: (a) every declared XML attribute exists on the XSD type (own, inherited,
     attribute groups); (b) the declared child elements, in _props order along the MRO, are a
     subsequence of the XSD sequence (extension chain) - this is what makes generated XML schema-valid
     for every instance; (c) a non-optional declared attribute is `use="required"` in the XSD and vice
     versa ... reported only where declared non-optional but XSD optional; (d) every StringEnum with the
     name of an XSD enumeration has exactly its literals; (e) documented implied values
     (`The implied value SHALL be "v"`) equal the declared implied/default value.
  R2 reader/writer pairing per property descriptor class: reader and writer address the same location and
     use the converter symmetrically; the writer omits a scalar value only for `is None`, never by
     truthiness (0, '', Decimal(0), False are values).
  R3 class-level defaults never reach an instance un-copied: C12.R1.
  R4 lxml elements are copied before they are attached to an output tree (append/extend move elements).
"""
from __future__ import annotations

import ast
import re
import xml.etree.ElementTree as ET  # noqa: S405  (bundled, trusted schema files)

from engine.cfg import call_name
from engine.errors import AnalysisError
from engine.repo import walk_no_nested
from engine.cfg import cfg_of
from engine.util import calls_in, unparse, xsrc

ID = 'C05'
XS = '{http://www.w3.org/2001/XMLSchema}'
XSD_FILES = ('BICEPS_ParticipantModel.xsd', 'BICEPS_MessageModel.xsd', 'eventing.xsd', 'ws-addr.xsd',
             'wsdd-discovery-1.1-schema-os.xsd', 'wsdd-dpws-1.1-schema-os.xsd', 'MetadataExchange.xsd')
XSTRUCT = 'sdc11073.xml_types.xml_structure'
DATA_MODULES = ('sdc11073.xml_types.pm_types', 'sdc11073.xml_types.msg_types', 'sdc11073.mdib.statecontainers',
                'sdc11073.mdib.descriptorcontainers', 'sdc11073.xml_types.eventing_types', 'sdc11073.xml_types.wsd_types',
                'sdc11073.xml_types.addressing_types', 'sdc11073.xml_types.dpws_types', 'sdc11073.xml_types.mex_types')


def _local_name(e):
    """XML local name of a qname expression: pm.X -> 'X', wse_tag('X') / nsh.WSA.tag('X') -> 'X'."""
    if isinstance(e, ast.Attribute):
        return e.attr
    if isinstance(e, ast.Call) and e.args and isinstance(e.args[0], ast.Constant) and isinstance(e.args[0].value, str) and \
            (call_name(e) or '').endswith('tag'):
        return e.args[0].value
    return None


class Xsd:
    def __init__(self, xsd_dir):
        self.types = {}
        self.enums = {}
        self.attr_groups = {}
        self.elem_type = {}
        roots = []
        for f in XSD_FILES:
            p = xsd_dir / f
            if not p.is_file():
                raise AnalysisError(f'C05: bundled schema {p} not found')
            roots.append(ET.parse(p).getroot())  # noqa: S314
        for t in roots:
            for grp in t.iter(XS + 'attributeGroup'):
                if grp.get('name'):
                    self.attr_groups[grp.get('name')] = {a.get('name'): (a.get('use', 'optional'), _implied(a))
                                                         for a in grp.iter(XS + 'attribute')}
        for t in roots:
            for ct in t.iter(XS + 'complexType'):
                if ct.get('name'):
                    self._collect(ct, ct.get('name'))
            for el in t.iter(XS + 'element'):
                if el.get('name'):
                    for ct in el.findall(XS + 'complexType'):
                        self._collect(ct, '@' + el.get('name'))
            for el in t.findall(XS + 'element'):
                if el.get('name') and el.get('type'):
                    self.elem_type.setdefault(el.get('name'), el.get('type').split(':')[-1])
            for st in t.iter(XS + 'simpleType'):
                if st.get('name'):
                    vals = [e.get('value') for e in st.iter(XS + 'enumeration')]
                    if vals:
                        self.enums[st.get('name')] = vals

    def _collect(self, ct, name):
        info = {'attrs': {}, 'elems': [], 'base': None}
        for ext in ct.iter(XS + 'extension'):
            info['base'] = ext.get('base')
            break
        nested = set()
        for inner in ct.iter(XS + 'complexType'):
            if inner is not ct:
                nested |= {id(x) for x in inner.iter()}
        for a in ct.iter(XS + 'attribute'):
            if id(a) in nested:
                continue
            info['attrs'][a.get('name') or (a.get('ref') or '').split(':')[-1]] = (a.get('use', 'optional'), _implied(a))
        for ag in ct.iter(XS + 'attributeGroup'):
            if id(ag) in nested:
                continue
            info['attrs'].update(self.attr_groups.get((ag.get('ref') or '').split(':')[-1], {}))

        def walk(node):
            for ch in node:
                if ch.tag == XS + 'element':
                    info['elems'].append((ch.get('name') or (ch.get('ref') or '').split(':')[-1],
                                          ch.get('minOccurs', '1'), ch.get('maxOccurs', '1')))
                elif ch.tag in (XS + 'sequence', XS + 'choice', XS + 'complexContent', XS + 'extension', XS + 'all'):
                    walk(ch)
        walk(ct)
        self.types[name] = info

    def chain(self, tname):
        out = []
        t = tname
        while t and t in self.types:
            out.append(t)
            b = self.types[t]['base']
            t = b.split(':')[-1] if b else None
        return list(reversed(out))

    def flat(self, tname):
        attrs, elems = {}, []
        for t in self.chain(tname):
            attrs.update(self.types[t]['attrs'])
            elems += self.types[t]['elems']
        return attrs, elems


def _implied(node):
    for d in node.iter(XS + 'documentation'):
        m = re.search(r'implied value SHALL be "([^"]*)"', d.text or '')
        if m:
            return m.group(1)
    return None


_DESCRIPTOR_NAMES = set()


def decl_table(ci):
    out = {}
    for st in ci.node.body:
        tgt = val = None
        if isinstance(st, ast.Assign) and isinstance(st.targets[0], ast.Name):
            tgt, val = st.targets[0].id, st.value
        elif isinstance(st, ast.AnnAssign) and isinstance(st.target, ast.Name) and st.value is not None:
            tgt, val = st.target.id, st.value
        if tgt and isinstance(val, ast.Call) and ((call_name(val) or '').endswith('Property')
                                                  or call_name(val) in _DESCRIPTOR_NAMES):
            out[tgt] = val
    return out


def props_of(ci):
    v = ci.assigns.get('_props')
    return [e.value for e in v.elts if isinstance(e, ast.Constant)] if isinstance(v, (ast.Tuple, ast.List)) else []


def ordered_props(repo, q):
    out = []
    for c in reversed(repo.mro(q)):
        for p in props_of(repo.classes[c]):
            decl = None
            for c2 in repo.mro(q):
                d2 = decl_table(repo.classes[c2])
                if p in d2:
                    decl = d2[p]
                    break
            out.append((p, decl))
    return out


def _kw(call, name):
    for k in call.keywords:
        if k.arg == name:
            return k.value
    return None


def _norm_value(e):
    """Lexical form of a declared implied/default value for comparison with the XSD documentation."""
    if e is None:
        return None
    if isinstance(e, ast.Constant):
        if isinstance(e.value, bool):
            return 'true' if e.value else 'false'
        return str(e.value)
    if isinstance(e, ast.Attribute):
        return ('enum', e.attr)
    if isinstance(e, ast.Call) and call_name(e) == 'Decimal' and e.args and isinstance(e.args[0], ast.Constant):
        return str(e.args[0].value)
    return None


def writers_copy_lxml_values(ctx, rule, used_in=None, floor=3):
    """C05.R4 (shared with C07: a response tree that is built keeps its elements while the next one is built)."""
    repo = ctx.repo
    desc = [q for q in repo.classes if q.startswith(XSTRUCT + '.') and f'{XSTRUCT}._XmlStructureBaseProperty' in repo.mro(q)]
    n_att = 0
    if used_in is not None:
        # only the member kinds that the classes of the given modules declare (e.g. the MDIB containers)
        names = {call_name(c) for m in repo.modules.values() if m.name.startswith(tuple(used_in))
                 for c in ast.walk(m.tree) if isinstance(c, ast.Call)}
        desc = [q for q in desc if q.rsplit('.', 1)[1] in names]
    for q in sorted(desc):
        ci = repo.classes[q]
        wr = ci.methods.get('update_xml_value')
        if wr is None:
            continue
        for c in calls_in(wr.node):
            if isinstance(c.func, ast.Attribute) and c.func.attr in ('append', 'extend', 'insert') and c.args and \
                    unparse(c.func.value) in ('sub_node', 'node'):
                arg = c.args[-1]
                txt = unparse(arg)
                if 'py_value' not in txt and 'extension_local_value' not in txt and 'value' not in txt:
                    continue
                n_att += 1
                copies = any(isinstance(x, ast.Call) and (call_name(x) in ('deepcopy', 'copy_node_wo_parent', 'copy_element',
                                                                          'copy_node', 'fromstring'))
                             for x in ast.walk(arg))
                ctx.ob(rule, f'{ci.name}: {unparse(c)[:70]}', copies,
                       f'{ci.name}: elements are copied before they are attached to the output tree' if copies else
                       f'{ci.name}: {unparse(c)} attaches the value\'s own lxml elements - lxml moves them: the instance '
                       f'(and any tree written before) loses them, a second write produces different output', fi=wr, node=c)
    ctx.floor(rule, n_att, floor, 'lxml attach sites in writers')
    # ... and the copy helpers they rely on return a new element on every path (never the element they were given)
    for hq in ('sdc11073.xml_utils.copy_node_wo_parent', 'sdc11073.xml_utils.copy_element'):
        hf = repo.funcs.get(hq)
        if hf is None:
            continue
        params_ = {a.arg for a in hf.node.args.args}
        rets_ = [r.value for r in walk_no_nested(hf.node) if isinstance(r, ast.Return) and r.value is not None]
        same = [unparse(v) for v in rets_ if isinstance(v, ast.Name) and v.id in params_]
        ctx.ob(rule, f'{hf.name} returns a new element', bool(rets_) and not same,
               f'{hf.name} returns a newly built element on every path' if rets_ and not same else
               f'{hf.name} returns its argument itself on some path ({same}): the writers attach that element to the output tree - '
               f'lxml moves it there, the value object and everything parsed from the written tree share the same elements',
               fi=hf)


def run(ctx):  # noqa: C901, PLR0912, PLR0915
    repo = ctx.repo
    ctx.rule('C05.R1', 'declarations agree with the bundled XSD: attribute names, element order, required, enums, implied values')
    ctx.rule('C05.R2', 'reader/writer pairing per descriptor; scalar values are omitted only for None')
    ctx.rule('C05.R4', 'lxml elements are copied before they are attached to output')
    _DESCRIPTOR_NAMES.clear()
    _DESCRIPTOR_NAMES.update(ci.name for q, ci in repo.classes.items()
                             if f'{XSTRUCT}._XmlStructureBaseProperty' in repo.mro(q))
    xsd = Xsd(repo.src_root / 'sdc11073' / 'xsd')
    ctx.floor('C05.R1', len(xsd.types), 150, 'XSD complex types')
    ctx.floor('C05.R1', len(xsd.enums), 20, 'XSD enumerations')

    # enum classes (for implied values and R1d)
    enum_classes = {}
    for q, ci in repo.classes.items():
        if q.startswith(DATA_MODULES[0]) or q.startswith(DATA_MODULES[1]):
            bases = [unparse(b) for b in ci.node.bases]
            if any('Enum' in b for b in bases):
                enum_classes[ci.name] = {n: v.value for n, v in ci.assigns.items() if isinstance(v, ast.Constant)}

    n_cls = n_attr = n_elem = n_impl = 0
    for q, ci in sorted(repo.classes.items()):
        if not q.startswith(DATA_MODULES):
            continue
        nt = ci.assigns.get('NODETYPE')
        tname = _local_name(nt) if nt is not None else None
        if tname is None:
            continue
        nt_name = tname
        if tname not in xsd.types and '@' + tname in xsd.types:
            tname = '@' + tname
        if tname not in xsd.types and xsd.elem_type.get(tname) in xsd.types:
            tname = xsd.elem_type[tname]
        if tname not in xsd.types:
            ctx.notes.append(f'{q}: NODETYPE {nt_name} has no complex type in the bundled schemas (not compared)')
            continue
        n_cls += 1
        xattrs, xelems = xsd.flat(tname)
        xnames = [e[0] for e in xelems]
        delems = []
        problems = []
        for p, decl in ordered_props(repo, q):
            if decl is None:
                problems.append(f'_props entry {p} has no declaration')
                continue
            kind = call_name(decl)
            first = decl.args[0] if decl.args else _kw(decl, 'attribute_name') or _kw(decl, 'sub_element_name')
            opt = _kw(decl, 'is_optional')
            if 'Attribute' in kind:
                an = first.value if isinstance(first, ast.Constant) else unparse(first)
                n_attr += 1
                if an not in xattrs:
                    problems.append(f'attribute "{an}" ({p}) does not exist on XSD type {tname.lstrip("@")}')
                    continue
                use, implied = xattrs[an]
                if isinstance(opt, ast.Constant) and opt.value is False and use != 'required':
                    problems.append(f'attribute "{an}" is declared mandatory but XSD says use="{use}"')
                dv = _norm_value(_kw(decl, 'implied_py_value') or _kw(decl, 'default_py_value'))
                if implied is not None and dv is not None:
                    n_impl += 1
                    if isinstance(dv, tuple):
                        vals = [vs.get(dv[1]) for vs in enum_classes.values() if dv[1] in vs]
                        okv = implied in vals
                    else:
                        okv = dv == implied or (dv in ('True', 'False') and dv.lower() == implied)
                        m = re.fullmatch(r'PT(\d+(?:\.\d+)?)S', implied)
                        if not okv and m:  # xsd:duration documented as implied value, declared in seconds
                            try:
                                okv = float(dv) == float(m.group(1))
                            except ValueError:
                                okv = False
                    if not okv:
                        problems.append(f'attribute "{an}": declared implied/default {dv} differs from the XSD implied value "{implied}"')
            else:
                if first is None or (isinstance(first, ast.Constant) and first.value is None):
                    continue  # text / any content of the node itself
                en = _local_name(first) or unparse(first)
                delems.append(en)
        n_elem += len(delems)
        it = iter(xnames)
        bad_order = [e for e in delems if not any(x == e for x in it)]
        if bad_order:
            miss = [e for e in delems if e not in xnames]
            if miss:
                problems.append(f'child element(s) {miss} do not exist in the XSD sequence of {tname.lstrip("@")}')
            else:
                problems.append(f'child elements are declared in the order {delems} but the XSD sequence is {xnames}: the '
                                f'generated XML is not schema-valid when both are present')
        ctx.ob('C05.R1', f'{ci.name} vs {tname.lstrip("@")}', not problems,
               f'{ci.name}: attributes, element order, required flags and implied values agree with the XSD' if not problems
               else f'{ci.name}: ' + '; '.join(problems), fi=None, line=ci.node.lineno, where=q,
               witness={'declared_elements': delems, 'xsd_sequence': xnames[:12]})
    ctx.floor('C05.R1', n_cls, 140, 'data classes matched to XSD types')
    ctx.floor('C05.R1', n_attr, 250, 'declared XML attributes compared')
    ctx.floor('C05.R1', n_elem, 150, 'declared child elements compared')
    ctx.floor('C05.R1', n_impl, 10, 'implied values compared')
    # (d) enumerations
    n_en = 0
    for name, lits in sorted(xsd.enums.items()):
        if name in enum_classes:
            n_en += 1
            have = sorted(v for v in enum_classes[name].values() if isinstance(v, str))
            ctx.ob('C05.R1', f'enum {name}', have == sorted(lits),
                   f'enum {name} has exactly the XSD literals' if have == sorted(lits) else
                   f'enum {name}: declared {have} but XSD enumerates {sorted(lits)}', where=f'enum {name}',
                   witness={'missing': sorted(set(lits) - set(have)), 'extra': sorted(set(have) - set(lits))})
    ctx.floor('C05.R1', n_en, 18, 'enumerations compared')
    # child element order of the descriptor containers: sort_child_nodes() arranges the written children by the
    # _child_elements_order tables (concatenated along the class hierarchy); the order must be the xs:sequence of the type
    DCONT = 'sdc11073.mdib.descriptorcontainers'
    n_ord = 0
    for q, ci in sorted(repo.classes.items()):
        if not q.startswith(DCONT + '.'):
            continue
        nt = ci.assigns.get('NODETYPE')
        tname = nt.attr if isinstance(nt, ast.Attribute) else None
        if tname is None or tname not in xsd.types:
            continue
        order = []
        for c in reversed(repo.mro(q)):
            v = repo.classes[c].assigns.get('_child_elements_order') if c in repo.classes else None
            if isinstance(v, (ast.Tuple, ast.List)):
                order += [e.attr for e in v.elts if isinstance(e, ast.Attribute)]
        want = [n for n, _mn, _mx in xsd.flat(tname)[1]]
        n_ord += 1
        ok = order == want
        ctx.ob('C05.R1', f'child order {ci.name}', ok,
               f'{ci.name}: children are written in the order of the xs:sequence of {tname}' if ok else
               f'{ci.name}: _child_elements_order gives {order}, the schema sequence of {tname} is {want}: a descriptor that '
               f'has the misplaced optional child is written as schema-invalid XML', where=q, line=ci.node.lineno,
               witness={'code': order, 'xsd': want})
    ctx.floor('C05.R1', n_ord, 15, 'descriptor containers with a child element order')

    # ------------------------------------------------------------------ R2
    desc = [q for q in repo.classes if q.startswith(XSTRUCT + '.') and f'{XSTRUCT}._XmlStructureBaseProperty' in repo.mro(q)]
    list_bases = {f'{XSTRUCT}._ElementListProperty', f'{XSTRUCT}._AttributeListBase'}
    seen = set()
    n_w = 0
    for q in sorted(desc):
        wr = repo.resolve_method(q, 'update_xml_value')
        rd = repo.resolve_method(q, 'get_py_value_from_node')
        if wr is None or rd is None:
            continue
        # one obligation per (writer, reader) pair - but a pair whose converter calls are not symmetric is judged for every
        # class that uses it (the waiver below depends on the converter the class is constructed with)
        cw0 = {n.attr for n in ast.walk(wr.node) if isinstance(n, ast.Attribute) and n.attr in ('to_xml', 'elem_to_xml')}
        cr0 = {n.attr for n in ast.walk(rd.node) if isinstance(n, ast.Attribute) and n.attr in ('to_py', 'elem_to_py')}
        asym = (('to_xml' in cw0) != ('to_py' in cr0)) or (('elem_to_xml' in cw0) != ('elem_to_py' in cr0))
        pair_key = (wr.qual, rd.qual, q if asym else None)
        if pair_key in seen:
            continue
        seen.add(pair_key)
        if any(isinstance(d, ast.Name) and d.id == 'abstractmethod' for d in wr.node.decorator_list):
            continue
        if wr.cls.name == 'CurrentTimestampAttributeProperty':
            ctx.notes.append('CurrentTimestampAttributeProperty: the writer stamps the current time by design (the '
                             'self-updating clock time is excluded from the round trip by the property); not paired')
            continue
        n_w += 1
        wsrc, rsrc = xsrc(wr), unparse(rd.node)
        # location agreement
        loc_w = {x for x in ('_attribute_name', '_sub_element_name') if f'self.{x}' in wsrc}
        loc_r = {x for x in ('_attribute_name', '_sub_element_name') if f'self.{x}' in rsrc}
        helper = 'remove_sub_element' in wsrc or '_get_element_by_child_name' in wsrc or 'super()' in wsrc or 'super()' in rsrc
        okl = (loc_w == loc_r and loc_w) or (helper and loc_r <= {'_sub_element_name'} and loc_w <= {'_sub_element_name'})
        # converter symmetry
        # (called or handed on as a bound method: `map(self._converter.elem_to_py, ...)`)
        conv_w = {n.attr for n in ast.walk(wr.node) if isinstance(n, ast.Attribute) and n.attr in ('to_xml', 'elem_to_xml')}
        conv_r = {n.attr for n in ast.walk(rd.node) if isinstance(n, ast.Attribute) and n.attr in ('to_py', 'elem_to_py')}
        # a conversion without a counterpart is no asymmetry when it is the identity for the converter this class is
        # constructed with (QName attributes: ClassCheckConverter.to_xml returns its argument, lxml writes the QName)
        for a, b in (('to_xml', 'to_py'), ('elem_to_xml', 'elem_to_py')):
            if (a in conv_w) != (b in conv_r):
                lone = a if a in conv_w else b
                if _converter_method_is_identity(repo, q, lone):
                    conv_w.discard(a)
                    conv_r.discard(b)
        okc = (('to_xml' in conv_w) == ('to_py' in conv_r)) and (('elem_to_xml' in conv_w) == ('elem_to_py' in conv_r))
        is_list = any(b in repo.mro(q) for b in list_bases)
        truthy = []
        if not is_list:
            for n in walk_no_nested(wr.node):
                if isinstance(n, (ast.If, ast.IfExp, ast.While)):
                    for t in ast.walk(n.test):
                        if isinstance(t, ast.UnaryOp) and isinstance(t.op, ast.Not) and isinstance(t.operand, ast.Name) \
                                and t.operand.id in ('py_value', 'value'):
                            truthy.append(unparse(n.test))
                    if isinstance(n.test, ast.Name) and n.test.id in ('py_value', 'value'):
                        truthy.append(unparse(n.test))
                    if isinstance(n.test, ast.BoolOp):
                        for v in n.test.values:
                            if isinstance(v, ast.Name) and v.id in ('py_value', 'value'):
                                truthy.append(unparse(n.test))
        ok = bool(okl) and okc and not truthy
        ctx.ob('C05.R2', f'{wr.cls.name}.update_xml_value / {rd.cls.name}.get_py_value_from_node' +
               (f' as {repo.classes[q].name}' if asym else ''), ok,
               f'{repo.classes[q].name}: reader and writer address the same location with symmetric converter calls; the '
               f'writer omits the value only when it is None' if ok else
               f'{repo.classes[q].name}: ' + '; '.join(x for x in (
                   None if okl else f'reader uses {sorted(loc_r)} but writer {sorted(loc_w)}',
                   None if okc else f'converter calls differ (writer {sorted(conv_w)}, reader {sorted(conv_r)})',
                   None if not truthy else f'the writer drops the value by truthiness ({truthy[0]}): 0, "", Decimal(0) are '
                                           f'written as absent and read back as None') if x), fi=wr,
               witness={'writer': sorted(conv_w), 'reader': sorted(conv_r)})
    ctx.floor('C05.R2', n_w, 15, 'reader/writer pairs')

    from . import common
    common.implied_value_only_for_none(ctx, 'C05.R2')
    common.readers_catch_only_absence(ctx, 'C05.R2')
    dq = repo.func('sdc11073.namespaces.docname_from_qname')
    gdq = cfg_of(dq)
    rets_none = [r for r in gdq.nodes if r.kind == 'return' and any(p is True and t.endswith(' is None') for t, p in gdq.facts_at(r).both())]
    ok_dq = bool(rets_none) and all(isinstance(r.stmt.value, ast.Attribute) and r.stmt.value.attr == 'localname' for r in rets_none)
    ctx.ob('C05.R4', 'a name whose namespace has no prefix in the map is written bare', ok_dq,
           'docname_from_qname writes the local name when the namespace is bound as default namespace (no prefix)' if ok_dq else
           'docname_from_qname invents a prefix for a namespace that the map binds without one (the default namespace): xsi:type="dom:X" '
           'is written into a document that does not declare `dom` - not schema-valid, and unreadable (KeyError) on the way back',
           fi=dq)
    common.writers_omit_only_none(ctx, 'C05.R2')
    ctx.borrow('C18', {'C18.R1', 'C18.R2'}, 'C05.R2', contains=['imestamp'], why='timestamps survive the round trip')
    common.readers_test_only_for_none(ctx, 'C05.R2')
    common.qnames_resolved_in_their_own_scope(ctx, 'C05.R5')
    ctx.borrow('C18', {'C18.R4'}, 'C05.R2', contains=['boolean: 1 and true', 'enum literals', 'integer lexical'], why='legal lexical forms are read as the value they denote')
    from .c18 import decimal_lexical_rules
    decimal_lexical_rules(ctx, 'C05.R2')   # xsd:decimal values survive the writer (18 significant digits)
    from .c18 import exponent_never_written
    exponent_never_written(ctx, 'C05.R2')
    from .c12 import defaults_reach_instances_copied
    defaults_reach_instances_copied(ctx, 'C05.R2')   # the value read for an absent element belongs to the object that was read
    # ------------------------------------------------------------------ R4
    writers_copy_lxml_values(ctx, 'C05.R4')

    # ------------------------------------------------------------------ R5 readers
    ctx.rule('C05.R5', 'readers: the class of a polymorphic element is resolved from THAT element; a scalar member that is '
                       'absent in the XML overwrites what the instance held')
    n_vc = 0
    for q in sorted(desc):
        rd = repo.classes[q].methods.get('get_py_value_from_node')
        if rd is None:
            continue
        g5 = cfg_of(rd)
        for n, c in g5.nodes_calling('from_node'):
            recv = c.func.value
            if not (isinstance(recv, ast.Name) and c.args):
                continue
            # where does the class come from?  <x>.value_class_from_node(M)
            srcs = [v for d in g5.reaching_defs(recv.id).get(n.id, ()) for v in [g5.def_value(d, recv.id)]
                    if isinstance(v, ast.Call) and call_name(v) == 'value_class_from_node' and v.args]
            if not srcs:
                continue
            n_vc += 1
            arg_txt = g5.canon_text(n, c.args[0])
            ok = True
            for d in g5.reaching_defs(recv.id).get(n.id, ()):
                v = g5.def_value(d, recv.id)
                if isinstance(v, ast.Call) and call_name(v) == 'value_class_from_node' and v.args:
                    ok = ok and g5.canon_text(d, v.args[0]) == arg_txt
            ctx.ob('C05.R5', f'{repo.classes[q].name}: class of {unparse(c)[:50]}', ok,
                   f'{repo.classes[q].name}: each element is parsed with the class its own xsi:type selects' if ok else
                   f'{repo.classes[q].name}: {unparse(c)} parses an element with a class resolved from ANOTHER element '
                   f'({[unparse(v.args[0]) for v in srcs]}): in a list where only some elements carry an xsi:type substitution the '
                   f'others are read as the wrong class', fi=rd, node=c)
    ctx.floor('C05.R5', n_vc, 2, 'polymorphic element readers (value_class_from_node)')
    base_upd = repo.func(f'{XSTRUCT}._XmlStructureBaseProperty.update_from_node')
    gb = cfg_of(base_upd)
    sets = [n for n, c in gb.nodes_calling('setattr')]
    ok = len(sets) == 1 and not list(gb.facts_at(sets[0]))
    ctx.ob('C05.R5', 'absent scalar overwrites', ok,
           'update_from_node of scalar properties assigns what the reader returned unconditionally (None for an absent '
           'attribute / element)' if ok else
           '_XmlStructureBaseProperty.update_from_node keeps the previous value when the XML lacks the member: a value the '
           'constructor or an earlier read put there survives, the instance no longer equals the XML it was read from',
           fi=base_upd, witness=[list(gb.facts_at(s_)) for s_ in sets])
    # overriding update_from_node is only allowed to skip the assignment for list properties (an absent list stays empty)
    for q in sorted(desc):
        ci = repo.classes[q]
        up = ci.methods.get('update_from_node')
        if up is None or up is base_upd:
            continue
        is_list = 'List' in ci.name
        gu = cfg_of(up)
        cond = [n for n, c in gu.nodes_calling('setattr') if list(gu.facts_at(n))]
        ctx.ob('C05.R5', f'{ci.name}.update_from_node', is_list or not cond,
               f'{ci.name}.update_from_node: conditional assignment only for a list property' if is_list or not cond else
               f'{ci.name}.update_from_node skips the assignment under {[list(gu.facts_at(n)) for n in cond]} although it is '
               f'not a list property', fi=up)


# ---------------------------------------------------------------------- self-test seeds
def _converter_method_is_identity(repo, q, method) -> bool:
    """The converter that descriptor class q hands to its base class in __init__ is a class of dataconverters whose
    `method` returns its argument unchanged."""
    DC = 'sdc11073.xml_types.dataconverters'
    init = repo.resolve_method(q, '__init__')
    if init is None:
        return False
    conv = None
    for c in calls_in(init.node):
        for a in list(c.args) + [k.value for k in c.keywords]:
            e = a.func if isinstance(a, ast.Call) else a
            nm = e.id if isinstance(e, ast.Name) else e.attr if isinstance(e, ast.Attribute) else None
            if nm and f'{DC}.{nm}' in repo.classes:
                conv = f'{DC}.{nm}'
    if conv is None:
        return False
    m = repo.resolve_method(conv, method)
    if m is None:
        return False
    body = [st for st in m.node.body if not (isinstance(st, ast.Expr) and isinstance(st.value, ast.Constant))]
    params = [a.arg for a in m.node.args.args if a.arg not in ('self', 'cls')]
    return len(body) == 1 and isinstance(body[0], ast.Return) and isinstance(body[0].value, ast.Name) and \
        params and body[0].value.id == params[0]


from selftest import seed  # noqa: E402

_PM = 'src/sdc11073/xml_types/pm_types.py'
_X = 'src/sdc11073/xml_types/xml_structure.py'
_SC = 'src/sdc11073/mdib/statecontainers.py'
SEEDS = [
    seed('xsi:type resolved with the namespace map of the parent again (the defect repaired by 8f716c5)', 'C05.R5',
         ('src/sdc11073/xml_types/xml_structure.py', "                node_type = text_to_qname(node_type_str, sub_node.nsmap)",
          "                node_type = text_to_qname(node_type_str, node.nsmap)")),
    seed('CodedValue: two child elements swapped in _props', 'C05.R1',
         (_PM, "        'ExtExtension',\n        'CodingSystemName',\n        'ConceptDescription',\n        'Translation',\n        'Code',", "        'ExtExtension',\n        'ConceptDescription',\n        'CodingSystemName',\n        'Translation',\n        'Code',")),
    seed('attribute renamed', 'C05.R1',
         (_PM, "    SymbolicCodeName: str | None = cp.SymbolicCodeNameAttributeProperty('SymbolicCodeName')", "    SymbolicCodeName: str | None = cp.SymbolicCodeNameAttributeProperty('SymbolicName')")),
    seed('enum literal changed', 'C05.R1', (_PM, "    MED_A = 'MedA'", "    MED_A = 'MedClassA'")),
    seed('implied value changed', 'C05.R1',
         ('src/sdc11073/mdib/descriptorcontainers.py', "implied_py_value=pm_types.SafetyClassification.INF", "implied_py_value=pm_types.SafetyClassification.MED_A")),
    seed('optional attribute declared mandatory', 'C05.R1',
         (_PM, "    Code: str = cp.CodeIdentifierAttributeProperty('Code', is_optional=False)\n    CodingSystem: str | None = cp.StringAttributeProperty('CodingSystem')\n    CodingSystemVersion: str | None = cp.StringAttributeProperty('CodingSystemVersion')\n    SymbolicCodeName",
          "    Code: str = cp.CodeIdentifierAttributeProperty('Code', is_optional=False)\n    CodingSystem: str | None = cp.StringAttributeProperty('CodingSystem', is_optional=False)\n    CodingSystemVersion: str | None = cp.StringAttributeProperty('CodingSystemVersion')\n    SymbolicCodeName")),
    seed('text element dropped by truthiness', 'C05.R2',
         (_X, "            py_value = None\n        if py_value is None:\n            if MANDATORY_VALUE_CHECKING and not self.is_optional and self._min_length:\n                raise ValueError(f'mandatory value {self._sub_element_name} missing')  # noqa: EM102\n\n            if not self._sub_element_name:\n                # update text of this element\n                node.text = None\n            elif self.is_optional:\n                sub_node = node.find(self._sub_element_name)",
          "            py_value = None\n        if py_value is None or (self.is_optional and not py_value):\n            if MANDATORY_VALUE_CHECKING and not self.is_optional and self._min_length:\n                raise ValueError(f'mandatory value {self._sub_element_name} missing')  # noqa: EM102\n\n            if not self._sub_element_name:\n                # update text of this element\n                node.text = None\n            elif self.is_optional:\n                sub_node = node.find(self._sub_element_name)")),
    seed('extension elements moved instead of copied', 'C05.R4',
         (_X, "        sub_node.extend(xml_utils.copy_node_wo_parent(x) for x in extension_local_value)", "        sub_node.extend(extension_local_value)")),
]
