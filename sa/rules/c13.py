"""C13 - request handling is total: any input gets a response; no hang, crash or XXE.

Decided (structural necessary conditions):
  R1 WHO-MAY: every XML parse site in src/ uses a parser built with resolve_entities=False (def-use from
     the constructor) or is an allow-listed parse of trusted constant input; no parser enables DTD loading
     or network access.
  R2 ORDER: in the message middleware the dispatcher is reached only after read_received_message with
     validation on; validation is switched only by the `validate` parameter.
  R3 CONTAIN: in the HTTP entry points do_POST / do_GET every call that can raise on peer-controlled
     data is inside a try with a catch-all handler whose body answers with an HTTP status; what runs
     outside is limited to response-writing primitives.
  R4 loop progress: every read loop in httpreader.py leaves the loop on an empty read; peer-supplied
     lengths are checked non-negative before they reach read().
  R5 CONTAIN: worker-thread loops keep running: every statement in the loop is inside a catch-all.
"""
from __future__ import annotations

import ast

from engine.cfg import call_name, cfg_of, is_catch_all
from engine.errors import AnalysisError
from engine.repo import walk_no_nested
from engine.util import calls_in, dotted, local_assignments, roots, unparse, xsrc

ID = 'C13'
PARSE_FUNCS = {'fromstring', 'parse', 'XML', 'iterparse', 'fromstringlist', 'HTML'}
PARSER_CTORS = {'XMLParser', 'ETCompatXMLParser'}
TRUSTED_PARSE = {
    'sdc11073.schema_resolver.mk_schema_validator':
        'parses the bundled XSD files assembled into one string; includes are served by the local SchemaResolver',
    'sdc11073.provider.dpwshostedservice.DPWSHostedService._remove_annotations':
        'parses a literal XSLT stylesheet that is a constant in the source',
}
# primitives that may run outside a catch-all in an HTTP entry point: they write the response to the client
# socket (OSError only) or cannot raise on peer data
SAFE_CALLS = {'send_response', 'send_header', 'end_headers', 'write', 'error', 'warning', 'info', 'debug',
              'exception', 'str', 'len', 'encode', 'getpeername', 'repr', 'isinstance', 'format'}
TOTAL_ON_STR = {'join', 'split', 'splitlines', 'strip', 'decode', 'encode', 'super', 'str', 'replace', 'send_response'}
SAFE_PROJECT = {'_compress_if_supported': 'compresses own response bytes; Accept-Encoding parsing is total (C17)',
                'mk_chunks': 'pure framing of own response bytes'}
HANDLER = 'sdc11073.httpserver.httprequesthandler.DispatchingRequestHandler'


def names_of(e):
    return {n.id for n in ast.walk(e) if isinstance(n, ast.Name)}


def deep_roots(e, assigns, depth=6):
    """All expressions the value of e may be computed from (follows names inside calls, too)."""
    out, todo, seen = [], [e], set()
    while todo and depth:
        x = todo.pop()
        out.append(x)
        for nm in names_of(x):
            if nm in assigns and nm not in seen:
                seen.add(nm)
                todo.extend(assigns[nm])
    return out


def _is_etree_call(c, names):
    f = c.func
    return isinstance(f, ast.Attribute) and f.attr in names and dotted(f.value) in ('etree', 'lxml.etree', 'ET',
                                                                                    'etree_', 'ElementTree')


def _kw(c, name):
    for k in c.keywords:
        if k.arg == name:
            return k.value
    return None


def parse_site_findings(fn_node, qual):
    """Yield (call, ok, why) for XML parse calls in one function."""
    assigns = local_assignments(fn_node)
    for c in calls_in(fn_node):
        if not _is_etree_call(c, PARSE_FUNCS):
            continue
        p = _kw(c, 'parser')
        if p is None and c.func.attr in ('fromstring', 'XML', 'parse') and len(c.args) >= 2:
            p = c.args[1]
        if p is None:
            yield c, False, 'parses with the default parser (entities are resolved)'
            continue
        ctors = [r for r in roots(p, assigns)]
        ok = bool(ctors)
        why = ''
        for r in ctors:
            if not (isinstance(r, ast.Call) and _is_etree_call(r, PARSER_CTORS)):
                ok, why = False, f'parser comes from {unparse(r)[:40]}, not from a local parser constructor'
                continue
            re_ = _kw(r, 'resolve_entities')
            if not (isinstance(re_, ast.Constant) and re_.value is False):
                ok, why = False, 'parser is not constructed with resolve_entities=False'
            for bad in ('load_dtd', 'dtd_validation', 'attribute_defaults'):
                v = _kw(r, bad)
                if v is not None and not (isinstance(v, ast.Constant) and v.value is False):
                    ok, why = False, f'parser enables {bad}'
            v = _kw(r, 'no_network')
            if v is not None and not (isinstance(v, ast.Constant) and v.value is True):
                ok, why = False, 'parser allows network access'
        yield c, ok, why or 'parser built with resolve_entities=False'


def run(ctx):  # noqa: C901, PLR0912, PLR0915
    repo = ctx.repo
    _REPO[0] = repo
    ctx.rule('C13.R1', 'every XML parse site uses a parser with resolve_entities=False (allow-list of trusted constants)')
    ctx.rule('C13.R2', 'schema validation dominates dispatch in the message middleware')
    ctx.rule('C13.R3', 'CONTAIN: only response-writing primitives run outside a catch-all in do_POST/do_GET')
    ctx.rule('C13.R4', 'read loops terminate on empty reads; peer lengths are checked non-negative')
    ctx.rule('C13.R5', 'worker-thread loops are wrapped in a catch-all')

    # ------------------------------------------------------------------ R1
    n_sites = 0
    for fi in repo.funcs.values():
        if not fi.module.name.startswith('sdc11073'):
            continue
        for c, ok, why in parse_site_findings(fi.node, fi.qual):
            n_sites += 1
            if not ok and fi.qual in TRUSTED_PARSE:
                # trusted input: the parsed bytes must not depend on a parameter that carries peer data
                la = local_assignments(fi.node)
                params = {a.arg for a in fi.node.args.args} - {'self', 'cls', 'namespaces', 'ns_helper'}
                src_args = c.args[:1]
                indep = all(not (names_of(r) & params) for a0 in src_args for r in deep_roots(a0, la))
                ctx.ob('C13.R1', f'trusted {unparse(c.func)}', indep,
                       f'allow-listed: {TRUSTED_PARSE[fi.qual]}' if indep else
                       f'allow-listed parse site now parses data derived from a parameter', fi=fi, node=c)
                continue
            ctx.ob('C13.R1', f'{unparse(c)[:80]}', ok,
                   f'{unparse(c.func)}: {why}' + ('' if ok else ' - external entities / DTDs in a received message '
                                                   'would be expanded'), fi=fi, node=c)
    ctx.floor('C13.R1', n_sites, 6, 'XML parse call sites')
    # positive control: the matcher must flag an unprotected call
    probe = ast.parse('def f(x):\n    return etree.fromstring(x)\n').body[0]
    if [ok for _c, ok, _w in parse_site_findings(probe, 'probe')] != [False]:
        raise AnalysisError('C13.R1: positive control not flagged - the matcher is broken')
    probe2 = ast.parse('def f(x):\n    p = etree.XMLParser()\n    return etree.fromstring(x, parser=p)\n').body[0]
    if [ok for _c, ok, _w in parse_site_findings(probe2, 'probe')] != [False]:
        raise AnalysisError('C13.R1: positive control 2 not flagged - the matcher is broken')
    # no stdlib xml parsers on received data
    for mod in repo.modules.values():
        for n in ast.walk(mod.tree):
            if isinstance(n, (ast.Import, ast.ImportFrom)):
                names = [a.name for a in n.names] + ([n.module] if isinstance(n, ast.ImportFrom) and n.module else [])
                for nm in names:
                    if nm and (nm.startswith('xml.etree') or nm.startswith('xml.dom') or nm.startswith('xml.sax')):
                        ctx.ob('C13.R1', f'import {nm}', False,
                               f'{mod.name} imports the stdlib parser {nm} (no entity protection configured)',
                               line=n.lineno, where=mod.name)

    # ------------------------------------------------------------------ R2
    mw = repo.func('sdc11073.dispatch.messageconverter.MessageConverterMiddleware.do_post')
    g = cfg_of(mw)
    disp = g.nodes_calling('on_post')
    reads = [(n, c) for n, c in g.nodes_calling('read_received_message')
             if _kw(c, 'validate') is None and len(c.args) < 2]
    if not disp:
        raise AnalysisError('C13.R2: dispatcher call on_post not found in MessageConverterMiddleware.do_post')
    ok = bool(reads)
    if ok:
        rn = reads[0][0]
        trys = [t for t, part in rn.trys if part == 'body']
        hnodes = [n for n in g.nodes if n.kind == 'except' and trys and n.stmt in trys[-1].handlers]
        # without completing the read, the dispatcher is reachable only through the handlers of that try ...
        ok = bool(hnodes) and not any(g.path_exists(g.entry, d, avoid=[rn] + hnodes) for d, _ in disp)
        # ... and every such handler sets `fault`, which makes the fault gate return before dispatching
        for h in (trys[-1].handlers if trys else []):
            # `fault = X` or `a, b, fault = p, q, X` anywhere in the handler (element-wise for tuple assignments)
            sets_fault = False
            for hn in g.real_nodes():
                if hn.kind == 'stmt' and isinstance(hn.stmt, ast.Assign) and any(hn.stmt is y for y in ast.walk(h)):
                    v = g.def_value(hn, 'fault')
                    if v is not None and not (isinstance(v, ast.Constant) and v.value is None):
                        sets_fault = True
            ok = ok and sets_fault
    ctx.ob('C13.R2', 'validated read dominates dispatch', ok,
           'on_post is reached only after a completed read_received_message(request) with validation left on',
           fi=mw, node=disp[0][1], witness={'reads': [r.lineno for r, _ in reads]})
    # a failing read returns a fault and never reaches the dispatcher
    faults = [n for n in g.nodes if n.kind == 'branch' and unparse(n.test) == 'fault is not None' and n.label is False]
    ctx.ob('C13.R2', 'fault gate', bool(faults) and all(g.dominates(faults[0], d) for d, _ in disp),
           'the dispatcher is dominated by the false edge of `fault is not None`', fi=mw)
    rd = repo.func('sdc11073.pysoap.msgreader.MessageReader.read_received_message')
    default_validate = None
    a = rd.node.args
    for arg, d in zip(a.args[len(a.args) - len(a.defaults):], a.defaults):
        if arg.arg == 'validate':
            default_validate = d.value if isinstance(d, ast.Constant) else None
    g2 = cfg_of(rd)
    vcalls = g2.nodes_calling('_validate_node')
    okv = default_validate is True and len(vcalls) >= 2
    for n, _c in vcalls:
        facts = g2.facts_at(n)
        okv = okv and ('validate', True) in facts and all(txt in ('validate', 'message.msg_node is None') for txt, _p in facts.resolved)  # aliases resolved
    ctx.ob('C13.R2', 'validation switched only by the parameter', okv,
           'read_received_message validates envelope and body unless validate=False is passed; default is True',
           fi=rd, witness=[g2.facts_at(n) for n, _ in vcalls])
    # the whole document is validated - headers included (a MessageID that is no URI is echoed as RelatesTo of the answer, and
    # an answer that fails its own validation kills the thread that sends it): some _validate_node call takes the parsed root
    # itself and depends on nothing but `validate`
    la_rd = local_assignments(rd.node)
    roots_ = {k for k, vs in la_rd.items() if any(isinstance(v, ast.Call) and call_name(v) in ('fromstring', 'parse', 'XML') for v in vs)}
    whole = [n for n, c in vcalls if c.args and isinstance(c.args[0], ast.Name) and c.args[0].id in roots_ and
             all(txt == 'validate' for txt, _p in g2.facts_at(n).resolved)]
    ctx.ob('C13.R2', 'the whole envelope is validated', bool(whole),
           'read_received_message validates the parsed document root (envelope, headers and body)' if whole else
           'read_received_message validates the document root only under further conditions / validates the body only: the '
           'WS-Addressing headers of a received message are no longer schema-checked', fi=rd)
    vn = repo.func('sdc11073.pysoap.msgreader.validate_node')
    ctx.ob('C13.R2', 'validate_node raises', any(isinstance(n, ast.Raise) for n in walk_no_nested(vn.node)) and
           'assertValid' in xsrc(vn), 'validate_node turns a schema violation into ValidationError', fi=vn)
    mv = repo.func('sdc11073.pysoap.msgreader.MessageReader._validate_node')
    facts_ok = 'self._validate' in xsrc(mv) and 'validate_node' in xsrc(mv)
    ctx.ob('C13.R2', '_validate_node gate', facts_ok, '_validate_node is gated only by the constructor flag', fi=mv)

    # ------------------------------------------------------------------ R3
    for ep in ('do_POST', 'do_GET'):
        fi = repo.method(HANDLER, ep)
        unc = uncontained_calls(repo, fi, HANDLER)
        bad = [(c, f) for c, f in unc if not _is_safe(c)]
        ctx.ob('C13.R3', f'{ep} containment', not bad,
               f'{ep}: everything that can raise on peer data runs inside a catch-all that answers with a status' if not bad
               else f'{ep}: {[unparse(c.func) for c, _ in bad][:5]} run outside any catch-all handler: an exception '
                    f'(bad content-length, broken chunking, unknown path, corrupt coding) leaves the request handler '
                    f'and the peer gets no HTTP response', fi=fi,
               node=bad[0][0] if bad else None,
               witness={'uncontained_calls': sorted({unparse(c.func) for c, _ in unc})})
        # every catch-all handler in the entry point answers (sends a status) and does not re-raise
        for n in walk_no_nested(fi.node):
            if isinstance(n, ast.ExceptHandler) and is_catch_all(n):
                names = {call_name(c) for c in calls_in(n)}
                answers = 'send_response' in names or '_send_error_response' in names
                reraises = any(isinstance(x, ast.Raise) for x in ast.walk(n))
                ctx.ob('C13.R3', f'{ep} catch-all answers', answers and not reraises,
                       f'{ep}: the catch-all handler sends an HTTP status and does not re-raise', fi=fi, node=n)
    # _compress_if_supported runs after the status line was started and outside the catch-all (it is on the SAFE list): that is
    # only right if parsing the peer's Accept-Encoding header cannot raise - checked here, not assumed
    from engine.raises import escapes as _escapes
    ph = repo.func('sdc11073.httpserver.compression.CompressionHandler.parse_header')
    esc = _escapes(ph, repo)
    ctx.ob('C13.R3', 'Accept-Encoding parsing is total', not esc,
           'CompressionHandler.parse_header: every construct that can raise on a malformed header (index into a split result, '
           'float()) is inside a handler for that exception' if not esc else
           f'CompressionHandler.parse_header can raise {sorted({e for e, _n, _w in esc})} on a malformed Accept-Encoding header '
           f'({esc[0][2]}); it is called by _compress_if_supported after the response was started and outside any handler: the '
           f'exception leaves do_POST / do_GET and the peer gets no response', fi=ph, node=esc[0][1] if esc else None,
           witness=[w for _e, _n, w in esc])
    # reason phrases carry exception texts and path elements: they reach the status line as one line of latin-1 text
    # (a line break ends the status line and spills into the headers; other characters raise inside send_response, which
    # runs outside every handler) - either the handler class sanitises in its own send_response, or all phrases are literals
    from engine.deps import Deps as _Deps
    hcls = repo.cls('sdc11073.httpserver.httprequesthandler.DispatchingRequestHandler')
    sr = hcls.methods.get('send_response')
    sanitised = False
    if sr is not None:
        dsr = _Deps(sr.node)
        for c in calls_in(sr.node, 'send_response'):
            if isinstance(c.func, ast.Attribute) and isinstance(c.func.value, ast.Call) and call_name(c.func.value) == 'super' \
                    and len(c.args) >= 2:
                reach = dsr.reach(c.args[1])
                enc = [x for e in reach for x in ast.walk(e) if isinstance(x, ast.Call) and call_name(x) == 'encode' and x.args
                       and isinstance(x.args[0], ast.Constant) and str(x.args[0].value).lower() in ('latin-1', 'latin1', 'iso-8859-1')
                       and len(x.args) > 1 and isinstance(x.args[1], ast.Constant) and x.args[1].value != 'strict']
                one_line = [x for e in reach for x in ast.walk(e) if isinstance(x, ast.Call) and
                            call_name(x) in ('split', 'splitlines', 'translate') or
                            (isinstance(x, ast.Call) and call_name(x) == 'replace' and x.args and
                             isinstance(x.args[0], ast.Constant) and x.args[0].value in ('\n', '\r', '\r\n'))]
                sanitised = bool(enc) and bool(one_line)
    literal_only = True
    for fi_ in hcls.methods.values():
        if fi_ is sr:
            continue
        for c in calls_in(fi_.node, 'send_response'):
            if len(c.args) > 1 and not isinstance(c.args[1], ast.Constant):
                literal_only = False
    ctx.ob('C13.R3', 'reason phrase is one line of latin-1', sanitised or literal_only,
           'the reason phrase of every response is reduced to one line of latin-1 text before the status line is written'
           if sanitised else 'all reason phrases are literals' if literal_only else
           'reason phrases built from exception texts / path elements reach BaseHTTPRequestHandler.send_response as they are: a '
           'multi-line text (traceback of a failed fault serialisation) gives a malformed status line, a character outside '
           'latin-1 raises UnicodeEncodeError outside every handler and no response is sent', fi=sr, where=hcls.qual)
    # the middleware entry points are contained, too
    for m in ('do_post', 'do_get'):
        fi = repo.func(f'sdc11073.dispatch.messageconverter.MessageConverterMiddleware.{m}')
        unc = [c for c, _ in uncontained_calls(repo, fi, None)
               if call_name(c) in ('on_post', 'on_get', 'read_received_message', 'consume_current_path_element',
                                   'RequestData') and not _in_handler(c)]
        ctx.ob('C13.R3', f'middleware {m}', not unc,
               f'MessageConverterMiddleware.{m}: reading, dispatching and path handling run inside catch-alls', fi=fi,
               witness=[unparse(c.func) for c in unc])

    # ------------------------------------------------------------------ R4
    hr = repo.module('sdc11073.httpserver.httpreader')
    n_loops = 0
    for fi in repo.funcs.values():
        if fi.module is not hr:
            continue
        for w in walk_no_nested(fi.node):
            if not isinstance(w, ast.While) or getattr(w, '_inline_wrapper', False):
                continue
            reads_in = []
            for n in ast.walk(w):
                if isinstance(n, ast.Assign) and isinstance(n.value, ast.Call) and call_name(n.value) == 'read' and \
                        isinstance(n.targets[0], ast.Name):
                    reads_in.append((n.targets[0].id, n))
            # a read whose result is compared on the spot: `if stream.read(2) != CR_LF: raise ..`
            inline = []
            for n in ast.walk(w):
                if isinstance(n, ast.If) and isinstance(n.test, ast.Compare) and len(n.test.ops) == 1 and \
                        isinstance(n.test.left, ast.Call) and call_name(n.test.left) == 'read':
                    leaves = any(isinstance(x, (ast.Break, ast.Raise, ast.Return)) for s_ in n.body for x in ast.walk(s_))
                    inline.append((n, isinstance(n.test.ops[0], ast.NotEq) and leaves))
            # `while part := stream.read(..):` leaves the loop on an empty read by construction
            if isinstance(w.test, ast.NamedExpr) and isinstance(w.test.value, ast.Call) and call_name(w.test.value) == 'read' \
                    and isinstance(w.test.target, ast.Name):
                inline.append((ast.If(test=ast.Compare(left=w.test.value, ops=[ast.NotEq()], comparators=[]), body=[],
                                      orelse=[], lineno=w.lineno), True))
            # any other read in the loop (e.g. `buf += stream.read(1)`): its result is never looked at, an empty read at
            # the end of the stream goes unnoticed
            known = {id(st_.value) for _v, st_ in reads_in} | {id(n_.test.left) for n_, _ok in inline}
            if isinstance(w.test, ast.NamedExpr):
                known.add(id(w.test.value))
            for n in ast.walk(w):
                if isinstance(n, ast.Call) and call_name(n) == 'read' and id(n) not in known:
                    inline.append((ast.If(test=ast.Compare(left=n, ops=[ast.NotEq()], comparators=[]), body=[], orelse=[],
                                          lineno=getattr(n, 'lineno', w.lineno)), False))
            if not reads_in and not inline:
                continue
            n_loops += 1
            for n, ok in inline:
                ctx.ob('C13.R4', f'{fi.name}: {unparse(n.test.left)} compared in place', ok,
                       f'{fi.name}: the loop is left when {unparse(n.test.left)} returns b"" (it differs from the expected '
                       f'constant)' if ok else
                       f'{fi.name}: the result of {unparse(n.test.left)} is used without a test for the empty read at the end '
                       f'of the stream: on a truncated body the loop never makes progress and the request thread spins', fi=fi,
                       node=n)
            for var, st in reads_in:
                ok = _loop_exits_on_empty(w, var, st)
                ctx.ob('C13.R4', f'{fi.name}: {var} = {unparse(st.value)}', ok,
                       f'{fi.name}: the loop is left when {unparse(st.value)} returns b"" (peer closed / truncated body)'
                       if ok else
                       f'{fi.name}: {unparse(st.value)} may return b"" forever at end of stream and nothing in the loop '
                       f'reacts to it: the request thread spins without terminating', fi=fi, node=st)
    ctx.floor('C13.R4', n_loops, 3, 'read loops in httpreader.py')
    # a request body is never read "until EOF": on a kept-alive connection that blocks for ever.  An unbounded read() in
    # read_request_body is tolerated only in a handler that a string Content-Length cannot reach (int(str) raises ValueError
    # only - a handler for TypeError alone is dead for header strings)
    from engine.raises import _is_subclass, handler_names
    rb = repo.func('sdc11073.httpserver.httpreader.HTTPReader.read_request_body')
    n_unb = 0
    for c in calls_in(rb.node, 'read'):
        if c.args or c.keywords or not isinstance(c.func, ast.Attribute):
            continue
        n_unb += 1
        cur, child, handler = getattr(c, '_parent', None), c, None
        while cur is not None and cur is not rb.node:
            if isinstance(cur, ast.ExceptHandler):
                handler = cur
                break
            child, cur = cur, getattr(cur, '_parent', None)
        reachable = handler is None or any(nm and _is_subclass('ValueError', nm, repo) for nm in handler_names(handler))
        ctx.ob('C13.R4', f'unbounded {unparse(c)}', not reachable,
               f'read_request_body: {unparse(c)} sits in a handler that a malformed Content-Length string cannot reach'
               if not reachable else
               f'read_request_body: {unparse(c)} reads the request stream until EOF and is reachable for a peer-supplied '
               f'Content-Length (handler for {handler_names(handler) if handler else "no exception at all"}): on a kept-alive '
               f'connection the request thread blocks for ever and the peer gets no response', fi=rb, node=c)
    ctx.notes.append(f'C13.R4: {n_unb} unbounded read() call(s) in read_request_body examined')
    for q in ('sdc11073.httpserver.httpreader.HTTPReader._read_dechunk',
              'sdc11073.httpserver.httpreader.HTTPReader.read_request_body'):
        fi = repo.func(q)
        g = cfg_of(fi)
        assigns = local_assignments(fi.node)
        n_len = 0
        for n, c in g.nodes_calling('read'):
            if not c.args:
                continue
            arg = c.args[0]
            srcs = [r for r in roots(arg, assigns)]
            from_int = [r for r in srcs if isinstance(r, ast.Call) and call_name(r) == 'int']
            if not from_int:
                continue
            n_len += 1
            names = {arg.id} if isinstance(arg, ast.Name) else set()
            for nm, vals in assigns.items():
                if any(isinstance(v, ast.Call) and call_name(v) == 'int' for v in vals):
                    names.add(nm)
            facts = g.facts_at(n)
            ok = any(pol is False and any(txt == f'{nm} < 0' for nm in names) for txt, pol in facts.both()) or \
                any(pol is True and any(txt in (f'{nm} >= 0', f'{nm} > 0') for nm in names) for txt, pol in facts.both())
            ctx.ob('C13.R4', f'{fi.name}: {unparse(c)} length checked', ok,
                   f'{fi.name}: the peer-supplied length is known non-negative when it reaches read()' if ok else
                   f'{fi.name}: a negative peer-supplied length reaches {unparse(c)} - read(-1) blocks until the peer '
                   f'closes the connection', fi=fi, node=c, witness={'facts': facts})
        ctx.floor('C13.R4', n_len, 1, f'length-driven reads in {fi.name}')
    # _read_until result may be None: every use of it is guarded
    dc = repo.func('sdc11073.httpserver.httpreader.HTTPReader._read_dechunk')
    g = cfg_of(dc)
    assigns = local_assignments(dc.node)
    ru_names = [nm for nm, vals in assigns.items() if any(isinstance(v, ast.Call) and call_name(v) == '_read_until'
                                                           for v in vals)]
    if not ru_names:
        raise AnalysisError('C13.R4: _read_until result not found in _read_dechunk')
    for nm in ru_names:
        for n in g.real_nodes():
            for a in n.walk():
                if isinstance(a, ast.Attribute) and isinstance(a.value, ast.Name) and a.value.id == nm:
                    facts = g.facts_at(n)
                    ok = (f'{nm} is None', False) in facts
                    ctx.ob('C13.R4', f'{nm}.{a.attr} after None check', ok,
                           f'_read_dechunk: {nm} (None at end of stream) is checked before .{a.attr}' if ok else
                           f'_read_dechunk: {nm}.{a.attr} is evaluated although _read_until returns None at end of '
                           f'stream (AttributeError instead of DechunkError)', fi=dc, node=a)

    # ------------------------------------------------------------------ R5
    worker_loops_contained(ctx, 'C13.R5', WORKERS)
    from .c09 import enqueue_is_bounded
    enqueue_is_bounded(ctx, 'C13.R4')   # a request never waits for ever for a slot of the operations queue
    # the fault the catch-all builds is schema-valid whatever the exception says: add_reason_text adds a Text for every call (an
    # exception without a message gives an empty Text, which is valid; no Text at all is not, and the fault could not be serialised)
    art = repo.func('sdc11073.pysoap.soapenvelope.Fault.add_reason_text')
    gar = cfg_of(art)
    apps_ = [n_ for n_, c_ in gar.nodes_calling('append')]
    uncond = bool(apps_) and all(not list(gar.facts_at(n_).both()) for n_ in apps_)
    # ... and whatever the exception text quotes from the request (a path element with a control character, a NUL byte), the
    # reason text can be serialised: what is stored as `.text` went through a character filter, it is not the raw argument
    tparam = [a.arg for a in art.node.args.args if a.arg != 'self'][0]
    tstores = [n_.stmt.value for n_ in gar.real_nodes() if n_.kind == 'stmt' and isinstance(n_.stmt, ast.Assign) and
               any(isinstance(t, ast.Attribute) and t.attr == 'text' for t in n_.stmt.targets)]
    raw = [unparse(v) for v in tstores if isinstance(v, ast.Name) and v.id == tparam]
    ctx.ob('C13.R3', 'the reason text is made XML compatible', bool(tstores) and not raw,
           'Fault.add_reason_text stores a filtered text (characters that XML cannot carry are replaced)' if tstores and not raw else
           'Fault.add_reason_text stores the text as it is: an exception text that quotes a control character of the request (path '
           'element, value) cannot be serialised, the fault is lost inside the catch-all and the exception leaves do_post - the '
           'peer gets a bare 500 instead of a SOAP fault', fi=art)
    ctx.ob('C13.R3', 'a fault always has a reason text', uncond,
           'Fault.add_reason_text appends the text unconditionally' if uncond else
           f'Fault.add_reason_text adds the text only under {[list(gar.facts_at(n_).both()) for n_ in apps_][:1]}: the fault built for '
           f'an exception with an empty message has no Reason/Text, fails its own validation inside the catch-all and the '
           f'exception escapes do_post', fi=art)
    # a request the handler refuses (or that raises) changes nothing: the time stamp that arms the invocation timeout is taken
    # after the handler returned
    exo = repo.func('sdc11073.provider.operations.OperationDefinitionBase.execute_operation')
    gex = cfg_of(exo)
    hcall = [n_ for n_, c_ in gex.nodes_calling('_operation_handler')]
    stamps = [n_ for n_ in gex.real_nodes() if n_.kind == 'stmt' and isinstance(n_.stmt, ast.Assign) and
              any(unparse(t) == 'self.last_called_time' for t in n_.stmt.targets)]
    ok_ex = bool(hcall) and bool(stamps) and all(any(gex.dominates(h, s_) for h in hcall) for s_ in stamps)
    ctx.ob('C13.R3', 'the timeout supervision is armed after the handler ran', ok_ex,
           'execute_operation sets last_called_time after the operation handler returned' if ok_ex else
           'execute_operation sets last_called_time before the handler runs: a request the handler rejects arms the invocation '
           'timeout, whose handler changes the MDIB later - the rejected request had an effect', fi=exo)
    from . import common
    common.codec_keeps_no_state(ctx, 'C13.R2', 'sdc11073.pysoap.msgreader.MessageReader', 'message reader')
    common.log_templates_are_constant(ctx, 'C13.R3', ['sdc11073.dispatch', 'sdc11073.httpserver', 'sdc11073.pysoap.msgreader',
                                                      'sdc11073.provider.dpwshostedservice',
                                                      'sdc11073.consumer.request_handler_deferred',
                                                      'sdc11073.provider.servicesfactory', 'sdc11073.provider.porttypes'])


WORKERS = ['sdc11073.consumer.request_handler_deferred.DispatchKeyRegistryDeferred._read_queue',
           'sdc11073.provider.sco._OperationsWorker.run',
           'sdc11073.wsdiscovery.networkingthread.NetworkingThread._run_recv',
           'sdc11073.wsdiscovery.networkingthread.NetworkingThread._run_q_read']


def worker_loops_contained(ctx, rule, workers):
    """Every call in the loop of a worker thread is inside a catch-all: one failing message does not end the thread."""
    repo = ctx.repo
    _REPO[0] = repo
    for q in workers:
        fi = repo.func(q)
        loops = [w for w in walk_no_nested(fi.node) if isinstance(w, ast.While) and not getattr(w, '_inline_wrapper', False)]
        if not loops:
            raise AnalysisError(f'{rule}: no loop in worker {q}')
        w = loops[0]
        bad = []
        for st in w.body:
            bad.extend(_uncontained_in_stmt(st))
        bad = [c for c in bad if call_name(c) not in ('get', 'is_set', 'sleep', 'info', 'debug', 'error', 'warning',
                                                      'exception', 'format_exc', 'getLogger')]
        # what the outermost catch-all does itself must not raise either: it dereferences nothing that the failed message
        # may have left unset (x.a.b on a message object, an index) - it logs names, constants and the traceback
        deref = []
        for st in w.body:
            for t in ([st] if isinstance(st, ast.Try) else []):
                for h in t.handlers:
                    if not is_catch_all(h):
                        continue
                    for x in [y for b in h.body for y in ast.walk(b)]:
                        if isinstance(x, ast.Subscript) and isinstance(x.ctx, ast.Load):
                            deref.append(x)
                        if isinstance(x, ast.Attribute) and isinstance(x.ctx, ast.Load) and not x.attr.startswith('__') and \
                                isinstance(x.value, ast.Attribute) and not x.value.attr.startswith('__') and \
                                isinstance(x.value.value, ast.Attribute) and not x.value.value.attr.startswith('__') and \
                                (dotted(x.value.value.value) or '?').split('.')[0] not in ('self', 'traceback', 'logging') and \
                                not isinstance(getattr(x, '_parent', None), ast.Attribute):
                            deref.append(x)   # local.a.b.c: three steps into an object of the failed message
        if deref:
            ctx.ob(rule, f'{fi.cls.name}.{fi.name} catch-all is total', False,
                   f'{fi.name}: the catch-all that keeps the thread alive evaluates {[unparse(d) for d in deref][:3]}; for a '
                   f'message where a part of that chain is None / missing the handler itself raises and the worker thread '
                   f'ends - every later message stays unprocessed', fi=fi, node=deref[0])
        ctx.ob(rule, f'{fi.cls.name}.{fi.name} loop', not bad,
               f'{fi.name}: every call in the thread loop is inside a catch-all (the thread survives any message)'
               if not bad else f'{fi.name}: {[unparse(c.func) for c in bad][:4]} can raise outside a catch-all and '
                               f'terminate the worker thread', fi=fi, node=w,
               witness=[unparse(c.func) for c in bad])


# ---------------------------------------------------------------------- helpers
def _in_handler(node):
    cur = getattr(node, '_parent', None)
    while cur is not None and not isinstance(cur, (ast.FunctionDef, ast.AsyncFunctionDef)):
        if isinstance(cur, ast.ExceptHandler):
            return True
        cur = getattr(cur, '_parent', None)
    return False


def _is_safe(c):
    nm = call_name(c)
    if nm in SAFE_CALLS or nm in SAFE_PROJECT:
        return True
    return False


_REPO = [None]


def _explicit_raises(repo, name):
    """Exception class names a uniquely named repo function raises explicitly (None if not summarisable)."""
    cands = repo.funcs_named(name)
    if len(cands) != 1:
        return None
    fn = cands[0].node
    out = set()
    for n in [x for st in fn.body for x in ast.walk(st)]:
        if isinstance(n, ast.Raise):
            if n.exc is None:
                return None
            out.add(call_name(n.exc) if isinstance(n.exc, ast.Call) else unparse(n.exc))
        if isinstance(n, ast.Subscript) and isinstance(n.ctx, ast.Load):
            return None
        if isinstance(n, ast.Call) and call_name(n) not in ('get', 'Fault', 'add_reason_text', 'InvalidPathError'):
            return None
    return out


def _contained(node, stop):
    """node lies in the body of a try with a catch-all handler (below `stop`), or in the body of a try whose
    handlers catch everything the (summarisable) callee raises explicitly."""
    child, cur = node, getattr(node, '_parent', None)
    while cur is not None and cur is not stop:
        if isinstance(cur, ast.Try) and any(child is s for s in cur.body):
            if any(is_catch_all(h) for h in cur.handlers):
                return True
            if isinstance(node, ast.Call) and _REPO[0] is not None:
                rs = _explicit_raises(_REPO[0], call_name(node))
                caught = set()
                for h in cur.handlers:
                    if h.type is not None:
                        caught |= {getattr(e, 'id', getattr(e, 'attr', None))
                                   for e in (h.type.elts if isinstance(h.type, ast.Tuple) else [h.type])}
                if rs is not None and rs and rs <= caught and all(isinstance(a, (ast.Name, ast.Constant)) for a in node.args):
                    return True
        child, cur = cur, getattr(cur, '_parent', None)
    return False


def uncontained_calls(repo, fi, cls_q, depth=3, _seen=None):
    """Calls in fi (and in self-methods it calls outside a catch-all) that are not inside a catch-all try body."""
    _seen = _seen or set()
    out = []
    for c in calls_in(fi.node):
        if _contained(c, fi.node):
            continue
        f = c.func
        if cls_q and isinstance(f, ast.Attribute) and dotted(f.value) == 'self' and depth > 0:
            tgt = repo.resolve_method(cls_q, f.attr)
            if tgt is not None and tgt.qual not in _seen and tgt.module.name.startswith('sdc11073') and \
                    f.attr not in SAFE_PROJECT:
                inner = uncontained_calls(repo, tgt, cls_q, depth - 1, _seen | {tgt.qual})
                if f.attr in SAFE_CALLS:
                    # an override of a response-writing primitive (send_response that tidies the reason phrase): string
                    # operations that are total on str do not count
                    inner = [(c2, f2) for c2, f2 in inner if call_name(c2) not in TOTAL_ON_STR]
                out.extend(inner)
                continue
        out.append((c, fi))
    return out


def _uncontained_in_stmt(st):
    out = []
    if isinstance(st, ast.Try) and any(is_catch_all(h) for h in st.handlers):
        # body is contained; handlers must not re-raise
        for h in st.handlers:
            if is_catch_all(h):
                for x in ast.walk(h):
                    if isinstance(x, ast.Raise):
                        out.append(ast.Call(func=ast.Name(id='raise_in_catch_all', ctx=ast.Load()), args=[], keywords=[]))
        return out
    for c in calls_in(st):
        if not _contained(c, st):
            out.append(c)
    return out


def _loop_exits_on_empty(w, var, st):
    # while var:  (read assigned before and at the end of the loop)
    if isinstance(w.test, ast.Name) and w.test.id == var:
        return True
    for n in ast.walk(w):
        if isinstance(n, ast.If):
            t = n.test
            exits = any(isinstance(x, (ast.Break, ast.Raise, ast.Return)) for s in n.body for x in ast.walk(s))
            if not exits:
                continue
            if isinstance(t, ast.UnaryOp) and isinstance(t.op, ast.Not) and isinstance(t.operand, ast.Name) and \
                    t.operand.id == var:
                return True
            if isinstance(t, ast.Compare) and isinstance(t.left, ast.Name) and t.left.id == var and \
                    len(t.ops) == 1 and isinstance(t.ops[0], ast.NotEq):
                return True  # v != NON_EMPTY_CONSTANT: an empty read differs and leaves the loop
            if isinstance(t, ast.Compare) and unparse(t) in (f'len({var}) == 0', f"{var} == b''"):
                return True
    return False


# ---------------------------------------------------------------------- self-test seeds
from selftest import seed  # noqa: E402

_R = 'src/sdc11073/httpserver/httpreader.py'
_H = 'src/sdc11073/httpserver/httprequesthandler.py'
_MR = 'src/sdc11073/pysoap/msgreader.py'
SEEDS = [
    seed('reason text stored unfiltered again (the defect repaired by fe23efc)', 'C13.R3',
         ('src/sdc11073/pysoap/soapenvelope.py', "        txt.text = _XML_INCOMPATIBLE_CHARS.sub('?', text)", "        txt.text = text")),
    seed('read_received_message with default parser', 'C13.R1',
         (_MR, "        parser = etree.ETCompatXMLParser(resolve_entities=False)\n        try:\n            doc_root = etree.fromstring(xml_text, parser=parser)",
          "        try:\n            doc_root = etree.fromstring(xml_text)")),
    seed('read_xml_text: parser resolves entities', 'C13.R1',
         (_MR, "        parser = etree.ETCompatXMLParser(resolve_entities=False)\n        try:\n            node = etree.fromstring(xml_text, parser=parser)",
          "        parser = etree.ETCompatXMLParser()\n        try:\n            node = etree.fromstring(xml_text, parser=parser)")),
    seed('wsdl parser loads DTDs', 'C13.R1',
         (_MR, "parser=etree.ETCompatXMLParser(resolve_entities=False))", "parser=etree.ETCompatXMLParser(resolve_entities=False, load_dtd=True))")),
    seed('middleware reads without validation', 'C13.R2',
         ('src/sdc11073/dispatch/messageconverter.py', "            message_data = self._msg_reader.read_received_message(request_bytes)\n        except HTTPRequestHandlingError as ex:\n            self._logger.warning",
          "            message_data = self._msg_reader.read_received_message(request_bytes, validate=False)\n        except HTTPRequestHandlingError as ex:\n            self._logger.warning")),
    seed('body validation skipped for small messages', 'C13.R2',
         (_MR, "        if message.msg_node is not None and validate:\n            self._validate_node(message.msg_node)",
          "        if message.msg_node is not None and validate and len(xml_text) > 200:\n            self._validate_node(message.msg_node)")),
    seed('do_POST reads the request outside the handler', 'C13.R3',
         (_H, "        try:\n            request_bytes = self._read_request()\n            first_path_element = self.get_first_path_element()\n        except Exception as ex:",
          "        request_bytes = self._read_request()\n        try:\n            first_path_element = self.get_first_path_element()\n        except Exception as ex:")),
    seed('do_GET dispatch outside the handler', 'C13.R3',
         (_H, "        try:\n            component = self.server.dispatcher.get_instance(self.get_first_path_element())\n            peer_name = self.connection.getpeername()",
          "        component = self.server.dispatcher.get_instance(self.get_first_path_element())\n        try:\n            peer_name = self.connection.getpeername()")),
    seed('chunk loop without EOF exit', 'C13.R4',
         (_R, "                if not chunk:\n                    raise DechunkError('Unexpected end of data inside a chunk')\n", "")),
    seed('negative chunk size accepted', 'C13.R4',
         (_R, "            if chunk_len < 0:\n                raise DechunkError('Negative chunk size')\n", "")),
    seed('chunk header split before None check', 'C13.R4',
         (_R, "            if chunk_header is None:\n                raise DechunkError(\n                    'Could not extract chunk size: unexpected end of data.')\n            chunk_headers = chunk_header.split(b';')",
          "            chunk_headers = chunk_header.split(b';')\n            if chunk_header is None:\n                raise DechunkError(\n                    'Could not extract chunk size: unexpected end of data.')")),
    seed('content-length sign check dropped', 'C13.R4',
         (_R, "                    if content_length < 0:\n                        raise ValueError(f'invalid content-length \"{cl_string}\"')\n", "")),
    seed('deferred dispatcher worker without catch-all', 'C13.R5',
         ('src/sdc11073/consumer/request_handler_deferred.py', "            try:\n                func(request)\n            except Exception:  # noqa: BLE001",
          "            try:\n                func(request)\n            except KeyError:  # noqa: BLE001")),
    seed('control: rename parser variable', 'C13.R1',
         (_MR, "        parser = etree.ETCompatXMLParser(resolve_entities=False)\n        try:\n            node = etree.fromstring(xml_text, parser=parser)",
          "        safe_parser = etree.ETCompatXMLParser(resolve_entities=False)\n        try:\n            node = etree.fromstring(xml_text, parser=safe_parser)"), control=True),
]
