"""C11 - every MDIB lookup always agrees with a scan of the stored objects.

Decided (structural necessary conditions):
  R1 insertion is atomic: in every add path the object enters `_objects` only after all indices
     accepted it, and `_mk_indices` rolls back the indices already filled when one rejects the object
     (or every table registers its unique indices first).
  R2 every in-place update of a table-resident object (`update_from_other_container`) is followed on all
     paths by `update_object*` of that object; subscription key attributes are set before insertion.
  R3 update = un-index by the recorded back-references, then index again; removal un-indexes and
     removes; clear empties objects, back-references and every index.
"""
from __future__ import annotations

import ast

from engine.cfg import call_name, cfg_of
from engine.errors import AnalysisError
from engine.flow import Resident
from engine.repo import walk_no_nested
from engine.util import calls_in, dotted, local_assignments, unparse, xsrc

ID = 'C11'
MK = 'sdc11073.multikey.MultiKeyLookup'


def _calls_on_self(g, name):
    out = []
    for n, c in g.nodes_calling(name):
        if isinstance(c.func, ast.Attribute) and dotted(c.func.value) in ('self', 'self._objects', 'self._object_ids'):
            out.append((n, c))
    return out


def run(ctx):  # noqa: C901, PLR0912, PLR0915
    repo = ctx.repo
    ctx.rule('C11.R1', 'ORDER + rollback: object enters _objects only after the indices accepted it; a rejecting index '
                       'leaves no partial index entries')
    ctx.rule('C11.R2', 'MUST-PASS: update_from_other_container on a resident object is followed by update_object*')
    ctx.rule('C11.R3', 'update/remove/clear use the back-references made at insertion')
    mk = repo.cls(MK)
    add_methods = [m for m in mk.methods if m.startswith('add_object')]
    ctx.floor('C11.R1', len(add_methods), 4, 'add_object* methods of MultiKeyLookup')
    n_sites = 0
    for m in sorted(add_methods):
        fi = mk.methods[m]
        g = cfg_of(fi)
        la = local_assignments(fi.node)
        obj_alias = {'self._objects'} | {k for k, v in la.items() if v and all(unparse(x) == 'self._objects' for x in v)}
        adds = [(n, c) for n, c in g.nodes_calling('add') if unparse(c.func.value) in obj_alias]
        mkis = [(n, c) for n, c in g.nodes_calling('_mk_indices')]
        delegates = [c for c in calls_in(fi.node) if call_name(c) in add_methods and call_name(c) != m]
        if not adds and delegates:
            ctx.ob('C11.R1', f'{m} delegates', True, f'{m} delegates to {call_name(delegates[0])}', fi=fi)
            continue
        if not adds:
            raise AnalysisError(f'C11.R1: {m} neither adds to _objects nor delegates')
        for n, c in adds:
            n_sites += 1
            ok = bool(mkis) and any(g.dominates(mn, n) for mn, _ in mkis)
            ctx.ob('C11.R1', f'{m}: {unparse(c)}', ok,
                   f'{m}: the object is added to _objects only after _mk_indices accepted it' if ok else
                   f'{m}: the object is added to _objects before the indices are built; when a unique index rejects '
                   f'it (duplicate key) it stays in the object list without back-references and can never be removed',
                   fi=fi, node=c, witness={'mk_indices_lines': [x.lineno for x, _ in mkis]})
    ctx.floor('C11.R1', n_sites, 3, 'writes to _objects in add paths')
    # overrides in subclasses must end in the base implementation
    for cq in repo.subclasses(MK):
        for m in add_methods:
            fi = repo.classes[cq].methods.get(m)
            if fi is None:
                continue
            names = {call_name(c) for c in calls_in(fi.node)}
            names |= {a.attr for a in ast.walk(fi.node) if isinstance(a, ast.Attribute) and dotted(a.value) == 'self'}
            ok = bool(names & set(add_methods)) or 'super' in names
            direct = any(unparse(c.func) == 'self._objects.add' for c in calls_in(fi.node))
            ctx.ob('C11.R1', f'{cq.rsplit(".", 1)[1]}.{m} override', ok and not direct,
                   f'override {cq.rsplit(".", 1)[1]}.{m} ends in a checked add path and does not write _objects itself',
                   fi=fi)
    # rollback inside _mk_indices or unique-first registration everywhere
    mi = mk.methods.get('_mk_indices')
    if mi is None:
        raise AnalysisError('C11.R1: MultiKeyLookup._mk_indices not found')
    rollback, why = _has_rollback(mi)
    unique_first, order = _unique_first(repo)
    ctx.ob('C11.R1', '_mk_indices rollback', rollback or unique_first,
           ('_mk_indices undoes the indices already filled when one index rejects the object' if rollback else
            'every table registers its unique indices before the others') if (rollback or unique_first) else
           f'a unique index that rejects an object leaves earlier indices populated ({why}); tables registering a '
           f'non-unique index first: {[k for k, v in order.items() if not v]}', fi=mi,
           witness={'rollback': rollback, 'unique_first': order})
    ui = repo.func('sdc11073.multikey.UIndexDefinition.mk_keys')
    g = cfg_of(ui)
    stores = [n for n in g.real_nodes() if n.kind == 'stmt' and isinstance(n.stmt, ast.Assign) and
              isinstance(n.stmt.targets[0], ast.Subscript) and unparse(n.stmt.targets[0].value) == 'self']
    raises = [n for n in g.real_nodes() if n.kind == 'raisestmt' and 'KeyError' in unparse(n.stmt)]
    ok = bool(stores) and bool(raises) and all(
        any((txt.endswith(' in self'), pol) == (True, False) for txt, pol in g.facts_at(s)) for s in stores)
    ctx.ob('C11.R1', 'unique index checks before it stores', ok,
           'UIndexDefinition.mk_keys stores a key only on the false edge of `k in self` and raises KeyError otherwise',
           fi=ui, witness=[g.facts_at(s) for s in stores])

    from . import common
    # an object enters the table as a copy that shares nothing with the one the application keeps: the indexed attributes of a
    # resident object change only through update_object (R2), never through a value shared with a copy
    common.copies_are_deep(ctx, 'C11.R2')
    common.entity_getters_hand_out_copies(ctx, 'C11.R2')
    common.no_mutation_while_iterating(ctx, 'C11.R3', ['sdc11073.multikey', 'sdc11073.mdib.mdibbase'])
    common.table_object_sets_are_private(ctx, 'C11.R1')
    go1 = repo.func('sdc11073.multikey.IndexDefinition.get_one')
    gg1 = cfg_of(go1)
    loose1 = [n_.text()[:50] for n_ in gg1.real_nodes() if n_.kind in ('stmt', 'return', 'raisestmt') and
              not gg1.held_withs(n_, '_lock') and any(isinstance(x, (ast.Subscript, ast.Call)) for x in n_.walk())]
    ctx.ob('C11.R3', 'get_one evaluates the index entry under the lock', not loose1,
           'IndexDefinition.get_one fetches and evaluates the entry inside `with self._lock`' if not loose1 else
           f'IndexDefinition.get_one works on the fetched list outside the table lock ({loose1[:2]}): update_object empties and '
           f'refills that list under the lock - a concurrent reader gets IndexError for a key that exists throughout', fi=go1)
    mki = mk.methods['_mk_indices']
    inner_types, outer = set(), None
    for t_ in [x for x in walk_no_nested(mki.node) if isinstance(x, ast.Try)]:
        for h in t_.handlers:
            if any(isinstance(x, ast.Raise) for b in h.body for x in ast.walk(b)):
                outer = h
            else:
                inner_types |= {unparse(e).split('.')[-1] for e in (h.type.elts if isinstance(h.type, ast.Tuple) else [h.type])} \
                    if h.type is not None else {'BaseException'}
    if outer is None:
        raise AnalysisError('C11.R1: the roll-back handler of _mk_indices was not found')
    undo = [c for b in outer.body for c in ast.walk(b) if isinstance(c, ast.Call) and isinstance(c.func, ast.Attribute)]
    per_obj = [c for c in undo if c.func.attr == 'rm_key' and len(c.args) == 2]
    blunt = [unparse(c)[:50] for c in undo if c.func.attr in ('pop', 'clear', 'popitem', '__delitem__')] + \
            [unparse(d)[:50] for b in outer.body for d in ast.walk(b) if isinstance(d, ast.Delete)]
    ctx.ob('C11.R1', 'roll-back removes only the rejected object', bool(per_obj) and not blunt,
           'the roll-back of a rejected insert takes the object out of the index entries it had entered (rm_key(key, obj))'
           if per_obj and not blunt else
           f'the roll-back of a rejected insert drops whole index entries ({blunt}): the other objects stored under the same key of '
           f'a non-unique index (all context states of the descriptor) disappear from that lookup', fi=mki)
    # what a unique index raises to refuse an object is not one of the exception types that _mk_indices takes for "this index does
    # not apply to the object" and swallows
    for q_, fi_ in sorted(repo.funcs.items()):
        if not (q_.startswith('sdc11073.multikey.') and fi_.name == 'mk_keys'):
            continue
        raised = {call_name(r.exc) if isinstance(r.exc, ast.Call) else unparse(r.exc) for r in walk_no_nested(fi_.node)
                  if isinstance(r, ast.Raise) and r.exc is not None}
        lost = sorted(raised & inner_types)
        if raised:
            ctx.ob('C11.R1', f'{fi_.cls.name}.mk_keys: refusals reach the caller', not lost,
                   f'{fi_.cls.name}.mk_keys refuses with {sorted(raised)}, none of which _mk_indices swallows' if not lost else
                   f'{fi_.cls.name}.mk_keys refuses an object with {lost}, which _mk_indices swallows as "index does not apply": the '
                   f'object is added to the table and to the other indices, the unique lookup does not know it', fi=fi_)
    keys_all = {attr for tbl in index_key_attrs(repo).values() for (attr, _kind) in tbl.values() if attr}
    n_add = 0
    for q_, fi_ in sorted(repo.funcs.items()):
        if not q_.startswith(('sdc11073.mdib.', 'sdc11073.provider.subscriptionmgr')):
            continue
        ga = cfg_of(fi_)
        for an, ac in [(n_, c_) for n_ in ga.real_nodes() for c_ in n_.calls()
                       if (call_name(c_) or '').startswith('add_object') and c_.args]:
            n_add += 1
            obj_txt = unparse(ac.args[0])
            late = [m for m in ga.real_nodes() if m.kind == 'stmt' and isinstance(m.stmt, (ast.Assign, ast.AugAssign)) and
                    any(isinstance(t, ast.Attribute) and t.attr in keys_all and unparse(t.value) == obj_txt
                        for t in (m.stmt.targets if isinstance(m.stmt, ast.Assign) else [m.stmt.target])) and
                    ga.path_exists(an, m, normal_only=True)]
            fixed = [u for u, c_ in ga.nodes_calling('update_object') + ga.nodes_calling('update_object_no_lock')]
            late = [m for m in late if not any(ga.path_exists(m, u, normal_only=True) for u in fixed)]
            if late:
                ctx.ob('C11.R2', f'{fi_.name}: key attribute of {obj_txt} assigned after insertion', False,
                       f'{fi_.cls.name + "." if fi_.cls else ""}{fi_.name} assigns {[unparse(m.stmt)[:50] for m in late][:2]} after '
                       f'{unparse(ac)[:50]} put the object into the table: the index was built with the old key, the lookup by '
                       f'the new key misses an object that a scan finds', fi=fi_, node=late[0].stmt)
    ctx.ob('C11.R2', 'key attributes are complete before insertion', True, f'{n_add} insertions checked')
    ctx.floor('C11.R2', n_add, 5, 'add_object calls in the MDIB and subscription code')
    # ------------------------------------------------------------------ R2
    n_upd = 0
    for fi in repo.funcs.values():
        if not fi.module.name.startswith('sdc11073'):
            continue
        upd_calls = [c for c in calls_in(fi.node, 'update_from_other_container')]
        if not upd_calls:
            continue
        is_mdib = fi.cls is not None and 'sdc11073.mdib.mdibbase.MdibBase' in repo.mro(fi.cls.qual)
        res = Resident(fi.node, self_is_mdib=is_mdib,
                       extra_sources=(lambda e: isinstance(e, ast.Attribute) and e.attr == 'old'
                                      and isinstance(e.value, ast.Name)))
        g = cfg_of(fi)
        for n, c in g.nodes_calling('update_from_other_container'):
            recv = c.func.value
            if not res.is_resident(recv):
                continue
            n_upd += 1
            rname = unparse(recv)
            reidx = [m for m, cc in g.nodes_calling('update_object') + g.nodes_calling('update_object_no_lock')
                     if cc.args and unparse(cc.args[0]) == rname]
            # the re-index must happen before the object name is rebound (next loop iteration) or the function ends
            ends = [g.exit] + [h for h in g.nodes if h.kind == 'for' and h.stmt in n.loops]
            reach = g._pp_reach([(n, 1)], avoid=reidx, normal_only=True)  # noqa: SLF001
            leak = [e for e in ends if (e.id, 0) in reach]
            ok = bool(reidx) and not leak
            ctx.ob('C11.R2', f'{rname}.update_from_other_container', ok,
                   f'{rname} is re-indexed (update_object) on every path after the in-place update' if ok else
                   f'{rname} is updated in place but not re-indexed on every path: lookups by an indexed attribute '
                   f'that changed (parent, ConditionSignaled, Source, handle ...) keep returning the old result',
                   fi=fi, node=c, witness={'reindex_lines': [m.lineno for m in reidx],
                                           'escapes_to': [e.text()[:40] for e in leak]})
    ctx.floor("C11.R2", n_upd, 6, 'in-place updates of table-resident objects')
    # subscription table: key attributes assigned before add_object
    _subscription_keys(ctx, repo)

    # ------------------------------------------------------------------ R3
    for m in ('update_object', 'update_object_no_lock', 'update_objects_no_lock'):
        fi = mk.methods.get(m)
        if fi is None:
            raise AnalysisError(f'C11.R3: MultiKeyLookup.{m} missing')
        g = cfg_of(fi)
        rm = g.nodes_calling('_rm_indices')
        mi_ = g.nodes_calling('_mk_indices')
        ok = bool(rm) and bool(mi_) and all(any(g.dominates(r, x) for r, _ in rm) for x, _ in mi_)
        ctx.ob('C11.R3', f'{m}: un-index then index', ok, f'{m} calls _rm_indices and then _mk_indices', fi=fi)
    for m in ('update_object', 'update_objects'):
        fi = mk.methods.get(m)
        names = {call_name(c) for c in calls_in(fi.node)}
        ctx.ob('C11.R3', f'{m} complete', ('_rm_indices' in names and '_mk_indices' in names) or
               'update_objects_no_lock' in names, f'{m} re-indexes or delegates', fi=fi)
    for m in [x for x in mk.methods if x.startswith('remove_object')]:
        fi = mk.methods[m]
        names = [call_name(c) for c in calls_in(fi.node)]
        g = cfg_of(fi)
        if '_rm_indices' in names:
            rem = [n for n, c in g.nodes_calling('remove') if unparse(c.func) == 'self._objects.remove']
            rmi = g.nodes_calling('_rm_indices')
            ok = bool(rem) and all(any(g.dominates(r, x) for r, _ in rmi) for x in rem) and \
                all(g.must_pass(r, rem + [h for h in g.nodes if h.kind == 'for']) for r, _ in rmi)
            ctx.ob('C11.R3', f'{m}: un-index and remove', ok,
                   f'{m} removes the object from _objects whenever it removed its index entries', fi=fi)
        else:
            ctx.ob('C11.R3', f'{m} delegates', any(x and x.startswith('remove_object') for x in names),
                   f'{m} delegates to another removal method', fi=fi)
    # an index leaves an object out only for the key None (and only when told to): 0, '' or an empty tuple are keys like any
    # other - an object that is left out is not found through this lookup although it is in the table
    n_skip = 0
    for q_, fi_ in sorted(repo.funcs.items()):
        if not (q_.startswith('sdc11073.multikey.') and fi_.name == 'mk_keys'):
            continue
        g_ = cfg_of(fi_)
        kvars = {t.id for x in walk_no_nested(fi_.node) if isinstance(x, ast.Assign) and isinstance(x.value, ast.Call) and
                 call_name(x.value) == '_get_key_func' for t in x.targets if isinstance(t, ast.Name)}
        for r in g_.nodes:
            if r.kind == 'return' and (r.stmt.value is None or
                                       (isinstance(r.stmt.value, ast.Constant) and r.stmt.value.value is None)):
                n_skip += 1
                facts = list(g_.facts_at(r).both()) if hasattr(g_.facts_at(r), 'both') else list(g_.facts_at(r))
                ok = any(p is True and t in {f'{k} is None' for k in kvars} for t, p in facts) and \
                    any(p is False and t.endswith('_index_none_values') for t, p in facts)
                ctx.ob('C11.R3', f'{fi_.cls.name}.mk_keys leaves out only None', ok,
                       f'{fi_.cls.name}.mk_keys skips an object only when its key is None and None is not indexed' if ok else
                       f'{fi_.cls.name}.mk_keys returns without storing under {facts}: an object whose key is merely falsy (0, '
                       f'"", an empty list) is left out of the index and cannot be found through it', fi=fi_, node=r.stmt)
    ctx.floor('C11.R3', n_skip, 3, 'skip exits of mk_keys')
    # a multi-valued index reports exactly the keys it stored under (one per stored entry): the back references that
    # _rm_indices removes later are built from the returned list
    for q_, fi_ in sorted(repo.funcs.items()):
        if not (q_.startswith('sdc11073.multikey.') and fi_.name == 'mk_keys'):
            continue
        loops_ = [lp for lp in walk_no_nested(fi_.node) if isinstance(lp, ast.For) and any(
            isinstance(x, ast.Subscript) and unparse(x.value) == 'self' for b in lp.body for x in ast.walk(b))]
        if not loops_:
            continue
        g_ = cfg_of(fi_)
        rets_ = [r for r in g_.nodes if r.kind == 'return' and r.stmt.value is not None and
                 not (isinstance(r.stmt.value, ast.Constant) and r.stmt.value.value is None)]
        it_txt = unparse(loops_[0].iter)
        ok = bool(rets_) and all(g_.origin_text(r, r.stmt.value) == it_txt or unparse(r.stmt.value) == it_txt for r in rets_)
        ctx.ob('C11.R3', f'{fi_.cls.name}.mk_keys returns the stored keys', ok,
               f'{fi_.cls.name}.mk_keys returns the list of keys it stored the object under, entry by entry' if ok else
               f'{fi_.cls.name}.mk_keys stores once per element of {it_txt} but returns {[unparse(r.stmt.value) for r in rets_]}: '
               f'an object stored twice under one key gets one back reference, removal leaves a stale entry in the index',
               fi=fi_)
    from . import common
    common.index_lists_not_mutated_while_iterated(ctx, 'C11.R3')
    ri = mk.methods['_rm_indices']
    src = xsrc(ri)
    ok = 'self._object_ids' in src and 'rm_key' in src and any(isinstance(n, ast.Delete) for n in walk_no_nested(ri.node))
    ctx.ob('C11.R3', '_rm_indices uses back-references', ok,
           '_rm_indices removes exactly the (index, key) pairs recorded in _object_ids[id(obj)] and drops the record',
           fi=ri)
    mi_src = xsrc(mi)
    from engine.deps import Deps
    dmi = Deps(mi.node)
    recorded = False
    for c in calls_in(mi.node):
        if call_name(c) in ('extend', 'append') and isinstance(c.func, ast.Attribute) and c.args:
            recv = unparse(c.func.value)
            if 'self._object_ids' in recv and 'id(obj)' in recv and \
                    {'call:_ObjRef', 'call:mk_keys'} <= dmi.sources(c.args[0]):
                recorded = True
    ctx.ob('C11.R3', '_mk_indices records back-references', recorded and '_ObjRef' in mi_src,
           '_mk_indices records an _ObjRef for every key it created', fi=mi)
    cl = mk.methods['clear']
    src = xsrc(cl)
    ok = 'self._objects.clear()' in src and 'self._object_ids.clear()' in src and \
        any(isinstance(n, ast.For) and '_idx_defs' in unparse(n.iter) and '.clear()' in unparse(n)
            for n in walk_no_nested(cl.node))
    ctx.ob('C11.R3', 'clear', ok, 'clear empties the object set, the back-references and every index', fi=cl)
    # add_index indexes the objects that are already in the table
    ai = mk.methods['add_index']
    src = xsrc(ai)
    ctx.ob('C11.R3', 'add_index back-fills', 'for obj in self._objects' in src and 'mk_keys(obj)' in src and
           '_object_ids' in src, 'add_index indexes existing objects and records the back-references', fi=ai)


def _has_rollback(mi):
    """try: <for over _idx_defs: mk_keys> except <catch-all>: <for: rm_key>; raise"""
    for n in walk_no_nested(mi.node):
        if isinstance(n, ast.Try):
            body_src = ' '.join(unparse(s) for s in n.body)
            if 'mk_keys' not in body_src or '_idx_defs' not in body_src:
                continue
            # the try must not itself swallow the rejection: look at handlers of THIS try
            for h in n.handlers:
                hsrc = ' '.join(unparse(s) for s in h.body)
                t = unparse(h.type) if h.type is not None else ''
                catches = h.type is None or any(x in t for x in ('Exception', 'KeyError', 'BaseException'))
                reraises = any(isinstance(s, ast.Raise) and s.exc is None for s in ast.walk(h))
                if not (catches and reraises):
                    continue
                # the undo loop walks the references recorded so far and removes each (index, key) pair it names
                collected = {unparse(c.func.value) for c in calls_in(n, 'extend') + calls_in(n, 'append')
                             if any(c is x for s in n.body for x in ast.walk(s))}
                for lp in [x for x in ast.walk(h) if isinstance(x, ast.For) and isinstance(x.target, ast.Name)]:
                    if unparse(lp.iter) not in collected:
                        continue
                    v = lp.target.id
                    for c in calls_in(lp, 'rm_key'):
                        recv, args = c.func.value, c.args
                        if isinstance(recv, ast.Attribute) and isinstance(recv.value, ast.Name) and recv.value.id == v \
                                and len(args) == 2 and isinstance(args[0], ast.Attribute) and \
                                isinstance(args[0].value, ast.Name) and args[0].value.id == v and \
                                unparse(args[1]) in [a.arg for a in mi.node.args.args]:
                            return True, 'rollback handler present'
                return False, 'the handler does not remove exactly the (index, key) pairs recorded before the rejection'
    return False, 'no handler undoes the keys collected so far'


def _unique_first(repo):
    out = {}
    for cq, ci in repo.classes.items():
        if MK not in repo.mro(cq) or cq == MK:
            continue
        init = ci.methods.get('__init__')
        if init is None:
            continue
        kinds = []
        for c in calls_in(init.node, 'add_index'):
            if len(c.args) == 2 and isinstance(c.args[1], ast.Call):
                kinds.append((c.lineno, call_name(c.args[1]) == 'UIndexDefinition'))
        kinds.sort()
        if kinds:
            seen_non = False
            ok = True
            for _, uniq in kinds:
                if uniq and seen_non:
                    ok = False
                if not uniq:
                    seen_non = True
            out[cq.rsplit('.', 1)[1]] = ok
    return bool(out) and all(out.values()), out


def index_key_attrs(repo):
    """table class -> {index name: attribute read by the key lambda}"""
    out = {}
    for cq, ci in repo.classes.items():
        init = ci.methods.get('__init__')
        if init is None:
            continue
        for c in calls_in(init.node, 'add_index'):
            if len(c.args) == 2 and isinstance(c.args[0], ast.Constant) and isinstance(c.args[1], ast.Call) and \
                    c.args[1].args and isinstance(c.args[1].args[0], ast.Lambda):
                lam = c.args[1].args[0]
                attrs = [a.attr for a in ast.walk(lam.body) if isinstance(a, ast.Attribute)]
                out.setdefault(cq, {})[c.args[0].value] = (attrs[0] if attrs else unparse(lam.body),
                                                          call_name(c.args[1]))
    return out


def _subscription_keys(ctx, repo):
    # find the table of subscriptions and its key attributes
    tables = {}
    for fi in repo.funcs.values():
        if not fi.module.name.startswith('sdc11073.provider.subscriptionmgr'):
            continue
        for c in calls_in(fi.node, 'add_index'):
            if len(c.args) == 2 and isinstance(c.args[1], ast.Call) and c.args[1].args and \
                    isinstance(c.args[1].args[0], ast.Lambda):
                attrs = [a.attr for a in ast.walk(c.args[1].args[0].body) if isinstance(a, ast.Attribute)]
                tables.setdefault(fi.qual, set()).update(attrs)
    keys = set().union(*tables.values()) if tables else set()
    if not keys:
        raise AnalysisError('C11.R2: subscription table indices not found')
    # every store to a key attribute of a subscription object outside its own class __init__ must precede add_object
    base = repo.func('sdc11073.provider.subscriptionmgr_base.SubscriptionsManagerBase.on_subscribe_request')
    g = cfg_of(base)
    adds = g.nodes_calling('add_object')
    mks = g.nodes_calling('_mk_subscription_instance')
    ok = bool(adds) and bool(mks) and all(g.dominates(m, a) for m, _ in mks for a, _ in adds)
    ctx.ob('C11.R2', 'subscription keys before insertion', ok,
           f'the subscription (key attributes {sorted(keys)}) is completely built by _mk_subscription_instance before '
           f'add_object', fi=base, witness={'keys': sorted(keys)})
    late = []
    for fi in repo.funcs.values():
        if not fi.module.name.startswith('sdc11073.provider'):
            continue
        if fi.name in ('__init__', '_mk_subscription_instance', 'set_reference_parameter'):
            continue
        for n in walk_no_nested(fi.node):
            if isinstance(n, ast.Assign):
                for t in n.targets:
                    if isinstance(t, ast.Attribute) and t.attr in keys and dotted(t.value) not in (None,) and \
                            'subscr' in (dotted(t.value) or '').lower():
                        late.append(f'{fi.qual}:{n.lineno} {unparse(t)}')
    ctx.ob('C11.R2', 'no late key stores', not late,
           'no code outside construction assigns an indexed attribute of a subscription', witness=late,
           where='sdc11073.provider.subscriptionmgr*')


# ---------------------------------------------------------------------- self-test seeds
from selftest import seed  # noqa: E402

_M = 'src/sdc11073/multikey.py'
_CM = 'src/sdc11073/mdib/consumermdib.py'
SEEDS = [
    seed('add_object: object first, indices second', 'C11.R1',
         (_M, "        with self._lock:\n            self._mk_indices(obj)\n            self._objects.add(obj)",
          "        with self._lock:\n            self._objects.add(obj)\n            self._mk_indices(obj)")),
    seed('add_objects_no_lock: object first', 'C11.R1',
         (_M, "                continue\n            self._mk_indices(obj)\n            self._objects.add(obj)",
          "                continue\n            self._objects.add(obj)\n            self._mk_indices(obj)")),
    seed('rollback removed from _mk_indices', 'C11.R1',
         (_M, "            for obj_ref in all_keys:\n                obj_ref.index_dict.rm_key(obj_ref.key, obj)\n            raise",
          "            raise")),
    seed('rollback removes from the rejecting index instead of the recorded one', 'C11.R1',
         (_M, "                obj_ref.index_dict.rm_key(obj_ref.key, obj)\n            raise", "                index_definition.rm_key(obj_ref.key, obj)\n            raise")),
    seed('unique index stores before it checks', 'C11.R1',
         (_M, "            if k in self:\n                msg = f'key \"{k}\" in already in this UIndex'\n                raise KeyError(msg)\n            self[k] = [obj]",
          "            known = k in self\n            self[k] = [obj]\n            if known:\n                msg = f'key \"{k}\" in already in this UIndex'\n                raise KeyError(msg)")),
    seed('consumer: descriptor update not re-indexed', 'C11.R2',
         (_CM, "                                old_container.update_from_other_container(descriptor_container)\n                                self.descriptions.update_object(old_container)\n",
          "                                old_container.update_from_other_container(descriptor_container)\n")),
    seed('consumer: context state update re-indexed only for changed association', 'C11.R2',
         (_CM, "                        old_state_container.update_from_other_container(state_container)\n                        src.update_object(old_state_container)\n                        states_by_handle[old_state_container.Handle]",
          "                        changed = old_state_container.ContextAssociation != state_container.ContextAssociation\n                        old_state_container.update_from_other_container(state_container)\n                        if changed:\n                            src.update_object(old_state_container)\n                        states_by_handle[old_state_container.Handle]")),
    seed('provider commit: updated descriptor not re-indexed', 'C11.R2',
         ('src/sdc11073/mdib/transactions.py', "                    self._mdib.descriptions.update_object_no_lock(orig_descriptor)\n", "")),
    seed('update_object: index before un-index', 'C11.R3',
         (_M, "        with self._lock:\n            self._rm_indices(obj)\n            self._mk_indices(obj)\n\n    def update_object_no_lock",
          "        with self._lock:\n            self._mk_indices(obj)\n            self._rm_indices(obj)\n\n    def update_object_no_lock")),
    seed('clear forgets the back-references', 'C11.R3', (_M, "            self._object_ids.clear()\n", "")),
    seed('remove_object_no_lock keeps the object', 'C11.R3',
         (_M, "        self._rm_indices(obj)\n        self._objects.remove(obj)\n\n    def remove_objects(", "        self._rm_indices(obj)\n\n    def remove_objects(")),
    seed('control: add_object_no_lock local alias', 'C11.R1',
         (_M, "            return\n        self._mk_indices(obj)\n        self._objects.add(obj)",
          "            return\n        self._mk_indices(obj)\n        objects = self._objects\n        objects.add(obj)"), control=True, ),
]
