"""C02 - MDIB version counters are monotonic, gap-free and referentially consistent.

Decided (structural necessary conditions):
  R1 MdibVersion: new_mdib_version is `current + 1`, computed once per transaction; every
     process_transaction writes mdib_version only as `= self.new_mdib_version`, only under the
     non-emptiness test of its update dict, together with all table effects; nobody else on the
     provider side writes mdib_version; the commit runs once and never on the abort edge.
  R2 every TransactionItem(old, new) with an existing old gets new's version incremented (or, for new
     objects, passes through set_version) unless the adjust flag is off.
  R3 every removal entry point of the three versioned tables saves the version before the indices are
     removed (resolved through the MRO, dynamic dispatch); set_version continues with saved + 1 and
     uses the same key attribute as _save_version.
  R4 descriptor create/update reach _update_corresponding_state, delete removes the subtree with its
     states; parent version bump is guarded by the created/deleted membership tests.
  R5 single writer: all public *_transaction context managers delegate to _transaction_manager, which
     holds _tr_lock and mdib_lock around yield and commit; process_transaction has no other caller.
"""
from __future__ import annotations

import ast

from engine.cfg import call_name, cfg_of
from engine.errors import AnalysisError
from engine.flow import Resident
from engine.repo import walk_no_nested
from engine.util import calls_in, dotted, local_assignments, unparse, xsrc

ID = 'C02'
TR = 'sdc11073.mdib.transactions'
PM = 'sdc11073.mdib.providermdib.ProviderMdib'
MK = 'sdc11073.multikey.MultiKeyLookup'
VL = 'sdc11073.mdib.mdibbase._MultikeyWithVersionLookup'
ALLOWED_VERSION_WRITERS = {
    'sdc11073.mdib.mdibbase.MdibBase.__init__': 'initial value 0',
    'sdc11073.mdib.consumermdib.ConsumerMdib._update_from_mdib_version_group': 'consumer mirrors the provider version',
    'sdc11073.mdib.consumermdib.ConsumerMdib.reload_all': 'consumer reload',
}
TABLE_MUTATORS = {'add_object', 'add_object_no_lock', 'add_objects', 'add_objects_no_lock', 'remove_object',
                  'remove_object_no_lock', 'remove_objects', 'remove_objects_no_lock', 'update_object',
                  'update_object_no_lock', 'update_objects', 'update_objects_no_lock', 'clear',
                  'rm_descriptors_and_states', 'rm_descriptor_by_handle'}


def transaction_classes(repo):
    mod = repo.module(TR)
    lookup = None
    for n in mod.tree.body:
        if isinstance(n, ast.Assign) and isinstance(n.targets[0], ast.Name) and \
                n.targets[0].id == '_transaction_type_lookup' and isinstance(n.value, ast.Dict):
            lookup = n.value
    if lookup is None:
        raise AnalysisError('C02: _transaction_type_lookup not found in transactions.py')
    out = []
    for v in lookup.values:
        q = repo.resolve_name(mod, unparse(v))
        if q not in repo.classes:
            raise AnalysisError(f'C02: transaction class {unparse(v)} not resolvable')
        out.append(q)
    return out


def commit_closure(repo, cls_q):
    """process_transaction and everything it reaches through self.m() on class cls_q."""
    out = {}
    todo = ['process_transaction']
    while todo:
        m = todo.pop()
        if m in out:
            continue
        fi = repo.resolve_method(cls_q, m)
        if fi is None:
            continue
        out[m] = fi
        for c in calls_in(fi.node):
            f = c.func
            if isinstance(f, ast.Attribute) and isinstance(f.value, ast.Name) and f.value.id == 'self':
                todo.append(f.attr)
    return out


def handouts_are_versioned(ctx, rule):
    """C02.R2 (shared with C01: a consumer takes over a reported state only when its StateVersion is higher than the one it has -
    a commit that does not count the version up is sent, and ignored by every mirror)."""
    repo = ctx.repo
    n_ti = 0
    for fi in repo.funcs.values():
        if fi.module.name != TR:
            continue
        g = cfg_of(fi)
        assigns = local_assignments(fi.node)
        for n, c in g.nodes_calling('TransactionItem'):
            args = {}
            for i, a in enumerate(c.args):
                args[('old', 'new')[i]] = a
            for kw in c.keywords:
                args[kw.arg] = kw.value
            old, new = args.get('old'), args.get('new')
            if old is None or new is None:
                raise AnalysisError(f'{rule}: cannot read TransactionItem arguments in {fi.qual}')
            if isinstance(new, ast.Constant) and new.value is None:
                continue  # deletion: nothing to version
            if not isinstance(new, ast.Name):
                # `item = TransactionItem(old, old.mk_copy())` ... `new_state = item.new`: the local that names the new object
                holder = n.stmt.targets[0].id if (n.kind == 'stmt' and isinstance(n.stmt, ast.Assign) and
                                                  isinstance(n.stmt.targets[0], ast.Name)) else None
                names = sorted({nm for nm, vals in assigns.items() if holder and any(
                    isinstance(v, ast.Attribute) and v.attr == 'new' and isinstance(v.value, ast.Name) and v.value.id == holder
                    for v in vals)})
                if len(names) != 1:
                    raise AnalysisError(f'{rule}: new argument {unparse(new)} in {fi.qual} is not a local name')
                new = ast.Name(id=names[0], ctx=ast.Load())
            n_ti += 1
            old_is_none = isinstance(old, ast.Constant) and old.value is None
            incs = _increment_nodes(g, new.id, fi, assigns)
            caller_owned = new.id in [a.arg for a in fi.node.args.args]
            # avoid set: increment nodes, False branch of an adjust flag, branches where old is known None
            avoid = list(incs)
            for b in g.nodes:
                if b.kind == 'branch' and b.label in (True, False):
                    facts = []
                    from engine.cfg import _atoms
                    _atoms(b.test, b.label, facts)
                    for txt, pol in facts:
                        if 'adjust' in txt and pol is False and '.' not in txt:
                            avoid.append(b)
            entry_to_t = g.path_exists(g.entry, n, avoid=avoid)
            t_to_exit = (g.exit.id, 0) in g._pp_reach([(n, 1)], avoid=avoid, normal_only=True)  # noqa: SLF001
            ok = not (entry_to_t and t_to_exit)
            kind = 'set_version (re-created object continues its counter)' if old_is_none else 'old + 1'
            ctx.ob(rule, f'TransactionItem({unparse(old)}, {new.id})', ok,
                   f'{new.id}: version is adjusted ({kind}) on every path through this hand-out unless the adjust '
                   f'flag is off' if ok else
                   f'{new.id}: a path reaches this TransactionItem and the exit without any version adjustment of '
                   f'{new.id} although the adjust flag is on',
                   fi=fi, node=c, witness={'increments': [i.text()[:70] for i in incs],
                                           'caller_owned_new': caller_owned})
    ctx.floor(rule, n_ti, 12, 'TransactionItem(old,new) constructions with a new object')


def run(ctx):  # noqa: C901, PLR0912, PLR0915
    repo = ctx.repo
    ctx.rule('C02.R1', 'MdibVersion +1 once, only on a non-empty commit, never on abort, single set of writers')
    ctx.rule('C02.R2', 'TransactionItem(old,new): new version = old + 1 / set_version for re-created objects')
    ctx.rule('C02.R3', 'removal saves the version before un-indexing on all three versioned tables (MRO-resolved)')
    ctx.rule('C02.R4', 'state follows descriptor in DescriptorTransaction.process_transaction')
    ctx.rule('C02.R5', 'single writer: one manager, both locks, no other caller of process_transaction')
    classes = transaction_classes(repo)
    ctx.floor('C02.R1', len(classes), 7, 'transaction classes in _transaction_type_lookup')

    # ------------------------------------------------------------ R1a new_mdib_version = current + 1
    writers = []
    for fi in repo.funcs.values():
        for n in walk_no_nested(fi.node):
            if isinstance(n, (ast.Assign, ast.AugAssign, ast.AnnAssign)):
                tgts = n.targets if isinstance(n, ast.Assign) else [n.target]
                for t in tgts:
                    if isinstance(t, ast.Attribute) and t.attr == 'new_mdib_version':
                        writers.append((fi, n))
    ctx.floor('C02.R1', len(writers), 1, 'assignments to new_mdib_version')
    for fi, n in writers:
        v = n.value if isinstance(n, ast.Assign) else None
        ok = (fi.qual == f'{TR}._TransactionBase.__init__' and isinstance(v, ast.BinOp)
              and isinstance(v.op, ast.Add)
              and isinstance(v.right, ast.Constant) and v.right.value == 1 and type(v.right.value) is int
              and isinstance(v.left, ast.Attribute) and v.left.attr == 'mdib_version')
        ctx.ob('C02.R1', f'new_mdib_version := {unparse(v)}', ok,
               'new_mdib_version is assigned only in _TransactionBase.__init__ as <mdib>.mdib_version + 1',
               fi=fi, node=n, witness={'value': unparse(v)})

    # ------------------------------------------------------------ R1b writes in process_transaction
    seen_pt = set()
    for cq in classes:
        pt = repo.resolve_method(cq, 'process_transaction')
        if pt is None:
            raise AnalysisError(f'C02.R1: {cq} has no process_transaction')
        if pt.qual in seen_pt:
            continue
        seen_pt.add(pt.qual)
        g = cfg_of(pt)
        vwrites = []
        for n in g.real_nodes():
            if n.kind == 'stmt' and isinstance(n.stmt, (ast.Assign, ast.AugAssign)):
                tgts = n.stmt.targets if isinstance(n.stmt, ast.Assign) else [n.stmt.target]
                for t in tgts:
                    if isinstance(t, ast.Attribute) and t.attr == 'mdib_version':
                        vwrites.append(n)
        if not vwrites:
            ctx.ob('C02.R1', 'no version write', False,
                   'process_transaction never writes mdib_version: a non-empty commit would not raise the version',
                   fi=pt)
            continue
        guard_names = {'self._state_updates', 'self.descriptor_updates'}
        for n in vwrites:
            val = n.stmt.value if isinstance(n.stmt, ast.Assign) else None
            ok_val = isinstance(n.stmt, ast.Assign) and unparse(val) == 'self.new_mdib_version'
            facts = g.facts_at(n)
            guards = [gn for gn in sorted(guard_names) if (gn, True) in facts]   # as written or through a local alias
            ctx.ob('C02.R1', f'version write {unparse(n.stmt)}', ok_val and bool(guards),
                   'mdib_version is written as self.new_mdib_version under the non-emptiness test of the update dict'
                   if ok_val and guards else
                   ('mdib_version written with a value other than self.new_mdib_version' if not ok_val else
                    'mdib_version is raised although the transaction may be empty (no dominating non-emptiness test)'),
                   fi=pt, node=n.stmt, witness={'facts': facts, 'value': unparse(val)})
        # at most one version write per path
        multi = any(g.reaches(a, b) for a in vwrites for b in vwrites if a is not b) or \
            any(any(l for l in n.loops) for n in vwrites)
        ctx.ob('C02.R1', 'one version write per path', not multi,
               'mdib_version is written at most once on any path through process_transaction', fi=pt,
               witness=[n.lineno for n in vwrites])
        # all table effects are under the same guard (an empty transaction changes nothing)
        for n in g.real_nodes():
            for c in n.calls():
                nm = call_name(c)
                if nm in TABLE_MUTATORS or nm in ('_handle_state_updates', '_update_corresponding_state',
                                                  '_increment_parent_descriptor_version'):
                    facts = g.facts_at(n)
                    ok = any((gn, True) in facts for gn in guard_names)
                    ctx.ob('C02.R1', f'effect {nm} guarded', ok,
                           f'table effect {nm}() happens only when the transaction is non-empty', fi=pt, node=c,
                           witness={'facts': facts})

    # ------------------------------------------------------------ R1c who writes mdib_version
    allowed = dict(ALLOWED_VERSION_WRITERS)
    for q in seen_pt:
        allowed[q] = 'commit'
    n_w = 0
    for fi in repo.funcs.values():
        if not fi.module.name.startswith('sdc11073'):
            continue
        for n in walk_no_nested(fi.node):
            if isinstance(n, (ast.Assign, ast.AugAssign, ast.AnnAssign)):
                tgts = n.targets if isinstance(n, ast.Assign) else [n.target]
                for t in tgts:
                    if isinstance(t, ast.Attribute) and t.attr == 'mdib_version':
                        n_w += 1
                        ctx.ob('C02.R1', f'writer {unparse(n)}', fi.qual in allowed,
                               f'mdib_version is written in {fi.qual} ({allowed.get(fi.qual, "NOT an allowed writer")})',
                               fi=fi, node=n)
            if isinstance(n, ast.Call) and call_name(n) == 'setattr' and len(n.args) >= 2 and \
                    isinstance(n.args[1], ast.Constant) and n.args[1].value == 'mdib_version':
                ctx.ob('C02.R1', f'writer {unparse(n)}', False, 'mdib_version written through setattr', fi=fi, node=n)
    ctx.floor('C02.R1', n_w, 9, 'mdib_version writers')

    # ------------------------------------------------------------ R1d commit once, never on abort
    tm = repo.func(f'{PM}._transaction_manager')
    g = gtm = cfg_of(tm)
    pts = g.nodes_calling('process_transaction')
    yields = [n for n, a in g.nodes_where(lambda a: isinstance(a, (ast.Yield, ast.YieldFrom)))]
    if len(yields) != 1 or not pts:
        raise AnalysisError('C02.R1: _transaction_manager must have one yield and a process_transaction call')
    y = yields[0]
    ctx.ob('C02.R1', 'commit once', len(pts) == 1 and not pts[0][0].loops,
           'process_transaction is called exactly once, outside any loop', fi=tm, node=pts[0][1],
           witness=[n.lineno for n, _ in pts])
    after_abort = g.reach_after_exception_of(y)
    bad = [n for n in after_abort if any(call_name(c) == 'process_transaction' for c in n.calls())]
    ctx.ob('C02.R1', 'no commit on abort', not bad,
           'process_transaction is not reachable from the exceptional edge of the yield (body raised)', fi=tm,
           node=y.stmt, witness={'reachable_after_abort': [n.text()[:60] for n in after_abort if n.stmt is not None]})
    ctx.ob('C02.R1', 'yield precedes commit', all(g.dominates(y, n) for n, _ in pts),
           'the commit is dominated by the completed yield (the application body ran to its end)', fi=tm,
           node=pts[0][1])

    # ------------------------------------------------------------ R2 hand-out implies increment
    handouts_are_versioned(ctx, 'C02.R2')

    # ------------------------------------------------------------ R3 versions survive delete
    subs = [q for q in repo.subclasses(VL)]
    ctx.floor('C02.R3', len(subs), 3, 'versioned tables')
    entry_points = [m for m in repo.cls(MK).methods if m.startswith('remove_object')]
    ctx.floor('C02.R3', len(entry_points), 4, 'removal entry points of MultiKeyLookup')
    for cq in sorted(subs):
        for m in sorted(entry_points):
            ok, trace = _save_before_rm(repo, cq, m)
            ctx.ob('C02.R3', f'{cq.rsplit(".", 1)[1]}.{m}', ok,
                   f'{m} on {cq.rsplit(".", 1)[1]}: _save_version runs before _rm_indices on every path'
                   if ok else f'{m} on {cq.rsplit(".", 1)[1]}: indices are removed without saving the version '
                              f'(a re-created object would restart its counter)',
                   fi=repo.resolve_method(cq, m), witness=trace, where=cq)
        sv = repo.resolve_method(cq, '_save_version')
        st = repo.resolve_method(cq, 'set_version')
        if sv is None or st is None:
            ctx.ob('C02.R3', f'{cq} save/set', False, 'table lacks _save_version or set_version', where=cq)
            continue
        k1, v1 = _save_key(sv)
        k2, v2, plus1 = _set_key(st)
        ctx.ob('C02.R3', f'{cq.rsplit(".", 1)[1]} key agreement', k1 is not None and k1 == k2 and v1 == v2 and plus1,
               f'_save_version stores obj.{v1} under obj.{k1}; set_version reads under obj.{k2} and assigns '
               f'obj.{v2} = saved + 1', fi=st, witness={'save': [k1, v1], 'set': [k2, v2, plus1]}, where=cq)
    # increment helpers really add one
    for q, attr in (('sdc11073.mdib.statecontainers.AbstractStateContainer.increment_state_version', 'StateVersion'),
                    ('sdc11073.mdib.descriptorcontainers.AbstractDescriptorContainer.increment_descriptor_version',
                     'DescriptorVersion')):
        fi = repo.func(q)
        ok = False
        for n in walk_no_nested(fi.node):
            if isinstance(n, ast.AugAssign) and isinstance(n.op, ast.Add) and isinstance(n.target, ast.Attribute) \
                    and n.target.attr == attr and isinstance(n.value, ast.Constant) and n.value.value == 1:
                ok = True
            if isinstance(n, ast.Assign) and isinstance(n.targets[0], ast.Attribute) and n.targets[0].attr == attr \
                    and isinstance(n.value, ast.BinOp) and isinstance(n.value.op, ast.Add) \
                    and isinstance(n.value.right, ast.Constant) and n.value.right.value == 1 \
                    and isinstance(n.value.left, ast.Attribute) and n.value.left.attr == attr:
                ok = True
        ctx.ob('C02.R3', f'{fi.name} adds one', ok, f'{fi.name} increments {attr} by exactly 1', fi=fi)

    # ------------------------------------------------------------ R4 state follows descriptor
    dpt = repo.func(f'{TR}.DescriptorTransaction.process_transaction')
    g = cfg_of(dpt)
    assigns = local_assignments(dpt.node)
    # names of the (old, new) pair
    old_n = new_n = None
    for nm, vals in assigns.items():
        for v in vals:
            if isinstance(v, ast.Attribute) and v.attr == 'old' and isinstance(v.value, ast.Name) and \
                    v.value.id == 'tr_item':
                old_n = nm
            if isinstance(v, ast.Attribute) and v.attr == 'new' and isinstance(v.value, ast.Name) and \
                    v.value.id == 'tr_item':
                new_n = nm
    if not old_n or not new_n:
        raise AnalysisError('C02.R4: old/new aliases of tr_item not found in DescriptorTransaction.process_transaction')

    def branch_nodes(create=None, delete=None):
        out = []
        for n in g.real_nodes():
            facts = set(g.facts_at(n))
            c = (f'{old_n} is None', True) in facts
            d = (f'{new_n} is None', True) in facts and (f'{old_n} is None', False) in facts
            u = (f'{new_n} is None', False) in facts and (f'{old_n} is None', False) in facts
            if (create and c) or (delete and d) or (create is False and delete is False and u):
                out.append(n)
        return out

    def has_call(nodes, name):
        return [n for n in nodes if any(call_name(c) == name for c in n.calls())]

    cr, de, up = branch_nodes(create=True), branch_nodes(delete=True), branch_nodes(create=False, delete=False)
    if not cr or not de or not up:
        raise AnalysisError('C02.R4: create/delete/update branches not identifiable by their guards')
    ctx.ob('C02.R4', 'create -> _update_corresponding_state', bool(has_call(cr, '_update_corresponding_state')),
           'creating a descriptor updates the DescriptorVersion of its state(s)', fi=dpt, witness=len(cr))
    ctx.ob('C02.R4', 'create -> add to table', bool(has_call(cr, 'add_object_no_lock') or has_call(cr, 'add_object')),
           'a created descriptor is added to the descriptions table', fi=dpt)
    ctx.ob('C02.R4', 'update -> _update_corresponding_state', bool(has_call(up, '_update_corresponding_state')),
           'updating a descriptor updates the DescriptorVersion of its state(s)', fi=dpt, witness=len(up))
    ctx.ob('C02.R4', 'update -> re-index', bool(has_call(up, 'update_object_no_lock') or has_call(up, 'update_object')),
           'an updated descriptor is re-indexed', fi=dpt)
    ctx.ob('C02.R4', 'delete -> subtree and states',
           bool(has_call(de, 'get_all_descriptors_in_subtree')) and bool(has_call(de, 'rm_descriptors_and_states')),
           'deleting a descriptor removes its whole subtree together with the states', fi=dpt, witness=len(de))
    for nodes, lst, what in ((cr, 'to_be_created_handles', 'create'), (de, 'to_be_deleted_handles', 'delete')):
        incs = has_call(nodes, '_increment_parent_descriptor_version')
        ok = bool(incs)
        for n in incs:
            facts = g.facts_at(n)
            ok = ok and any(txt.endswith(f'parent_handle in {lst}') and pol is False for txt, pol in facts.both()) \
                and any(txt.endswith('parent_handle is None') and pol is False for txt, pol in facts.both())
        ctx.ob('C02.R4', f'{what} -> parent version', ok,
               f'on {what} the parent DescriptorVersion is raised unless the parent is part of the same {what}',
               fi=dpt, witness=[g.facts_at(n) for n in incs])
    # rm_descriptors_and_states removes states of both tables
    rm = repo.func('sdc11073.mdib.mdibbase.MdibBase.rm_descriptors_and_states')
    src = xsrc(rm)
    ok = 'self.descriptions.remove_object' in src and 'self.states' in src and 'self.context_states' in src and \
        'remove_objects' in src
    ctx.ob('C02.R4', 'rm_descriptors_and_states', ok,
           'rm_descriptors_and_states removes the descriptor and the states of both state tables', fi=rm)
    # _update_corresponding_state sets DescriptorVersion of the state from the descriptor
    ucs = repo.func(f'{TR}.DescriptorTransaction._update_corresponding_state')
    src = xsrc(ucs)
    n_dv = src.count('update_descriptor_version()') + src.count('.DescriptorVersion = descriptor_container.DescriptorVersion')
    ctx.ob('C02.R4', '_update_corresponding_state sets DescriptorVersion', n_dv >= 3,
           'every branch of _update_corresponding_state carries the descriptor version into the state', fi=ucs,
           witness=n_dv)

    # ------------------------------------------------------------ R7 where a state's DescriptorVersion comes from
    ctx.rule('C02.R7', 'a state takes its DescriptorVersion from the MDIB descriptor or from the descriptor of this '
                       'transaction - never from an object the caller handed in')
    n_dv = 0
    for fi in repo.funcs.values():
        if fi.module.name != TR:
            continue
        g7 = cfg_of(fi)
        la7 = local_assignments(fi.node)
        res7 = Resident(fi.node)
        params7 = {a.arg for a in fi.node.args.args}

        def _trusted_descriptor(e, depth=3):
            """e denotes a descriptor that is current: looked up in the MDIB tables, or the new descriptor of this transaction
            (an item of descriptor_updates, or the local copy that this function put there)."""
            if res7.is_resident(e):
                return True
            txt = unparse(e)
            if 'descriptor_updates[' in txt and txt.endswith('.new'):
                return True
            if isinstance(e, ast.Name) and depth > 0:
                vals = la7.get(e.id, [])
                if e.id in params7 and fi.name.startswith('_'):
                    return True   # a private helper: its callers are checked (they pass MDIB / transaction descriptors)
                if vals and all(_trusted_descriptor(v, depth - 1) for v in vals):
                    return True
                # the local is put into descriptor_updates as the new descriptor of this transaction
                for c in calls_in(fi.node, 'TransactionItem'):
                    if len(c.args) == 2 and unparse(c.args[1]) == e.id:
                        for st_ in walk_no_nested(fi.node):
                            if isinstance(st_, ast.Assign) and st_.value is c and 'descriptor_updates[' in unparse(st_.targets[0]):
                                return True
            return False
        for n in g7.real_nodes():
            if n.kind == 'stmt' and isinstance(n.stmt, ast.Assign) and isinstance(n.stmt.targets[0], ast.Attribute) and \
                    n.stmt.targets[0].attr == 'DescriptorVersion' and isinstance(n.stmt.value, ast.Attribute) and \
                    n.stmt.value.attr == 'DescriptorVersion':
                n_dv += 1
                owner = n.stmt.targets[0].value
                src_ = n.stmt.value.value
                ok = _trusted_descriptor(src_)
                if not ok and isinstance(src_, ast.Attribute) and src_.attr == 'descriptor_container' and \
                        unparse(src_.value) == unparse(owner):
                    # <state>.descriptor_container: must have been set in this function from a trusted descriptor
                    sets = [m for m in g7.real_nodes() if m.kind == 'stmt' and isinstance(m.stmt, ast.Assign)
                            and unparse(m.stmt.targets[0]) == unparse(src_) and g7.dominates(m, n)]
                    ok = bool(sets) and all(_trusted_descriptor(m.stmt.value) for m in sets)
                ctx.ob('C02.R7', f'{g7.canon_text(n, n.stmt.targets[0])} = {g7.canon_text(n, n.stmt.value)}', ok,
                       f'{fi.name}: the state gets the DescriptorVersion of the current descriptor' if ok else
                       f'{fi.name}: {unparse(n.stmt)} takes the version from {unparse(src_)}, an object the caller handed in '
                       f'(a copy that may be older than the MDIB): after the descriptor was updated in between, the state is '
                       f'committed with a stale DescriptorVersion', fi=fi, node=n.stmt)
        # <state>.update_descriptor_version() follows <state>.descriptor_container: that reference must have been set to the
        # current descriptor in this function before
        for n, c in g7.nodes_calling('update_descriptor_version'):
            n_dv += 1
            owner = unparse(c.func.value)
            sets = [m for m in g7.real_nodes() if m.kind == 'stmt' and isinstance(m.stmt, ast.Assign)
                    and unparse(m.stmt.targets[0]) == f'{owner}.descriptor_container' and g7.dominates(m, n)]
            ok = bool(sets) and all(_trusted_descriptor(m.stmt.value) for m in sets)
            ctx.ob('C02.R7', f'{g7.canon_text(n, c.func.value)}.update_descriptor_version()', ok,
                   f'{fi.name}: the state is pointed at the current descriptor before it copies its version' if ok else
                   f'{fi.name}: {owner}.update_descriptor_version() copies the version of whatever descriptor the state object '
                   f'still refers to (for a state written through write_entity: the transaction copy, not the MDIB object whose '
                   f'version was raised again for a new child): the state stays one DescriptorVersion behind', fi=fi, node=c)
    ctx.floor('C02.R7', n_dv, 6, 'assignments of a state DescriptorVersion in transactions.py')
    # ... and it does get one: a state that enters a transaction as a copy of the caller's entity (write_entity*) has its
    # DescriptorVersion assigned (or update_descriptor_version() called) on every path to the TransactionItem that carries
    # it, whenever the version counters are to be adjusted - sibling cross-check of the single-state and context-state
    # variants (the caller's copy may be older than the MDIB)
    n_we = 0
    for fi in repo.funcs.values():
        if fi.module.name != TR or not fi.name.startswith('write_entit'):
            continue
        if fi.cls is not None and fi.cls.name == 'DescriptorTransaction':
            continue   # its commit re-versions the state of every written descriptor (_update_corresponding_state: R4, R7)
        gw = cfg_of(fi)
        law = local_assignments(fi.node)
        for n, c in gw.nodes_calling('TransactionItem'):
            new = c.args[1] if len(c.args) > 1 else next((k.value for k in c.keywords if k.arg == 'new'), None)
            if not isinstance(new, ast.Name):
                continue
            # only state copies made from the entity (`copy.deepcopy(<entity>.state..)`), not descriptors
            vals = law.get(new.id, [])
            if not any(isinstance(v, ast.Call) and call_name(v) == 'deepcopy' and 'state' in unparse(v).lower() for v in vals):
                continue
            n_we += 1
            sets = [m for m in gw.real_nodes() if (m.kind == 'stmt' and isinstance(m.stmt, ast.Assign) and
                                                   unparse(m.stmt.targets[0]) == f'{new.id}.DescriptorVersion') or
                    any(call_name(cc) == 'update_descriptor_version' and unparse(cc.func.value) == new.id for cc in m.calls())]
            off = []
            for b in gw.nodes:
                if b.kind == 'branch' and b.label is False and 'adjust' in unparse(b.test) and \
                        isinstance(b.test, ast.Name):
                    off.append(b)
            defs = [d for d in gw.reaching_defs(new.id).get(n.id, set())]
            leak = any(gw.path_exists(d, n, avoid=sets + off) for d in defs)
            ctx.ob('C02.R7', f'{fi.cls.name}.{fi.name}: TransactionItem(.., {new.id}) re-versioned', bool(sets) and not leak,
                   f'{fi.cls.name}.{fi.name}: the state copied from the entity gets the DescriptorVersion of the MDIB descriptor '
                   f'on every path' if sets and not leak else
                   f'{fi.cls.name}.{fi.name}: a path from the copy of the caller\'s state to TransactionItem(.., {new.id}) '
                   f'assigns no DescriptorVersion: written from an entity that was read before the descriptor changed, the '
                   f'state is committed with the older DescriptorVersion (it decreases)', fi=fi, node=c)
    ctx.floor('C02.R7', n_we, 2, 'states written from entities by the state transactions (write_entity / write_entities)')

    # ------------------------------------------------------------ R6 no state is (re-)added for a removed descriptor
    ctx.rule('C02.R6', 'states whose descriptor is removed in the same transaction are not added back (no orphan states)')
    gd = cfg_of(dpt)
    hs = gd.nodes_calling('_handle_state_updates')
    if not hs:
        raise AnalysisError('C02.R6: _handle_state_updates not found in DescriptorTransaction.process_transaction')
    # data dependence (engine/deps.py): an entry is removed from a state-update dict (del d[k] / d.pop(k)) with a key that is
    # computed from the descriptors this transaction removes (get_all_descriptors_in_subtree), before the dict is written
    from engine.deps import Deps
    dp = Deps(dpt.node)
    REMOVED = 'call:get_all_descriptors_in_subtree'
    carriers = sorted(nm for nm in dp.binds if REMOVED in dp.sources(ast.Name(id=nm, ctx=ast.Load())))
    filt = []
    for n in gd.real_nodes():
        keys = []
        if n.kind == 'stmt' and isinstance(n.stmt, ast.Delete):
            keys += [(t.value, t.slice) for t in n.stmt.targets if isinstance(t, ast.Subscript)]
        for c in n.calls():
            if call_name(c) == 'pop' and isinstance(c.func, ast.Attribute) and c.args:
                keys.append((c.func.value, c.args[0]))
        for container, key in keys:
            # the key is computed from the removed handles, or the removal happens under a test on them
            ctl = set()
            for t in (dp._controlling_tests(n.stmt) if n.stmt is not None else []):  # noqa: SLF001
                ctl |= dp.sources(t)
            if (REMOVED in dp.sources(key) or REMOVED in ctl) and any(s_.startswith('self.') and s_.endswith('_state_updates')
                                                  for s_ in dp.sources(container)):
                filt.append(n)
    # the filtering (its innermost loop, when it sits in one that does not also contain the write) precedes the write
    heads = []
    for f in filt:
        for h, _c in hs:
            inner = [lp for lp in f.loops if lp not in h.loops]
            if inner:
                heads += [x for x in gd.nodes if x.kind == 'for' and x.stmt is inner[0]]
    ok = bool(filt) and all(any(gd.dominates(f, h) for f in filt + heads) for h, _ in hs)
    ctx.ob('C02.R6', 'removed descriptors filter the state updates', ok,
           'state updates of descriptors that this transaction removed (sub trees included) are dropped before the states '
           'are written' if ok else
           'DescriptorTransaction.process_transaction writes the collected state updates without regard to the descriptors '
           'it removed: "update a child + delete its parent" or "delete a child + delete its grandparent" in one '
           'transaction re-adds a state whose descriptor no longer exists (orphan state)', fi=dpt,
           witness={'carriers': sorted(carriers), 'filters': [f.text()[:60] for f in filt]})

    # the parent whose version is raised for an added / removed child is the descriptor stored in the MDIB - on every
    # definition of the local, not a transaction copy (whose update may already have been applied: the increment would then
    # go to a left-over object and the state would be pointed at it)
    ip = repo.func(f'{TR}.DescriptorTransaction._increment_parent_descriptor_version')
    res_ip = Resident(ip.node)
    la_ip = local_assignments(ip.node)
    incs = [c for c in calls_in(ip.node, 'increment_descriptor_version')]
    ok = bool(incs)
    wit = {}
    for c in incs:
        recv = c.func.value
        vals = la_ip.get(recv.id, []) if isinstance(recv, ast.Name) else [recv]
        wit[unparse(recv)] = [unparse(v) for v in vals]
        ok = ok and bool(vals) and all(res_ip.is_resident(v) for v in vals)
    ctx.ob('C02.R4', 'parent version is raised on the MDIB descriptor', ok,
           '_increment_parent_descriptor_version raises the version of the descriptor stored in the MDIB' if ok else
           f'_increment_parent_descriptor_version raises the version of an object that is not (always) the MDIB descriptor '
           f'({wit}): the reported DescriptorVersion and the one the state copies differ from the stored one', fi=ip, witness=wit)

    from . import common
    common.index_lists_not_mutated_while_iterated(ctx, 'C02.R4')
    common.copies_are_deep(ctx, 'C02.R2')   # published content changes only through a commit that counts the versions up
    # the transaction files a state by the kind flags of the STATE class and looks it up again by the kind flags of its DESCRIPTOR
    # class: the two classes of one kind agree on every flag they both have (a state class that inherits another kind's flags
    # is filed where _update_corresponding_state never looks - its DescriptorVersion is not carried along)
    SC_, DC_ = 'sdc11073.mdib.statecontainers.', 'sdc11073.mdib.descriptorcontainers.'
    n_pairs = 0
    for q_, ci_ in sorted(repo.classes.items()):
        if not q_.startswith(SC_) or not ci_.name.endswith('StateContainer'):
            continue
        dq = DC_ + ci_.name[:-len('StateContainer')] + 'DescriptorContainer'
        if dq not in repo.classes:
            continue
        n_pairs += 1
        diff = []
        for flag in ('is_metric', 'is_realtime_sample_array_metric', 'is_alert', 'is_component', 'is_operational', 'is_context',
                     'is_system_context', 'is_alert_signal', 'is_alert_condition'):
            sv, _ = repo.class_attr(q_, flag + '_state')
            dv, _ = repo.class_attr(dq, flag + '_descriptor')
            if sv is None or dv is None:
                continue
            if not (isinstance(sv, ast.Constant) and isinstance(dv, ast.Constant) and sv.value == dv.value):
                diff.append(f'{flag}: state {unparse(sv)} / descriptor {unparse(dv)}')
        ctx.ob('C02.R4', f'{ci_.name}: kind flags agree with the descriptor class', not diff,
               f'{ci_.name} and its descriptor class agree on their kind flags' if not diff else
               f'{ci_.name} and its descriptor class disagree ({diff}): a state written together with its re-created descriptor is '
               f'filed under one kind and looked up under the other, its DescriptorVersion stays behind the descriptor', where=q_,
               line=ci_.node.lineno)
    ctx.floor('C02.R4', n_pairs, 15, 'state / descriptor class pairs')
    # ... and context states are looked up by the key they were filed under (their own Handle)
    ucs = repo.func(f'{TR}.DescriptorTransaction._update_corresponding_state')
    for lp in [x for x in walk_no_nested(ucs.node) if isinstance(x, ast.For) and isinstance(x.target, ast.Name) and
               'context_states' in unparse(x.iter) + ''.join(unparse(v) for v in local_assignments(ucs.node).get(unparse(x.iter), []))]:
        gets = [c for b in lp.body for c in ast.walk(b) if isinstance(c, ast.Call) and call_name(c) == 'get' and c.args and
                isinstance(c.args[0], ast.Attribute) and unparse(c.args[0].value) == lp.target.id]
        wrong = [unparse(c)[:60] for c in gets if c.args[0].attr != 'Handle']
        ctx.ob('C02.R4', 'context state updates are looked up by state handle', bool(gets) and not wrong,
               '_update_corresponding_state finds the transaction item of a context state under the state handle' if gets and not wrong
               else f'_update_corresponding_state looks context state updates up with {wrong}: the items are filed under the state '
               f'Handle - the lookup never hits, the item is replaced by a copy of the MDIB state and the update (a disassociation) is lost',
               fi=ucs, node=lp)
    ne_ = repo.func('sdc11073.mdib.providermdib.ProviderEntityGetter.new_entity')
    plook = [c for c in calls_in(ne_.node, 'get_one') if c.args and 'parent' in unparse(c.args[0])]
    tolerant = [unparse(c)[:60] for c in plook if any(k.arg == 'allow_none' and not (isinstance(k.value, ast.Constant) and k.value.value is False)
                                                     for k in c.keywords) or len(c.args) > 1]
    ctx.ob('C02.R4', 'new_entity needs an existing parent', bool(plook) and not tolerant,
           'new_entity looks the parent up with get_one (KeyError for a handle that does not exist)' if plook and not tolerant else
           f'new_entity tolerates a parent handle that does not exist ({tolerant or "no parent lookup"}): the new descriptor is '
           f'committed below a handle that is not in the MDIB (an orphan), the parent version bump is skipped silently', fi=ne_)
    # a descriptor enters a transaction only with a parent chain that ends at an MDS: add_descriptor finds the source MDS by
    # walking up the tree (get_mds_descriptor raises for a parent handle that does not exist) - on every path of set_source_mds
    ssm = repo.func('sdc11073.mdib.providermdibxtra.ProviderMdibMethods.set_source_mds')
    la_s = local_assignments(ssm.node)
    n_ssm = 0
    for c in calls_in(ssm.node, 'set_source_mds'):
        if not c.args:
            continue
        n_ssm += 1
        names_, todo_, walked = set(), [c.args[0]], False
        while todo_:
            e_ = todo_.pop()
            for x_ in ast.walk(e_):
                if isinstance(x_, ast.Call) and call_name(x_) == 'get_mds_descriptor':
                    walked = True
                if isinstance(x_, ast.Name) and x_.id not in names_:
                    names_.add(x_.id)
                    todo_.extend(la_s.get(x_.id, []))
        ctx.ob('C02.R4', f'set_source_mds({unparse(c.args[0])[:40]}) comes from the tree walk', walked,
               'the source MDS of a new descriptor is the root of its (existing) parent chain' if walked else
               f'set_source_mds takes the MDS from {unparse(c.args[0])[:60]} without walking up the parent chain: a descriptor '
               f'whose parent handle does not exist is no longer rejected and is committed as an orphan', fi=ssm, node=c)
    ctx.floor('C02.R4', n_ssm, 1, 'source MDS assignments in ProviderMdibMethods.set_source_mds')
    # ------------------------------------------------------------ R5 single writer
    regs = [w for w in yields[0].withs]
    held = [unparse(i.context_expr) for w in regs for i in w.items]
    ok = 'self._tr_lock' in held and 'self.mdib_lock' in held and \
        all(set(n.withs) >= set(regs) for n, _ in pts)
    ctx.ob('C02.R5', 'both locks around yield and commit', ok,
           'yield and process_transaction run inside `with self._tr_lock, self.mdib_lock`', fi=tm, witness=held)
    # the observable assignment (sends the reports) is in the same region and dominated by the commit
    tr_assign = [n for n in gtm.real_nodes() if n.kind == 'stmt' and isinstance(n.stmt, ast.Assign)
                 and any(isinstance(t, ast.Attribute) and t.attr == 'transaction' and dotted(t.value) == 'self'
                         for t in n.stmt.targets)]
    ctx.ob('C02.R5', 'transaction observable in region', bool(tr_assign) and all(
        set(n.withs) >= set(regs) and gtm.dominates(pts[0][0], n) for n in tr_assign),
        'self.transaction (which triggers the reports) is assigned inside the locked region, after the commit',
        fi=tm, witness=[n.lineno for n in tr_assign])
    n_cm = 0
    for name, fi in repo.cls(PM).methods.items():
        if not name.endswith('_transaction') or name.startswith('_'):
            continue
        n_cm += 1
        body = [s for s in fi.node.body if not (isinstance(s, ast.Expr) and isinstance(s.value, ast.Constant))]
        ok = len(body) == 1 and isinstance(body[0], ast.With) and len(body[0].items) == 1 and \
            isinstance(body[0].items[0].context_expr, ast.Call) and \
            unparse(body[0].items[0].context_expr.func) == 'self._transaction_manager' and \
            len(body[0].body) == 1 and isinstance(body[0].body[0], ast.Expr) and \
            isinstance(body[0].body[0].value, ast.Yield)
        ctx.ob('C02.R5', f'{name} delegates', ok, f'{name} is exactly `with self._transaction_manager(...) as mgr: '
                                                 f'yield mgr`', fi=fi)
    ctx.floor('C02.R5', n_cm, 7, 'public *_transaction context managers')
    callers = []
    for fi in repo.funcs.values():
        for c in calls_in(fi.node, 'process_transaction'):
            callers.append(fi.qual)
    ctx.ob('C02.R5', 'process_transaction callers', set(callers) == {tm.qual},
           'process_transaction is called only from ProviderMdib._transaction_manager', fi=tm, witness=sorted(set(callers)),
           where='callers')


# ---------------------------------------------------------------------- helpers
def _increment_nodes(g, name, fi, assigns):
    """CFG nodes that adjust the version counter of local object `name`."""
    out = []
    for n in g.real_nodes():
        for a in n.walk():
            if isinstance(a, ast.Call):
                f = a.func
                if isinstance(f, ast.Attribute) and f.attr in ('increment_state_version',
                                                               'increment_descriptor_version') and \
                        isinstance(f.value, ast.Name) and f.value.id == name and _copy_of_resident(name, assigns):
                    # x.increment_*() continues the MDIB counter only if x is a copy of the MDIB object
                    out.append(n)
                if call_name(a) == 'set_version' and a.args and isinstance(a.args[0], ast.Name) and \
                        a.args[0].id == name:
                    out.append(n)
        if n.kind == 'stmt' and isinstance(n.stmt, ast.Assign):
            for t in n.stmt.targets:
                if isinstance(t, ast.Attribute) and t.attr in ('StateVersion', 'DescriptorVersion') and \
                        isinstance(t.value, ast.Name) and t.value.id == name:
                    v = n.stmt.value
                    if t.attr == 'DescriptorVersion' and fi.name != 'write_entity':
                        continue
                    if isinstance(v, ast.BinOp) and isinstance(v.op, ast.Add) and isinstance(v.right, ast.Constant) \
                            and v.right.value == 1 and isinstance(v.left, ast.Attribute) and v.left.attr == t.attr:
                        out.append(n)
    return out


def _copy_of_resident(name, assigns):
    """Every binding of `name` is `<resident>.mk_copy()` / an item already versioned in this transaction."""
    vals = assigns.get(name, [])
    if not vals:
        return False
    for v in vals:
        if isinstance(v, ast.Call) and call_name(v) == 'mk_copy' and isinstance(v.func, ast.Attribute):
            continue
        if isinstance(v, ast.Attribute) and v.attr == 'new':
            continue  # object of an item that is already part of the transaction
        if isinstance(v, ast.Call) and call_name(v) in ('get_context_state', 'get_state', 'get_descriptor'):
            continue
        return False
    return True


def _save_key(fi):
    for n in walk_no_nested(fi.node):
        if isinstance(n, ast.Assign) and isinstance(n.targets[0], ast.Subscript) and \
                unparse(n.targets[0].value) == 'self.handle_version_lookup':
            k = n.targets[0].slice
            v = n.value
            if isinstance(k, ast.Attribute) and isinstance(v, ast.Attribute):
                return k.attr, v.attr
    return None, None


def _set_key(fi):
    """(key attribute, version attribute, saved + 1?) of a set_version implementation - locals are followed through their
    assignments, so `v = lookup.get(obj.Handle); if v is not None: obj.X = v + 1` and a variant that computes `v + 1` into a
    local first (or binds the handle to a local) read the same."""
    la = local_assignments(fi.node)

    def values(e, depth=4):
        if isinstance(e, ast.Name) and depth > 0 and e.id in la:
            out = []
            for v in la[e.id]:
                if isinstance(v, ast.Constant) and v.value is None:
                    continue
                out.extend(values(v, depth - 1))
            return out
        return [e]
    key = ver = None
    plus1 = False
    for n in walk_no_nested(fi.node):
        if isinstance(n, ast.Call) and unparse(n.func) == 'self.handle_version_lookup.get' and n.args:
            ks = [k for k in values(n.args[0]) if isinstance(k, ast.Attribute)]
            if len(ks) == 1:
                key = ks[0].attr
        if isinstance(n, ast.Assign) and isinstance(n.targets[0], ast.Attribute) and \
                n.targets[0].attr in ('StateVersion', 'DescriptorVersion'):
            ver = n.targets[0].attr
            vs = values(n.value)
            plus1 = bool(vs) and all(
                isinstance(v, ast.BinOp) and isinstance(v.op, ast.Add) and isinstance(v.right, ast.Constant)
                and v.right.value == 1 and any(isinstance(x, ast.Call) and unparse(x.func) == 'self.handle_version_lookup.get'
                                               for x in values(v.left)) for v in vs)
    return key, ver, plus1


def _filtered_param(fi, name, params) -> bool:
    """The local `name` is bound once, to `[x for x in <param> if x is not None]` (the elements that have a version to save)."""
    from .common import none_test
    vals = local_assignments(fi.node).get(name, [])
    if len(vals) != 1 or not isinstance(vals[0], (ast.ListComp, ast.GeneratorExp)) or len(vals[0].generators) != 1:
        return False
    gen = vals[0].generators[0]
    return isinstance(gen.iter, ast.Name) and gen.iter.id in params and all(none_test(t) for t in gen.ifs) and \
        isinstance(vals[0].elt, ast.Name) and isinstance(gen.target, ast.Name) and vals[0].elt.id == gen.target.id


def _save_before_rm(repo, cls_q, method):
    """Abstract interpretation: state = 'version saved for the object(s) being removed' (must).

    Calls through self are resolved on cls_q (dynamic dispatch), super() calls on the next class of
    cls_q's MRO after the defining class. Returns (ok, trace)."""
    trace = []
    memo = {}

    def summarize(fi, saved_in, depth=0):
        """Return (violation, must_saved_out) for running fi with saved_in."""
        key = (fi.qual, saved_in)
        if key in memo:
            return memo[key]
        memo[key] = (False, saved_in)  # recursion guard
        g = cfg_of(fi)
        # forward must-analysis over the CFG (normal edges), round-robin to the fixpoint.  outs[n] = "saved" after n.
        params = {a.arg for a in fi.node.args.args}
        outs = {}
        violation = False
        for _round in range(50):
            changed = False
            viol_round = False
            for n in g.nodes:
                if n is g.entry:
                    s = saved_in
                else:
                    ins = [outs[p.id] for p in n.pred if p.id in outs]
                    if not ins:
                        continue
                    s = all(ins)
                out = s
                if n.kind == 'branch' and n.label in (True, False):
                    from engine.cfg import _atoms
                    facts = []
                    _atoms(n.test, n.label, facts)
                    # nothing to save for a None object / an object that is not in the table
                    if any((txt.endswith(' is None') and pol is True) for txt, pol in facts):
                        out = True
                elif n.kind == 'branch' and n.label == 'done' and isinstance(n.stmt.iter, ast.Name) and \
                        (n.stmt.iter.id in params or _filtered_param(fi, n.stmt.iter.id, params)) and \
                        not any(isinstance(x, ast.Break) for x in ast.walk(n.stmt)):
                    # `for obj in <the objects to remove>`: after the loop every element went through the body; when every
                    # path through the body saved the version, all of them are saved (no element: nothing to save)
                    head = n.pred[0]
                    ends = [outs[p.id] for p in head.pred if n.stmt in p.loops and p.id in outs]
                    if ends and all(ends):
                        out = True
                elif n.kind not in ('entry',):
                    for c in sorted(n.calls(), key=lambda c: (c.lineno, c.col_offset)):
                        nm = call_name(c)
                        tgt = None
                        if nm == 'apply_map' and c.args and isinstance(c.args[0], ast.Attribute) and \
                                dotted(c.args[0].value) == 'self':
                            nm = c.args[0].attr
                            tgt = repo.resolve_method(cls_q, nm)
                        elif isinstance(c.func, ast.Attribute) and dotted(c.func.value) == 'self':
                            tgt = repo.resolve_method(cls_q, nm)
                        elif isinstance(c.func, ast.Attribute) and isinstance(c.func.value, ast.Call) and \
                                call_name(c.func.value) == 'super':
                            mro = repo.mro(cls_q)
                            defcls = fi.cls.qual
                            idx = mro.index(defcls) if defcls in mro else -1
                            for cand in mro[idx + 1:]:
                                if nm in repo.classes[cand].methods:
                                    tgt = repo.classes[cand].methods[nm]
                                    break
                        else:
                            continue
                        if nm == '_save_version':
                            out = True
                            continue
                        if nm == '_rm_indices':
                            if not out:
                                viol_round = True
                            continue
                        if tgt is not None and (nm.startswith('remove_object') or nm.startswith('_rm')):
                            v, out2 = summarize(tgt, out, depth + 1)
                            viol_round = viol_round or v
                            out = out2
                if outs.get(n.id) != out:
                    outs[n.id] = out
                    changed = True
            violation = viol_round
            if not changed:
                break
        trace.append(f'{"  " * depth}{fi.qual.rsplit(".", 2)[-2]}.{fi.name}: saved in={saved_in} out={outs.get(g.exit.id)}'
                     f'{" VIOLATION: indices removed while not saved" if violation else ""}')
        state = outs
        res = (violation, state.get(g.exit.id, saved_in))
        memo[key] = res
        return res

    fi = repo.resolve_method(cls_q, method)
    if fi is None:
        return False, ['method not found']
    v, _ = summarize(fi, False)
    return (not v), trace[:12]


# ---------------------------------------------------------------------- self-test seeds
from selftest import seed  # noqa: E402

_T = 'src/sdc11073/mdib/transactions.py'
_P = 'src/sdc11073/mdib/providermdib.py'
_B = 'src/sdc11073/mdib/mdibbase.py'
SEEDS = [
    seed('version +2', 'C02.R1', (_T, 'device_mdib_container.mdib_version + 1', 'device_mdib_container.mdib_version + 2')),
    seed('bump outside the non-empty test (component)', 'C02.R1',
         (_T, "        proc = TransactionResult()\n        if self._state_updates:\n            self._mdib.mdib_version = self.new_mdib_version\n            updates = self._handle_state_updates(self._state_updates)\n            proc.comp_updates.extend(updates)",
          "        proc = TransactionResult()\n        self._mdib.mdib_version = self.new_mdib_version\n        if self._state_updates:\n            updates = self._handle_state_updates(self._state_updates)\n            proc.comp_updates.extend(updates)")),
    seed('bump by current + 1 instead of new_mdib_version (rt)', 'C02.R1',
         (_T, "            self._mdib.mdib_version = self.new_mdib_version\n            updates = self._handle_state_updates(self._state_updates)\n            proc.rt_updates.extend(updates)",
          "            self._mdib.mdib_version = self._mdib.mdib_version + 1\n            updates = self._handle_state_updates(self._state_updates)\n            proc.rt_updates.extend(updates)")),
    seed('second version writer in set_location', 'C02.R1',
         ('src/sdc11073/mdib/providermdibxtra.py', "    def set_location(self,", "    def _bump(self):\n        self._mdib.mdib_version += 1\n\n    def set_location(self,")),
    seed('commit in finally (runs on abort)', 'C02.R1',
         (_P, "            finally:\n                self.current_transaction = None",
          "            finally:\n                if self.current_transaction is not None:\n                    self.current_transaction.process_transaction(set_determination_time)\n                self.current_transaction = None")),
    seed('get_state without increment', 'C02.R2',
         (_T, "        copied_state = mdib_state.mk_copy()\n        copied_state.increment_state_version()\n        self._state_updates[descriptor_handle] = TransactionItem(mdib_state, copied_state)",
          "        copied_state = mdib_state.mk_copy()\n        self._state_updates[descriptor_handle] = TransactionItem(mdib_state, copied_state)")),
    seed('write_entity: old + 1 only when adjust is off', 'C02.R2',
         (_T, "            elif adjust_version_counter:\n                tmp.DescriptorVersion = descriptor_container.DescriptorVersion\n                tmp.StateVersion = old_state.StateVersion + 1",
          "            elif not adjust_version_counter:\n                tmp.DescriptorVersion = descriptor_container.DescriptorVersion\n                tmp.StateVersion = old_state.StateVersion + 1")),
    seed('context write_entity keeps the DescriptorVersion of the entity copy (the defect repaired by 4f31561)', 'C02.R7',
         (_T, "            elif adjust_version_counter:\n                tmp.DescriptorVersion = descriptor_container.DescriptorVersion\n                tmp.StateVersion = old_state.StateVersion + 1",
          "            elif adjust_version_counter:\n                tmp.StateVersion = old_state.StateVersion + 1")),
    seed('mk_context_state forgets set_version', 'C02.R2',
         (_T, "        if context_state_handle is not None and adjust_state_version:\n            self._mdib.context_states.set_version(new_state_container)\n",
          "")),
    seed('override of remove_objects_no_lock removed', 'C02.R3',
         (_B, "    def remove_objects_no_lock(self, objects: list[Any]):\n        apply_map(self._save_version, [obj for obj in objects if obj is not None])\n        super().remove_objects_no_lock(objects)\n",
          "")),
    seed('remove_object saves after removal', 'C02.R3',
         (_B, "        if obj is not None:\n            self._save_version(obj)\n        super().remove_object(obj)",
          "        super().remove_object(obj)\n        if obj is not None:\n            self._save_version(obj)")),
    seed('set_version without + 1 (states)', 'C02.R3',
         (_B, "        version = self.handle_version_lookup.get(obj.DescriptorHandle)\n        if version is not None:\n            obj.StateVersion = version + 1",
          "        version = self.handle_version_lookup.get(obj.DescriptorHandle)\n        if version is not None:\n            obj.StateVersion = version")),
    seed('multi states saved under DescriptorHandle', 'C02.R3',
         (_B, "        self.handle_version_lookup[obj.Handle] = obj.StateVersion", "        self.handle_version_lookup[obj.DescriptorHandle] = obj.StateVersion")),
    seed('update branch forgets the state', 'C02.R4',
         (_T, "                    orig_descriptor.update_from_other_container(new_descriptor)\n                    self._update_corresponding_state(orig_descriptor)\n",
          "                    orig_descriptor.update_from_other_container(new_descriptor)\n")),
    seed('delete removes only the descriptor itself', 'C02.R4',
         (_T, "                    all_descriptors = self._mdib.get_all_descriptors_in_subtree(orig_descriptor)\n",
          "                    all_descriptors = [orig_descriptor]\n")),
    seed('removed descriptors no longer filter the state updates', 'C02.R6',
         (_T, "                    removed_handles.update(d.Handle for d in all_descriptors)\n", "")),
    seed('transaction without tr_lock', 'C02.R5', (_P, "        with self._tr_lock, self.mdib_lock:\n            try:\n                self.current_transaction", "        with self.mdib_lock:\n            try:\n                self.current_transaction")),
    seed('control: rename local in get_state', 'C02.R2',
         (_T, "        copied_state = mdib_state.mk_copy()\n        copied_state.increment_state_version()\n        self._state_updates[descriptor_handle] = TransactionItem(mdib_state, copied_state)\n        return copied_state",
          "        the_copy = mdib_state.mk_copy()\n        the_copy.increment_state_version()\n        self._state_updates[descriptor_handle] = TransactionItem(mdib_state, the_copy)\n        return the_copy"), control=True),
]
