"""C06 - consumer MDIB never regresses under lost, duplicated or reordered reports.

Decided (structural necessary conditions):
  R1 MdibVersion gate: _can_accept_mdib_version evaluated for new < own, = own, = own+1, > own+1 gives
     False, True, True, True; the test-only override is False; every table write of the seven incoming
     handlers is dominated by the true edge of the gate.
  R2 StateVersion gate: _has_new_state_usable_state_version gives False for diff < 0 and diff = 0, True
     for diff >= 1; every in-place update of an existing state in the state / context / waveform
     handlers is dominated by its true edge.
  R3 sequence / instance watchdog: every public process_incoming_* runs the pre-check first and returns
     on False, then works under mdib_lock with the handler it also registered for buffering; the
     pre-check runs the watchdog before it looks at the state, rejects `invalid`, buffers `initializing`;
     the watchdog invalidates on any mismatch; only reload_all leaves `invalid`.
  R4 reload holds mdib_lock from the state switch to the end of the replay (shared with C01.R4).
  R5 duplicates leave the lookups intact: delegated to C11.R1 (atomic insert), checked there.
Not decided: "every state it holds is one the provider published" (value level).
"""
from __future__ import annotations

import ast

from engine.absint import int_eval
from engine.cfg import call_name, cfg_of
from engine.errors import AnalysisError
from engine.repo import walk_no_nested
from engine.util import calls_in, unparse

ID = 'C06'
CM = 'sdc11073.mdib.consumermdib.ConsumerMdib'
TABLE_WRITES = {'add_object', 'add_object_no_lock', 'add_objects', 'remove_object', 'remove_object_no_lock',
                'remove_objects', 'update_object', 'update_object_no_lock', 'update_from_other_container',
                'rm_descriptor_by_handle', 'rm_descriptors_and_states', 'clear'}


def _state_confirmed_in_lock(g, n, atom):
    """n is dominated by an edge on which `atom` holds, and the state was READ for that test inside the buffer lock: either the
    test itself reads self._state inside the lock, or it tests a local that was bound to the comparison inside the lock."""
    from engine.cfg import _atoms, canon_lit
    want = canon_lit(atom, True)
    for b in g.nodes:
        if not (b.kind == 'branch' and b.label in (True, False) and g.dominates(b, n)):
            continue
        resolved = g.origin_expr(b, b.test, tests=True) or b.test
        lits = []
        _atoms(resolved, b.label, lits)
        if not any(canon_lit(t, p) == want for t, p in lits):
            continue
        if '_state' in ast.unparse(b.test):
            readers = [b]
        else:
            readers = [d for x in ast.walk(b.test) if isinstance(x, ast.Name)
                       for d in [g.unique_def(b, x.id)] if d is not None and '_state' in d.text()]
        if readers and all(g.held_withs(r, '_buffered_notifications_lock') for r in readers):
            return True
    return False


def public_handlers_prechecked(ctx, rule):
    """process_incoming_*: pre-check first; on success the matching handler (the one registered for buffering) runs under
    mdib_lock with the same arguments."""
    repo = ctx.repo
    publics = [m for m in repo.cls(CM).methods if m.startswith('process_incoming_')]
    ctx.floor(rule, len(publics), 7, 'public process_incoming_* methods')
    for m in sorted(publics):
        fi = repo.method(CM, m)
        g = cfg_of(fi)
        pre = g.nodes_calling('_pre_check_report_ok')
        inner = [(n, c) for n in g.real_nodes() for c in n.calls() if (call_name(c) or '').startswith('_process_incoming_')
                 and isinstance(c.func, ast.Attribute)]
        ok = len(pre) == 1 and len(inner) == 1
        if ok:
            pn, pc = pre[0]
            inn, ic = inner[0]
            facts = g.facts_at(inn)
            ok = any('_pre_check_report_ok' in t and p is True for t, p in facts.both()) and bool(g.held_withs(inn, 'mdib_lock'))
            # handler registered for buffering == handler called
            ok = ok and len(pc.args) == 3 and unparse(pc.args[2]) == unparse(ic.func)
            # same version group and payload
            ok = ok and [unparse(a) for a in pc.args[:2]] == [unparse(a) for a in ic.args[:2]]
            # nothing touches the tables before the pre-check
            first = [n for n in g.real_nodes() if n.kind != 'stmt' or not (isinstance(n.stmt, ast.Expr)
                                                                            and isinstance(n.stmt.value, ast.Constant))]
            ok = ok and first and first[0] is pn
        ctx.ob(rule, f'{m}', ok,
               f'{m}: pre-check first; on success the matching handler runs under mdib_lock with the same arguments it '
               f'would be buffered with', fi=fi)


def run(ctx):  # noqa: C901, PLR0912, PLR0915
    repo = ctx.repo
    ctx.rule('C06.R1', 'MdibVersion gate: abstract evaluation over the orderings + dominance over all table writes')
    ctx.rule('C06.R2', 'StateVersion gate: abstract evaluation + dominance over in-place state updates')
    ctx.rule('C06.R3', 'sequence/instance watchdog and pre-check structure')
    ctx.rule('C06.R4', 'reload under mdib_lock')

    # ------------------------------------------------------------------ R1
    gate = repo.method(CM, '_can_accept_mdib_version')
    flag, _ = repo.class_attr(CM, 'MDIB_VERSION_CHECK_DISABLED')
    flag_ok = isinstance(flag, ast.Constant) and flag.value is False
    ctx.ob('C06.R1', 'override is off', flag_ok, 'MDIB_VERSION_CHECK_DISABLED is the constant False', where=CM,
           line=getattr(flag, 'lineno', None))
    wit = {}
    ok = True
    for name, (new, own, want) in {'older': (9, 10, False), 'same': (10, 10, True), 'next': (11, 10, True),
                                   'gap': (15, 10, True), 'much older': (1, 10, False)}.items():
        res, _ = int_eval(gate.node, {gate.node.args.args[1].arg: new, 'self.mdib_version': own,
                                      'self.MDIB_VERSION_CHECK_DISABLED': False})
        wit[name] = {'new': new, 'own': own, 'accepted': res}
        ok = ok and bool(res) == want
    ctx.ob('C06.R1', 'gate orderings', ok,
           '_can_accept_mdib_version rejects older versions and accepts equal / next / later ones' if ok else
           f'_can_accept_mdib_version gives {wit}: a stale report would be applied (or a valid one refused)', fi=gate,
           witness=wit)
    handlers = [m for m in repo.cls(CM).methods if m.startswith('_process_incoming_')]
    ctx.floor('C06.R1', len(handlers), 7, 'incoming report handlers')
    n_w = 0
    for h in sorted(handlers):
        fi = repo.method(CM, h)
        g = cfg_of(fi)
        gates = [b for b in g.nodes if b.kind == 'branch' and b.label is True and
                 '_can_accept_mdib_version(' in unparse(b.test)]
        gate_calls = [c for c in calls_in(fi.node, '_can_accept_mdib_version')]
        ok = len(gates) == 1 and len(gate_calls) == 1 and unparse(gate_calls[0].args[0]).endswith('.mdib_version')
        bad = []
        for n in g.real_nodes():
            for c in n.calls():
                nm = call_name(c)
                if nm in TABLE_WRITES or (nm or '').startswith('_update_from_'):
                    n_w += 1
                    if not (gates and g.dominates(gates[0], n)):
                        bad.append(f'{nm}@{n.lineno}')
        ctx.ob('C06.R1', f'{h}: writes behind the gate', ok and not bad,
               f'{h}: every table write is dominated by the accepted-MdibVersion edge' if ok and not bad else
               f'{h}: table writes {bad} are not dominated by the MdibVersion gate (or the gate does not test the '
               f'report\'s version): a stale / duplicated report changes the MDIB', fi=fi, witness=bad)
    ctx.floor('C06.R1', n_w, 15, 'table writes in incoming handlers')

    # ------------------------------------------------------------------ R2
    sg = repo.method(CM, '_has_new_state_usable_state_version')
    wit = {}
    ok = True
    for name, (new, old, want) in {'older': (4, 5, False), 'same': (5, 5, False), 'next': (6, 5, True),
                                   'gap': (9, 5, True)}.items():
        p_old, p_new = (a.arg for a in sg.node.args.args[1:3])  # positional: (old state, new state); names are free
        res, _ = int_eval(sg.node, {f'{p_new}.StateVersion': new, f'{p_old}.StateVersion': old})
        wit[name] = {'new': new, 'old': old, 'usable': res}
        ok = ok and bool(res) == want
    ctx.ob('C06.R2', 'state version orderings', ok,
           '_has_new_state_usable_state_version accepts only strictly newer state versions' if ok else
           f'_has_new_state_usable_state_version gives {wit}', fi=sg, witness=wit)
    n_u = 0
    for q in ('_update_from_states_report', '_update_from_context_states_report', '_process_incoming_waveform_states'):
        fi = repo.method(CM, q)
        g = cfg_of(fi)
        for n, c in g.nodes_calling('update_from_other_container'):
            n_u += 1
            recv = unparse(c.func.value)
            arg = unparse(c.args[0]) if c.args else ''
            facts = g.facts_at(n)
            ok = any(t.startswith(f'self._has_new_state_usable_state_version({recv}, {arg}') and p is True
                     for t, p in facts.both())
            ctx.ob('C06.R2', f'{q}: {recv} updated behind the gate', ok,
                   f'{q}: the stored state is overwritten only with a strictly newer version of itself' if ok else
                   f'{q}: {recv}.update_from_other_container({arg}) is not dominated by the StateVersion gate on exactly '
                   f'these two objects: a duplicated or older state overwrites a newer one', fi=fi, node=c,
                   witness={'facts': facts})
    ctx.floor('C06.R2', n_u, 3, 'in-place state updates')

    # ------------------------------------------------------------------ R3
    public_handlers_prechecked(ctx, 'C06.R3')
    pc = repo.method(CM, '_pre_check_report_ok')
    g = cfg_of(pc)
    wd = g.nodes_calling('_check_sequence_or_instance_id_changed')
    state_reads = [n for n, a in g.nodes_where(lambda a: isinstance(a, ast.Attribute) and a.attr == '_state')]
    ok = len(wd) == 1 and bool(state_reads) and all(g.dominates(wd[0][0], n) for n in state_reads)
    ctx.ob('C06.R3', 'watchdog before state', ok, '_pre_check_report_ok runs the sequence/instance watchdog before it '
           'looks at the state', fi=pc)
    # Verdicts on what is returned are three-valued evaluations of the returned expression under the branch facts (with
    # boolean locals such as `still_initializing = self._state == ...` written out): `return False`, `return not still_init`
    # and `return self._state != X` are the same thing here.
    from engine.cfg import truth_under
    INVALID, INITIALIZING = 'self._state == ConsumerMdibState.invalid', 'self._state == ConsumerMdibState.initializing'
    rets = [n for n in g.nodes if n.kind == 'return' and n.stmt.value is not None]

    def _ret_truth(r, facts):
        v = g.origin_expr(r, r.stmt.value, tests=True) or r.stmt.value
        return truth_under(v, facts)
    inv = [n for n in rets if (INVALID, True) in g.facts_at(n)]
    ok = bool(inv) and all(_ret_truth(n, g.facts_at(n)) is False for n in inv)
    ctx.ob('C06.R3', 'invalid rejects', ok, 'in state `invalid` every report is refused', fi=pc)
    app = [n for n, c in g.nodes_calling('append') if '_buffered_notifications' in unparse(c.func)]
    # every return that can follow the buffering returns False (evaluated under the facts that held when it was buffered)
    ok = bool(app)
    for a_ in app:
        after = [r for r in rets if g.path_exists(a_, r, normal_only=True)]
        ok = ok and bool(after) and all(_ret_truth(r, g.facts_at(a_)) is False for r in after)
    ctx.ob('C06.R3', 'initializing buffers and does not apply', ok,
           'in state `initializing` the report is buffered and not applied now', fi=pc)
    maybe_true = [n for n in rets if _ret_truth(n, g.facts_at(n)) is not False]
    ok = bool(maybe_true) and all((INVALID, False) in g.facts_at(n) for n in maybe_true)
    ctx.ob('C06.R3', 'accept only when not invalid', ok, 'True is returned only on the path where the state is not '
           '`invalid`', fi=pc)
    ok = bool(app)
    for n in app:
        ok = ok and bool(g.held_withs(n, '_buffered_notifications_lock')) and _state_confirmed_in_lock(g, n, INITIALIZING)
    ctx.ob('C06.R3', 'buffering re-checks the state under the lock', ok,
           'a report is put into the buffer only inside the buffer lock and after `initializing` was confirmed there' if ok
           else 'a report is appended to the buffer on the strength of the unlocked state check alone: when reload_all '
                'finished its replay in between, the report stays in the buffer and is never applied (lost report)',
           fi=pc)
    # the GetMdib answer the consumer initialises from states the version its content has (read inside one lock region):
    # content of version N labelled N+1 makes reload_all discard the buffered report N+1 as outdated
    # every report the client delivers is handed to the MDIB, which decides itself (under its lock, _pre_check_report_ok) whether
    # to apply, buffer or ignore it: a handler that looks at is_initialized first throws away what arrives while GetMdib is
    # in flight instead of letting it be buffered
    n_h = 0
    for name, hfi in sorted(repo.cls('sdc11073.mdib.consumermdibxtra.ConsumerMdibMethods').methods.items()):
        gh_ = cfg_of(hfi)
        for hn, hc in [(n_, c_) for n_ in gh_.real_nodes() for c_ in n_.calls()
                       if (call_name(c_) or '').startswith('process_incoming_')]:
            n_h += 1
            cond = [t for t, _ in gh_.facts_at(hn).both() if any(w in t for w in ('is_initialized', 'mdib_state', 'MdibState',
                                                                                  'initializ', '._state'))]
            ctx.ob('C06.R3', f'{name}: {call_name(hc)} unconditional', not cond,
                   f'{name} hands every report to {call_name(hc)}' if not cond else
                   f'{name} calls {call_name(hc)} only under {cond}: reports that arrive while the MDIB is loading are dropped '
                   f'before they can be buffered - after the load the mirror lacks their changes', fi=hfi, node=hc)
    ctx.floor('C06.R3', n_h, 6, 'report hand-overs in ConsumerMdibMethods')
    from . import common
    common.update_from_other_is_total(ctx, 'C06.R2')   # the in-place update makes the mirrored state equal to the reported one
    ctx.borrow('C11', {'C11.R1'}, 'C06.R2', why='a rejected duplicate leaves the consumer tables consistent')
    ctx.borrow('C07', {'C07.R1', 'C07.R2'}, 'C06.R4', contains=['_on_get_mdib', 'reconstruct'], why='the GetMdib answer states the version of the content it carries')
    ctx.borrow('C11', {'C11.R3'}, 'C06.R2', contains=['get_one evaluates'], why='lookups stay consistent while a report is applied')
    ctx.borrow('C18', {'C18.R2'}, 'C06.R2', contains=['timestamp 0 is valid'], why='a legal value never raises in the middle of an in-place update')
    # a log call that raises inside a report handler loses the report
    common.log_templates_are_constant(ctx, 'C06.R3', ['sdc11073.mdib.consumermdib', 'sdc11073.consumer.consumerimpl',
                                                      'sdc11073.consumer.subscription'])
    common.no_mutation_while_iterating(ctx, 'C06.R2', ['sdc11073.mdib.consumermdib', 'sdc11073.mdib.mdibbase'])
    from .c01 import reload_replay_rules
    reload_replay_rules(ctx, 'C06.R4')   # reports that arrive during the (re)load are neither lost nor applied twice
    from .c07 import snapshot_providers
    snapshot_providers(ctx, 'C06.R4')
    ck = repo.method(CM, '_check_sequence_or_instance_id_changed')
    g = cfg_of(ck)
    inval = [n for n in g.real_nodes() if n.kind == 'stmt' and isinstance(n.stmt, ast.Assign) and
             unparse(n.stmt.targets[0]) == 'self._state' and unparse(n.stmt.value).endswith('.invalid')]
    ok = len(inval) == 1
    wit = None
    if ok:
        # path condition of the invalidation as a truth table over the tested atoms: exactly
        #   initialized and not (sequence ids equal and instance ids equal)      - however the guards are written
        from engine.pathcond import worlds_of
        p = ck.node.args.args[1].arg
        seq, ins = f'{p}.sequence_id == self.sequence_id', f'{p}.instance_id == self.instance_id'
        w = worlds_of(g, extra_atoms=('self._state == ConsumerMdibState.initialized', seq, ins))
        ok, wit = w.equivalent(w.cond(inval[0]),
                               f'self._state == ConsumerMdibState.initialized and not ({seq} and {ins})')
        if not ok:
            wit = {'invalidates when': w.describe(w.cond(inval[0])), **wit}
    # the state is `invalid` before the application is told (the observer - typically reload_all - runs in another thread
    # and writes the state itself: a late `invalid` would freeze the freshly reloaded MDIB)
    starts = g.nodes_calling('start') + [(n_, c_) for n_, c_ in g.nodes_calling('Thread')] + \
        [(n_, None) for n_ in g.real_nodes() if n_.kind == 'stmt' and isinstance(n_.stmt, ast.Assign) and
         unparse(n_.stmt.targets[0]).endswith('sequence_or_instance_id_changed_event')]
    order_ok = len(inval) == 1 and bool(starts) and all(g.dominates(inval[0], n_) for n_, _ in starts)
    ctx.ob('C06.R3', 'invalid before the change event', order_ok,
           'the state is set to `invalid` before the thread that announces the change is created / started' if order_ok else
           'the thread that announces the sequence / instance change is started before the state is set to `invalid`: an '
           'observer that reloads at once is overtaken by the late write and the reloaded MDIB stays invalid', fi=ck)
    ctx.ob('C06.R3', 'watchdog invalidates on any mismatch', ok,
           'a report whose SequenceId or InstanceId differs sets the state to `invalid` (when initialized)', fi=ck, witness=wit)
    writers = {}
    for fi in repo.funcs.values():
        if fi.cls is None or CM not in repo.mro(fi.cls.qual):
            continue
        for n in walk_no_nested(fi.node):
            if isinstance(n, ast.Assign) and unparse(n.targets[0]) == 'self._state':
                writers.setdefault(fi.name, []).append(unparse(n.value).rsplit('.', 1)[-1])
    ok = set(writers) <= {'__init__', 'reload_all', '_check_sequence_or_instance_id_changed'} and \
        writers.get('_check_sequence_or_instance_id_changed') == ['invalid'] and \
        'initialized' in writers.get('reload_all', [])
    ctx.ob('C06.R3', 'only reload leaves invalid', ok,
           'the state is written only by __init__, the watchdog (-> invalid) and reload_all', where=CM, witness=writers)

    # ------------------------------------------------------------------ R4
    rl = repo.method(CM, 'reload_all')
    g = cfg_of(rl)
    st = [n for n in g.real_nodes() if n.kind == 'stmt' and isinstance(n.stmt, ast.Assign) and
          unparse(n.stmt.targets[0]) == 'self._state']
    calls = [n for n, a in g.nodes_where(lambda a: isinstance(a, ast.Call) and unparse(a.func).endswith('.handler'))]
    ok = bool(st) and bool(calls) and all(g.held_withs(n, 'mdib_lock') for n in st + calls)
    regs = {id(w) for n in st + calls for w, _t in g.held_withs(n, 'mdib_lock')}
    ctx.ob('C06.R4', 'reload in one mdib_lock region', ok and len(regs) == 1,
           'reload_all holds mdib_lock from the state switch to the end of the replay: a handler that passed the '
           'pre-check before blocks and is then stopped by the version gate', fi=rl)
    vs = [n for n in g.real_nodes() if n.kind == 'stmt' and isinstance(n.stmt, ast.Assign) and
          unparse(n.stmt.targets[0]) == 'self.mdib_version' and not isinstance(n.stmt.value, ast.Constant)]
    ok = bool(vs) and bool(calls) and all(g.dominates(v, c) for v in vs for c in calls)
    ctx.ob('C06.R4', 'loaded version before replay', ok, 'the loaded MdibVersion is in place before buffered reports are '
           'replayed', fi=rl)


# ---------------------------------------------------------------------- self-test seeds
from selftest import seed  # noqa: E402

_CM = 'src/sdc11073/mdib/consumermdib.py'
SEEDS = [
    seed('sync_context_states removes from the table it iterates (the defect repaired by 7366816)', 'C06.R2',
         ('src/sdc11073/mdib/consumermdibxtra.py', "            for obj in list(self._mdib.context_states.objects):  # removal changes the table that is iterated",
          "            for obj in self._mdib.context_states.objects:")),
    seed('gate accepts everything positive', 'C06.R1', (_CM, "        return new_mdib_version >= self.mdib_version", "        return new_mdib_version >= 0")),
    seed('gate refuses duplicates of the current version only one-sided', 'C06.R1',
         (_CM, "        return new_mdib_version >= self.mdib_version", "        return new_mdib_version > self.mdib_version or new_mdib_version == self.mdib_version - 1")),
    seed('override switched on', 'C06.R1', (_CM, "    MDIB_VERSION_CHECK_DISABLED = False", "    MDIB_VERSION_CHECK_DISABLED = True")),
    seed('description handler writes before the gate', 'C06.R1',
         (_CM, "            dmt = self.sdc_definitions.data_model.msg_types.DescriptionModificationType\n            if self._can_accept_mdib_version(mdib_version_group.mdib_version, 'descriptors'):\n                self._update_from_mdib_version_group(mdib_version_group)\n                for report_part in report.ReportPart:",
          "            dmt = self.sdc_definitions.data_model.msg_types.DescriptionModificationType\n            if self._can_accept_mdib_version(mdib_version_group.mdib_version, 'descriptors'):\n                self._update_from_mdib_version_group(mdib_version_group)\n            if True:\n                for report_part in report.ReportPart:")),
    seed('state gate accepts the same version', 'C06.R2', (_CM, "        if diff == 1:  # this is the perfect version\n            return True", "        if diff in (0, 1):  # this is the perfect version\n            return True")),
    seed('waveform states updated without the state gate', 'C06.R2',
         (_CM, "                        if self._has_new_state_usable_state_version(\n                            old_state_container,\n                            state_container,\n                            'waveform states',\n                        ):",
          "                        if state_container is not None:")),
    seed('context gate compares the wrong pair', 'C06.R2',
         (_CM, "                    if self._has_new_state_usable_state_version(old_state_container, state_container, 'context states'):", "                    if self._has_new_state_usable_state_version(state_container, state_container, 'context states') or True:")),
    seed('alert report processed without the pre-check result', 'C06.R3',
         (_CM, "        if not self._pre_check_report_ok(mdib_version_group, report, self._process_incoming_alert_states_report):\n            return\n", "        self._pre_check_report_ok(mdib_version_group, report, self._process_incoming_alert_states_report)\n")),
    seed('component report buffered with the metric handler', 'C06.R3',
         (_CM, "        if not self._pre_check_report_ok(mdib_version_group, report, self._process_incoming_component_states_report):", "        if not self._pre_check_report_ok(mdib_version_group, report, self._process_incoming_metric_states_report):")),
    seed('watchdog checks the sequence id only', 'C06.R3',
         (_CM, "        if mdib_version_group.sequence_id == self.sequence_id and mdib_version_group.instance_id == self.instance_id:\n            return",
          "        if mdib_version_group.sequence_id == self.sequence_id:\n            return")),
    seed('state checked before the watchdog', 'C06.R3',
         (_CM, "        self._check_sequence_or_instance_id_changed(mdib_version_group)  # this might change self._state\n        if self._state == ConsumerMdibState.invalid:\n            # ignore report in these states\n            return False",
          "        if self._state == ConsumerMdibState.invalid:\n            # ignore report in these states\n            return False\n        self._check_sequence_or_instance_id_changed(mdib_version_group)  # this might change self._state")),
    seed('control: gate with explicit comparison variable', 'C06.R1',
         (_CM, "        return new_mdib_version >= self.mdib_version", "        acceptable = new_mdib_version >= self.mdib_version\n        return acceptable"), control=True),
]
