"""C16 - location scopes round-trip; location filtering tolerates foreign scopes.

Decided (structural necessary conditions):
  R1 CONTAIN: no exception that parsing a foreign scope string can raise escapes filter_services_inside
     (interprocedural may-raise over the call chain, matched against the handlers on the way).
  R2 AGREE: one element table - scope_string / from_scope_string / __contains__ / __eq__ / __hash__ all
     iterate url_elements; the provider's query keys equal it; the key<->LocationDetail attribute maps of
     scopesfactory and update_from_sdc_location are identical and name existing LocationDetail members.
  R3 codec pairing: what the writers quote / urlencode the reader unquotes / parse_qsl's.
  R4 containment shape: __contains__ rejects iff root differs or some own element is set and differs.
Not decided: the round trip over all unicode strings (value level).
"""
from __future__ import annotations

import ast

from engine.cfg import call_name, cfg_of, expand_aliases
from engine.errors import AnalysisError
from engine.raises import _is_subclass, enclosing_catchers, raise_sites
from engine.repo import walk_no_nested
from engine.util import calls_in, dotted, local_assignments, unparse, xsrc

ID = 'C16'
LOC = 'sdc11073.location.SdcLocation'


def chain_escapes(repo, cls_q, entry, depth=5):
    """Exceptions that may leave `entry` (method of cls_q): own sites + callees resolved on the class."""
    memo = {}

    def esc(name, d):
        if name in memo:
            return memo[name]
        memo[name] = []
        fi = repo.resolve_method(cls_q, name)
        if fi is None:
            return []
        out = []
        for exc, node, what in raise_sites(fi):
            caught = enclosing_catchers(node, fi.node)
            if not any(c and _is_subclass(exc, c, repo) for c in caught):
                out.append((exc, f'{fi.name}: {what}', node, fi))
        if d > 0:
            for c in calls_in(fi.node):
                f = c.func
                callee = None
                if isinstance(f, ast.Attribute) and (dotted(f.value) in ('self', 'cls', 'self.__class__')):
                    callee = f.attr
                if callee is None or repo.resolve_method(cls_q, callee) is None:
                    continue
                caught = enclosing_catchers(c, fi.node)
                for exc, what, node, sfi in esc(callee, d - 1):
                    if not any(cc and _is_subclass(exc, cc, repo) for cc in caught):
                        out.append((exc, what, node, sfi))
            # `x in self` calls __contains__
            for n in walk_no_nested(fi.node):
                if isinstance(n, ast.Compare) and any(isinstance(o, (ast.In, ast.NotIn)) for o in n.ops) and \
                        any(dotted(cmp_) == 'self' for cmp_ in n.comparators):
                    caught = enclosing_catchers(n, fi.node)
                    for exc, what, node, sfi in esc('__contains__', d - 1):
                        if not any(cc and _is_subclass(exc, cc, repo) for cc in caught):
                            out.append((exc, what, node, sfi))
        memo[name] = out
        return out
    return esc(entry, depth)


def _iterates_url_elements(fn):
    for n in walk_no_nested(fn):
        if isinstance(n, (ast.For, ast.comprehension)) and 'url_elements' in unparse(n.iter):
            return True
        if isinstance(n, ast.Assign) and 'url_elements' in unparse(n.value):
            return True
    return False


def run(ctx):  # noqa: C901, PLR0912, PLR0915
    repo = ctx.repo
    ctx.rule('C16.R1', 'CONTAIN: escape set of filter_services_inside over foreign scope strings is empty')
    ctx.rule('C16.R2', 'AGREE: one location element table across scope writer, reader, containment, equality, '
                       'provider query and LocationDetail mapping')
    ctx.rule('C16.R3', 'codec pairing quote/unquote and urlencode/parse_qsl')
    ctx.rule('C16.R4', 'shape of __contains__: reject iff root differs or an own set element differs')
    cls = repo.cls(LOC)

    # the scope a provider publishes is that of its one associated location: set_location leaves no former location associated
    from .c10 import disassociate_all_marks
    disassociate_all_marks(ctx, 'C16.R2')
    from . import common
    common.entity_getters_hand_out_copies(ctx, 'C16.R2')
    ctx.borrow('C02', {'C02.R4'}, 'C16.R2', contains=['context state updates are looked up'], why='a disassociation written with a descriptor transaction is not lost')
    # ------------------------------------------------------------------ R1
    esc = chain_escapes(repo, LOC, 'filter_services_inside')
    sites_total = sum(len(raise_sites(repo.resolve_method(LOC, m))) for m in
                      ('filter_services_inside', '_service_matches', '_scope_string_matches', 'from_scope_string',
                       '__contains__') if repo.resolve_method(LOC, m) is not None)
    ctx.floor('C16.R1', sites_total, 2, 'raising constructs on the filter call chain')
    if esc:
        for exc, what, node, sfi in esc:
            ctx.ob('C16.R1', f'{exc} from {what}', False,
                   f'{exc} raised by [{what}] is not caught on the way out of filter_services_inside: one foreign '
                   f'scope string (e.g. a location scope with a different number of path segments) makes the whole '
                   f'filtering fail', fi=sfi, node=node)
    else:
        ctx.ob('C16.R1', 'escape set empty', True,
               'every exception that parsing a foreign scope string can raise is handled inside the filter',
               fi=repo.resolve_method(LOC, 'filter_services_inside'),
               witness={'raise_sites': [f'{m}: {w}' for m in ('from_scope_string', '_scope_string_matches')
                                        for _e, _n, w in raise_sites(repo.resolve_method(LOC, m))]})
    # scopes may be absent
    # every read of <service>.scopes.text on the filter chain is guarded by "<service>.scopes is not None" (branch facts, or
    # an earlier operand of the same and-chain) - wherever the maintainer keeps that code
    from engine.cfg import Facts, inline_facts
    n_sc, ok = 0, True
    sm = None
    for m in ('filter_services_inside', '_service_matches'):
        f = repo.resolve_method(LOC, m)
        if f is None:
            continue
        f = expand_aliases(f)    # `scopes = service.scopes` written out
        gm = cfg_of(f)
        for hn in gm.real_nodes():
            for a in hn.walk():
                if isinstance(a, ast.Attribute) and a.attr == 'text' and isinstance(a.value, ast.Attribute) and \
                        a.value.attr == 'scopes':
                    n_sc += 1
                    sm = f
                    facts = Facts(list(gm.facts_at(hn)) + inline_facts(a), gm.facts_at(hn).resolved)
                    owner = unparse(a.value)
                    ok = ok and ((f'{owner} is None', False) in facts or (owner, True) in facts)
    ctx.ob('C16.R1', 'service without scopes', ok and n_sc >= 1,
           'a service without scopes is skipped before its scope list is read', fi=sm or repo.method(LOC, 'filter_services_inside'))

    # the filter keeps a service iff ONE of its scopes lies inside the location - every scope is looked at
    from engine.boolform import equivalent, function_formula, mk

    def _loc_helper(name):
        f = repo.resolve_method(LOC, name)
        return f.node if f is not None and name == '_service_matches' else None
    pred = repo.resolve_method(LOC, '_service_matches')
    got = None
    if pred is not None:
        got = function_formula(pred.node)
        svc = pred.node.args.args[1].arg
        where = pred
    else:
        # merged into filter_services_inside: [s for s in services if COND] or a loop with `if COND: append`
        fsi = repo.method(LOC, 'filter_services_inside')
        where = fsi
        for n in walk_no_nested(fsi.node):
            if isinstance(n, ast.ListComp) and len(n.generators) == 1 and len(n.generators[0].ifs) == 1 and \
                    isinstance(n.generators[0].target, ast.Name):
                from engine.boolform import expr_formula
                got, svc = expr_formula(n.generators[0].ifs[0]), n.generators[0].target.id
            if isinstance(n, ast.For) and isinstance(n.target, ast.Name) and len(n.body) == 1 and isinstance(n.body[0], ast.If) \
                    and not n.body[0].orelse:
                from engine.boolform import expr_formula
                got, svc = expr_formula(n.body[0].test), n.target.id
    if got is None:
        raise AnalysisError('C16.R1: the predicate of filter_services_inside is neither _service_matches nor a recognisable filter')
    want = mk('and', [('not', ('atom', f'{svc}.scopes is None')),
                      ('exists', f'{svc}.scopes.text', ('atom', 'self._scope_string_matches($0)'))])
    same, counter = equivalent(got, want)
    ctx.ob('C16.R1', 'any scope inside', same,
           'a service is kept iff it has scopes and at least one of them lies inside the location' if same else
           f'the service filter is {got}; required: the service has scopes and SOME scope of it matches (every scope is '
           f'examined) - a valid location scope behind another scope is never looked at', fi=where, witness=repr(got)[:300])
    # parsing / formatting a location is not memoised: from_scope_string returns a NEW SdcLocation on every call (a cached
    # instance would be shared by all callers; editing one parse result changes what the next parse of that string returns)
    cached = [f'{m}: @{unparse(d)}' for m, f in repo.cls(LOC).methods.items() for d in f.node.decorator_list
              if any(x in unparse(d) for x in ('cache', 'memo'))]
    ctx.ob('C16.R1', 'no memoised location objects', not cached,
           'no method of SdcLocation is cached: every parse builds a new object' if not cached else
           f'{cached}: the cached SdcLocation object is handed to every caller; a caller that edits the result of one parse '
           f'changes the result of every later parse of the same scope string', where=LOC, witness=cached)

    # ------------------------------------------------------------------ R2
    ue, _ = repo.class_attr(LOC, 'url_elements')
    if not isinstance(ue, ast.Tuple):
        raise AnalysisError('C16.R2: SdcLocation.url_elements is not a tuple literal')
    elements = [e.value for e in ue.elts]
    ctx.floor('C16.R2', len(elements), 6, 'location elements')
    for m in ('scope_string', 'from_scope_string', '__contains__', '__eq__', '__hash__'):
        fi = repo.method(LOC, m)
        ctx.ob('C16.R2', f'{m} iterates url_elements', _iterates_url_elements(fi.node),
               f'SdcLocation.{m} works over the shared element table url_elements', fi=fi)
    init = repo.method(LOC, '__init__')
    params = [a.arg for a in init.node.args.args if a.arg not in ('self', 'root')]
    stored = {t.attr for n in walk_no_nested(init.node) if isinstance(n, ast.Assign) for t in n.targets
              if isinstance(t, ast.Attribute) and isinstance(n.value, ast.Name) and n.value.id == t.attr}
    ctx.ob('C16.R2', 'constructor covers the table', set(params) == set(elements) and set(elements) <= stored,
           'SdcLocation.__init__ takes and stores exactly the elements of url_elements, each under its own name',
           fi=init, witness={'params': params, 'elements': elements})
    # provider query
    qf = expand_aliases(repo.func('sdc11073.provider.scopesfactory._query_from_location_state'))   # value = detail.X written out
    qmap = {}
    for n in walk_no_nested(qf.node):
        if isinstance(n, ast.Assign) and isinstance(n.targets[0], ast.Subscript) and \
                isinstance(n.targets[0].slice, ast.Constant) and isinstance(n.value, ast.Attribute):
            qmap[n.targets[0].slice.value] = n.value.attr
            # guard must test the same attribute
            par = getattr(n, '_parent', None)
            if isinstance(par, ast.If):
                tested = [a.attr for a in ast.walk(par.test) if isinstance(a, ast.Attribute)]
                if n.value.attr not in tested:
                    qmap[n.targets[0].slice.value] = f'{n.value.attr} (guarded by {tested})'
    st = expand_aliases(repo.func('sdc11073.mdib.statecontainers.LocationContextStateContainer.update_from_sdc_location'))   #  written out
    smap = {}
    for n in walk_no_nested(st.node):
        if isinstance(n, ast.Assign) and isinstance(n.targets[0], ast.Attribute) and \
                unparse(n.targets[0].value) == 'self.LocationDetail' and isinstance(n.value, ast.Attribute) and \
                dotted(n.value.value) == 'sdc_location':
            smap[n.value.attr] = n.targets[0].attr
            # every element is taken over, also None (an element that the new location does not have must not keep the value of
            # the previous location): the store is unconditional
            gst_ = cfg_of(st)
            hn_ = gst_.holder(n)
            if hn_ is not None and list(gst_.facts_at(hn_).both()):
                smap[n.value.attr] = f'{n.targets[0].attr} (only under {[t for t, _p in gst_.facts_at(hn_).both()][:2]})'
    ctx.ob('C16.R2', 'provider query keys', set(qmap) == set(elements),
           'the keys written by scopesfactory._query_from_location_state are exactly url_elements', fi=qf,
           witness={'query_keys': sorted(qmap), 'url_elements': elements})
    ctx.ob('C16.R2', 'key to LocationDetail map', qmap == smap and set(smap) == set(elements),
           'scopesfactory (LocationDetail -> query key) and update_from_sdc_location (SdcLocation -> LocationDetail) '
           'use the same key<->attribute pairs', fi=qf, witness={'scopesfactory': qmap, 'statecontainer': smap})
    ld = repo.cls('sdc11073.xml_types.pm_types.LocationDetail')
    members = set(ld.assigns)
    ctx.ob('C16.R2', 'LocationDetail members', set(smap.values()) <= members,
           'all mapped attributes are declared members of pm_types.LocationDetail', fi=None, where=ld.qual,
           witness=sorted(set(smap.values()) - members))
    # from_scope_string reads query keys by the element names
    fs = repo.method(LOC, 'from_scope_string')
    src = xsrc(fs)
    # data dependence: what is handed to the constructor as **kwargs is read from the parsed query by the names in url_elements
    from engine.deps import Deps
    dfs = Deps(fs.node)
    ctor = [c for c in calls_in(fs.node) if isinstance(c.func, ast.Name) and c.func.id == 'cls'
            and any(k.arg is None for k in c.keywords)]
    ok_keys = len(ctor) == 1 and all(
        {'call:parse_qsl', 'attr:url_elements'} <= dfs.sources(k.value) for k in ctor[0].keywords if k.arg is None)
    ctx.ob('C16.R2', 'reader keys', ok_keys,
           'from_scope_string fills the constructor arguments from the query by element name', fi=fs)

    # mk_scopes: the query of a location scope is computed from the state whose identification it is appended to - every
    # definition of the query that reaches the scope string lies inside the loop over the associated states
    mks = repo.func('sdc11073.provider.scopesfactory.mk_scopes')
    gm = cfg_of(mks)
    qcalls = gm.nodes_calling('_query_from_location_state')
    ok = bool(qcalls)
    wit = {}
    for qn, qc in qcalls:
        if not (qn.kind == 'stmt' and isinstance(qn.stmt, ast.Assign) and isinstance(qn.stmt.targets[0], ast.Name)
                and qc.args and isinstance(qc.args[0], ast.Name)):
            ok = False
            continue
        qvar, svar = qn.stmt.targets[0].id, qc.args[0].id
        state_loops = [lp for lp in qn.loops if isinstance(lp, ast.For) and svar in {x.id for x in ast.walk(lp.target)
                                                                                     if isinstance(x, ast.Name)}]
        uses = [n for n in gm.real_nodes() if n is not qn and any(
            isinstance(x, ast.JoinedStr) and any(isinstance(y, ast.Name) and y.id == qvar for y in ast.walk(x)) for x in n.walk())]
        if not state_loops or not uses:
            ok = False
            continue
        for u in uses:
            defs = gm.reaching_defs(qvar).get(u.id, set())
            outside = [d for d in defs if state_loops[0] not in d.loops]
            wit[f'line {u.lineno}'] = [d.text()[:50] for d in defs]
            ok = ok and bool(defs) and not outside
    ctx.ob('C16.R2', 'mk_scopes: query of the same state', ok,
           'the query part of a published location scope is computed for the state it is published for' if ok else
           f'a definition of the query from outside the loop over the states reaches the scope string ({wit}): with two '
           f'associated location states the second scope carries the query of the first', fi=mks, witness=wit)
    # publish_service: what is stored and announced carries the scopes that were handed in - on every path (a re-used
    # Service object keeps the scopes of the previous location)
    pub = repo.func('sdc11073.wsdiscovery.wsdimpl.WSDiscovery.publish_service')
    gp = cfg_of(pub)
    sends = gp.nodes_calling('_send_hello')
    sc_stores = [n for n in gp.real_nodes() if n.kind == 'stmt' and isinstance(n.stmt, ast.Assign) and
                 isinstance(n.stmt.targets[0], ast.Attribute) and n.stmt.targets[0].attr == 'scopes' and
                 unparse(n.stmt.value) == 'scopes']
    ok = bool(sends)
    for sn, sc in sends:
        arg = sc.args[0] if sc.args else None
        if not isinstance(arg, ast.Name):
            ok = False
            continue
        for d in gp.reaching_defs(arg.id).get(sn.id, set()):
            v = gp.def_value(d, arg.id) if d.kind == 'stmt' else None
            built = isinstance(v, ast.Call) and call_name(v) == 'Service' and (
                (len(v.args) > 1 and unparse(v.args[1]) == 'scopes') or
                any(k.arg == 'scopes' and unparse(k.value) == 'scopes' for k in v.keywords))
            if not built and gp.path_exists(d, sn, avoid=sc_stores):
                ok = False
    ctx.ob('C16.R2', 'publish_service announces the given scopes', ok,
           'the Service that publish_service stores and announces is built with (or given) the scopes of this call' if ok else
           'publish_service announces a Service object whose scopes are not those handed in (a kept object from the previous '
           'publication): after set_location the Hello and all ProbeMatches still carry the old location scope', fi=pub)

    from . import common
    # the scope strings that reach the location filter are the items of the wsd:Scopes list, whatever white space separates them
    common.element_text_lists_split_on_whitespace(ctx, 'C16.R3')
    # ------------------------------------------------------------------ R3
    ss = repo.method(LOC, 'scope_string')
    w = {call_name(c) for c in calls_in(ss.node)}
    r = {call_name(c) for c in calls_in(fs.node)}
    ctx.ob('C16.R3', 'path codec', 'quote' in w and 'unquote' in r,
           'scope_string quotes the path segments, from_scope_string unquotes the root segment', fi=fs,
           witness={'writer': sorted(x for x in w if x), 'reader': sorted(x for x in r if x)})
    ctx.ob('C16.R3', 'query codec', 'urlencode' in w and 'parse_qsl' in r,
           'scope_string urlencodes the query, from_scope_string parses it with parse_qsl', fi=fs)
    # exactly one decoding layer per encoding layer: parse_qsl already percent-decodes the query values
    la = local_assignments(fs.node)
    double = []
    for c in calls_in(fs.node):
        if call_name(c) in ('unquote', 'unquote_plus') and c.args:
            srcs = {n.id for a in c.args for n in ast.walk(a) if isinstance(n, ast.Name)}
            todo, seen = list(srcs), set()
            while todo:
                nm = todo.pop()
                if nm in seen:
                    continue
                seen.add(nm)
                for v in la.get(nm, []):
                    todo.extend(n.id for n in ast.walk(v) if isinstance(n, ast.Name))
                    if any(isinstance(x, ast.Call) and call_name(x) in ('parse_qsl', 'parse_qs') for x in ast.walk(v)):
                        double.append(unparse(c))
    n_root = sum(1 for c in calls_in(fs.node) if call_name(c) == 'unquote' and 'path' in unparse(c))
    ctx.ob('C16.R3', 'one decoding layer', not double and n_root <= 1,
           'from_scope_string decodes the query once (parse_qsl) and the root segment once (unquote)' if not double else
           f'from_scope_string applies {double[0]} to a value that parse_qsl already decoded: an element containing a '
           f'literal percent escape (e.g. "Ward%20A") does not round-trip', fi=fs, witness=double)
    wq = {call_name(c) for c in calls_in(qf.node)}
    ctx.ob('C16.R3', 'provider query codec', 'urlencode' in wq,
           'the provider builds the location query with urlencode (inverse of parse_qsl)', fi=qf)
    # scheme comparison is case-insensitive on the foreign side only
    gfs = cfg_of(fs)
    rz = [n for n in gfs.nodes if n.kind == 'raisestmt' and 'UrlSchemeError' in n.text()]
    from engine.cfg import canon_lit
    want = canon_lit('urlsplit(X).scheme.lower() == cls.scheme', False)
    ok_scheme = bool(rz) and all(
        any((canon_lit(t.replace('$1', 'X'), p) == want) for t, p in gfs.facts_symbolic(n)) for n in rz)
    ctx.ob('C16.R3', 'scheme check', ok_scheme,
           'from_scope_string compares the lower-cased scheme with the constant scheme', fi=fs)

    # ------------------------------------------------------------------ R4
    co = repo.method(LOC, '__contains__')
    ok, why = _contains_shape(co.node)
    ctx.ob('C16.R4', '__contains__ shape', ok, why, fi=co)


def _contains_shape(fn):
    """Translate __contains__ into a formula and compare with: root equal and forall element (own unset or equal)."""
    from engine.boolform import function_formula, mk
    got = function_formula(fn)
    want = mk('and', [('atom', 'other.root == self.root'),
                      ('forall', 'self.url_elements',
                       mk('or', [('atom', 'getattr(self, $0) is None'),
                                 ('atom', 'getattr(other, $0) == getattr(self, $0)')]))])
    from engine.boolform import equivalent
    same, _counter = equivalent(got, want)
    if same:
        return True, '__contains__ rejects iff root differs or an own element is set and differs from the other one'
    return False, (f'__contains__ is {got}; required: roots equal and for every element of url_elements (own element unset '
                   f'or equal to the other one)')


# ---------------------------------------------------------------------- self-test seeds
from selftest import seed  # noqa: E402

_L = 'src/sdc11073/location.py'
_S = 'src/sdc11073/provider/scopesfactory.py'
SEEDS = [
    seed('from_scope_string: strict three-way unpack again', 'C16.R1',
         (_L, "        path_elements = src.path.split('/')\n        # path is '/<root>' or '/<root>/<extension>'; tolerate any other number of segments\n        root = unquote(path_elements[1]) if len(path_elements) > 1 else ''",
          "        dummy, root, _ = src.path.split('/')\n        root = unquote(root)"),
         (_L, "        except (UrlSchemeError, ValueError):", "        except UrlSchemeError:")),
    seed('handler narrowed to UrlSchemeError', 'C16.R1', (_L, "        except (UrlSchemeError, ValueError):", "        except UrlSchemeError:")),
    seed('root segment without length check', 'C16.R1',
         (_L, "        root = unquote(path_elements[1]) if len(path_elements) > 1 else ''", "        root = unquote(path_elements[1])")),
    seed('scopesfactory swaps flr and rm', 'C16.R2',
         (_S, "        query_dict['rm'] = state.LocationDetail.Room", "        query_dict['rm'] = state.LocationDetail.Floor")),
    seed('state container maps bed to Room', 'C16.R2',
         ('src/sdc11073/mdib/statecontainers.py', "        self.LocationDetail.Bed = sdc_location.bed", "        self.LocationDetail.Bed = sdc_location.rm")),
    seed('__eq__ ignores the element table', 'C16.R2',
         (_L, "    def __eq__(self, other: object) -> bool:\n        attr_names = (*self.url_elements, 'root')", "    def __eq__(self, other: object) -> bool:\n        attr_names = ('fac', 'poc', 'bed', 'root')")),
    seed('root not unquoted', 'C16.R3',
         (_L, "        root = unquote(path_elements[1]) if len(path_elements) > 1 else ''", "        root = path_elements[1] if len(path_elements) > 1 else ''")),
    seed('query values decoded twice', 'C16.R3',
         (_L, "            arguments_dict[attr_name] = query_dict.get(attr_name)", "            value = query_dict.get(attr_name)\n            arguments_dict[attr_name] = unquote(value) if value is not None else None")),
    seed('__contains__: unset own element must equal', 'C16.R4',
         (_L, "            if my_attr is not None:\n                if my_attr != getattr(other, attr_name):\n                    return False",
          "            if my_attr != getattr(other, attr_name):\n                return False")),
    seed('__contains__ ignores root', 'C16.R4', (_L, "        if self.root != other.root:\n            return False\n        for attr_name", "        for attr_name")),
    seed('control: __contains__ without the local variable', 'C16.R4',
         (_L, "            my_attr = getattr(self, attr_name)\n            if my_attr is not None:\n                if my_attr != getattr(other, attr_name):\n                    return False",
          "            if getattr(self, attr_name) is not None and getattr(self, attr_name) != getattr(other, attr_name):\n                return False"), control=True),
    seed('control: rename loop variable in __contains__', 'C16.R4',
         (_L, "        for attr_name in self.url_elements:\n            my_attr = getattr(self, attr_name)\n            if my_attr is not None:\n                if my_attr != getattr(other, attr_name):",
          "        for name in self.url_elements:\n            my_attr = getattr(self, name)\n            if my_attr is not None:\n                if my_attr != getattr(other, name):"), control=True),
]
