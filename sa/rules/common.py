"""Obligations about helper code that several properties rest on (base classes, descriptors, observables).

A property is broken just as well by a change in the helper its main functions call as by a change in those functions; each
rule module calls the helpers below for the foundations its property needs, under its own rule id, so that the check of that
property reports the broken foundation (third round of seeded changes, DESIGN.md section 9).
"""
from __future__ import annotations

import ast

from engine.cfg import call_name, cfg_of
from engine.repo import walk_no_nested
from engine.util import calls_in, unparse

XS = 'sdc11073.xml_types.xml_structure'
DATA_BASES = ('sdc11073.mdib.containerbase.ContainerBase', 'sdc11073.xml_types.basetypes.XMLTypeBase')


def none_test(t) -> bool:
    """t is built from `<x> is None` / `<x> is not None` only (and / or / not)."""
    if isinstance(t, ast.BoolOp):
        return all(none_test(v) for v in t.values)
    if isinstance(t, ast.UnaryOp) and isinstance(t.op, ast.Not):
        return none_test(t.operand)
    return isinstance(t, ast.Compare) and len(t.ops) == 1 and isinstance(t.ops[0], (ast.Is, ast.IsNot)) and \
        isinstance(t.comparators[0], ast.Constant) and t.comparators[0].value is None


def _tests_of(fn):
    out = []
    for n in walk_no_nested(fn):
        if isinstance(n, (ast.If, ast.While, ast.IfExp)):
            out.append(n.test)
        if isinstance(n, ast.BoolOp):
            out.append(n)
    return out


def copies_are_deep(ctx, rule, with_mk_copy=True):
    """mk_copy hands out deep copies of every stored value: the copy loop is guarded by None tests only, the value it looks
    at is the stored one (no get_actual_value override maps an empty value to None), no data class short-cuts deepcopy."""
    from .c03 import _mk_copy_is_deep
    repo = ctx.repo
    mk = repo.func('sdc11073.mdib.containerbase.ContainerBase.mk_copy')
    deep, why = _mk_copy_is_deep(mk)
    if with_mk_copy:
        ctx.ob(rule, 'mk_copy deep', deep, 'ContainerBase.mk_copy ' + why, fi=mk)
    # a shallow copy.copy(self) also copies the reference to the per-object storage of observable properties
    # (_property_instance_data, used by `node`): the copy must be given its own, or setting copy.node sets self.node
    shallow = [c for c in calls_in(mk.node, 'copy') if isinstance(c.func, ast.Attribute) and unparse(c.func.value) == 'copy'
               and c.args and unparse(c.args[0]) == 'self']
    cb = repo.cls('sdc11073.mdib.containerbase.ContainerBase')
    has_observable = any(isinstance(v, ast.Call) and call_name(v) == 'ObservableProperty' for v in cb.assigns.values())
    own_storage = any((isinstance(x, ast.Constant) and x.value == '_property_instance_data') or
                      (isinstance(x, ast.Attribute) and x.attr == '_property_instance_data') for x in ast.walk(mk.node))
    ctx.ob(rule, 'copy has its own observable storage', not (shallow and has_observable) or own_storage,
           'mk_copy gives the copy its own storage for observable properties' if own_storage else
           'mk_copy does not copy shallowly / the class has no observable property'
           if not (shallow and has_observable) else
           'mk_copy starts from copy.copy(self) and leaves _property_instance_data (the storage of the observable `node`) '
           'shared with self: mk_copy(copy_node=True) and every `copy.node = ..` replace the node of the original object',
           fi=mk)
    n = 0
    for q, ci in sorted(repo.classes.items()):
        if not q.startswith(XS + '.'):
            continue
        fi = ci.methods.get('get_actual_value')
        if fi is None:
            continue
        n += 1
        rets = [r.value for r in walk_no_nested(fi.node) if isinstance(r, ast.Return) and r.value is not None]
        # the stored object or None - never a value derived by truthiness (`x or None`, `x if x else None`)
        bad = [unparse(r) for r in rets if isinstance(r, (ast.BoolOp, ast.IfExp))] + \
              [unparse(t) for t in _tests_of(fi.node) if not none_test(t) and not isinstance(t, ast.BoolOp)]
        ctx.ob(rule, f'{ci.name}.get_actual_value', not bad,
               f'{ci.name}.get_actual_value returns the stored value itself (an empty list stays an empty list)' if not bad else
               f'{ci.name}.get_actual_value maps stored values to something else ({bad[:2]}): mk_copy, which asks it what to '
               f'copy, no longer deep-copies such values and the copy shares them with the original', fi=fi)
    ctx.floor(rule, n, 1, 'get_actual_value implementations')
    for q, ci in (repo.classes.items() if with_mk_copy else ()):
        if any(b in repo.mro(q) for b in DATA_BASES):
            for m in ('__deepcopy__', '__copy__'):
                if m in ci.methods:
                    ctx.ob(rule, f'{ci.name}.{m}', False,
                           f'{ci.name} customises {m}; copies of data objects handed out by the entity interface are no '
                           f'longer independent of the MDIB objects', fi=ci.methods[m])


def observers_all_notified(ctx, rule):
    """_ObservableValue.set_value calls every observer: it iterates over a copy of the observer list (observers that unbind
    themselves while being called - SingleValueCollector, bound_context - would otherwise make it skip the next one, e.g.
    the provider's report sender)."""
    repo = ctx.repo
    fi = repo.func('sdc11073.observableproperties.observables._ObservableValue.set_value')
    loops = [n for n in walk_no_nested(fi.node) if isinstance(n, ast.For) and any(
        isinstance(c, ast.Call) and isinstance(c.func, ast.Name) for c in ast.walk(ast.Module(body=n.body, type_ignores=[])))]
    ok = bool(loops)
    for lp in loops:
        it = lp.iter
        copied = (isinstance(it, ast.Subscript) and isinstance(it.slice, ast.Slice) and it.slice.lower is None
                  and it.slice.upper is None) or \
                 (isinstance(it, ast.Call) and call_name(it) in ('list', 'tuple', 'copy'))
        if '_observers' in unparse(it) and not copied:
            ok = False
    calls = [c for lp in loops for c in calls_in(lp) if isinstance(c.func, ast.Name)]
    ctx.ob(rule, 'observers notified from a copy of the list', ok and bool(calls),
           'set_value calls the observers from a copy of the observer list' if ok else
           'set_value iterates over the live observer list while calling the observers: an observer that unbinds itself in its '
           'callback makes the loop skip the next observer - the provider misses a commit and sends no report for it', fi=fi)


def implied_value_only_for_none(ctx, rule):
    """The property getter substitutes the implied value only for a missing value (None), never for a falsy one (0, False,
    '', PT0S are values)."""
    repo = ctx.repo
    n = 0
    for q, ci in sorted(repo.classes.items()):
        if not q.startswith(XS + '.'):
            continue
        fi = ci.methods.get('__get__')
        if fi is None or '_implied_py_value' not in unparse(fi.node):
            continue
        n += 1
        g = cfg_of(fi)
        ok = True
        for node in g.real_nodes():
            if node.kind in ('stmt', 'return') and '_implied_py_value' in node.text() and \
                    not (node.kind == 'stmt' and isinstance(node.stmt, ast.Expr)):
                facts = g.facts_at(node)
                # reached only where the stored value is known to be None
                ok = ok and any(p is True and t.endswith(' is None') for t, p in facts.both())
        bad = [unparse(t) for t in _tests_of(fi.node) if not none_test(t) and not isinstance(t, ast.BoolOp)]
        bad = [b for b in bad if 'instance' not in b or 'getattr' in b]
        ctx.ob(rule, f'{ci.name}.__get__ implied value', ok and not bad,
               f'{ci.name}.__get__ returns the implied value only when no value is stored (None)' if ok and not bad else
               f'{ci.name}.__get__ replaces a stored falsy value (0, False, "", zero duration) by the implied value: the value '
               f'read back differs from the one that was set / parsed', fi=fi)
    ctx.floor(rule, n, 1, 'property getters with an implied value')


def version_group_setters_total(ctx, rule):
    """Every set_mdib_version_group implementation (reports and Get responses) copies all three counters, unconditionally:
    a counter that is left out for some value (InstanceId 0) makes the consumer see a change of sequence / instance."""
    repo = ctx.repo
    want = {'MdibVersion': 'mdib_version', 'SequenceId': 'sequence_id', 'InstanceId': 'instance_id'}
    n = 0
    for q, fi in sorted(repo.funcs.items()):
        if fi.name != 'set_mdib_version_group' or not q.startswith('sdc11073.xml_types.'):
            continue
        n += 1
        g = cfg_of(fi)
        p = fi.node.args.args[1].arg
        got = {}
        for node in g.real_nodes():
            if node.kind == 'stmt' and isinstance(node.stmt, ast.Assign):
                t = node.stmt.targets[0]
                if isinstance(t, ast.Attribute) and unparse(t.value) == 'self' and t.attr in want:
                    uncond = g.dominates(node, g.exit) or not g.facts_at(node)
                    got[t.attr] = (g.symbolic_text(node, node.stmt.value), uncond and not node.loops)
        ok = all(got.get(a) == (f'$1.{f}', True) for a, f in want.items())
        ctx.ob(rule, f'{fi.cls.name}.set_mdib_version_group', ok,
               f'{fi.cls.name}.set_mdib_version_group copies MdibVersion, SequenceId and InstanceId unconditionally' if ok else
               f'{fi.cls.name}.set_mdib_version_group does not copy all three counters on every path ({got}): e.g. an '
               f'InstanceId of 0 is left out of reports while GetMdib states it, and the consumer invalidates itself', fi=fi)
    ctx.floor(rule, n, 2, 'set_mdib_version_group implementations')


def reconstruction_is_uncached(ctx, rule):
    """The functions that build the Get response trees compute them from the tables on every call: they store nothing on the
    MDIB object and return nothing that was stored there (a cache keyed by a counter that does not follow every change
    would answer with an outdated tree)."""
    repo = ctx.repo
    MB = 'sdc11073.mdib.mdibbase.MdibBase'
    n = 0
    for name, fi in sorted(repo.cls(MB).methods.items()):
        if not (name.startswith(('reconstruct_', '_reconstruct_')) or name in ('make_descriptor_node',)):
            continue
        n += 1
        stores = [unparse(t) for x in walk_no_nested(fi.node) if isinstance(x, (ast.Assign, ast.AugAssign, ast.AnnAssign))
                  for t in (x.targets if isinstance(x, ast.Assign) else [x.target])
                  if isinstance(t, (ast.Attribute, ast.Subscript)) and unparse(t).startswith('self.')]
        memo = [unparse(d) for d in fi.node.decorator_list if 'cache' in unparse(d)]
        ctx.ob(rule, f'{name} builds from the tables', not stores and not memo,
               f'MdibBase.{name} keeps no state between calls' if not stores and not memo else
               f'MdibBase.{name} stores {stores or memo} on the MDIB: a later Get response can be answered from that store '
               f'instead of the current tables', fi=fi)
    ctx.floor(rule, n, 3, 'reconstruct functions of MdibBase')


def index_lists_not_mutated_while_iterated(ctx, rule):
    """remove_objects(L) iterates L while it removes every element from the indices: L must not be the list that an index
    holds (`table.<index>.get(key)`), or every second object is skipped and stays in the table - a copy is required."""
    from engine.flow import Resident
    repo = ctx.repo
    n = 0
    for q, fi in sorted(repo.funcs.items()):
        if not q.startswith('sdc11073.mdib.'):
            continue
        calls = [c for c in calls_in(fi.node) if call_name(c) in ('remove_objects', 'remove_objects_no_lock') and c.args]
        if not calls:
            continue
        is_mdib = fi.cls is not None and 'sdc11073.mdib.mdibbase.MdibBase' in repo.mro(fi.cls.qual)
        res = Resident(fi.node, self_is_mdib=is_mdib)
        g = cfg_of(fi)
        for c in calls:
            arg = c.args[0]
            hn = g.holder(c)
            vals = [arg]
            if isinstance(arg, ast.Name) and hn is not None:
                defs = g.reaching_defs(arg.id).get(hn.id, set())
                vals = [g.def_value(d, arg.id) for d in defs if d.kind == 'stmt']
                vals = [v for v in vals if v is not None]
                if not vals:
                    continue   # a parameter: the callers are judged
            n += 1
            owned = [unparse(v) for v in vals if isinstance(v, ast.Call) and call_name(v) in ('get', 'get_one') and
                     isinstance(v.func, ast.Attribute) and res.is_table(v.func.value)]
            owned += [unparse(v) for v in vals if isinstance(v, ast.Subscript) and not isinstance(v.slice, ast.Slice) and
                      res.is_table(v.value)]
            ctx.ob(rule, f'{fi.name}: {unparse(c)[:60]}', not owned,
                   f'{fi.name}: the objects handed to {call_name(c)} are listed in a list of their own' if not owned else
                   f'{fi.name}: {call_name(c)} is given the list that the index itself holds ({owned[0]}): the removal shrinks '
                   f'that list while it is iterated, every second state of the descriptor stays in the table (orphan state)',
                   fi=fi, node=c)
    ctx.floor(rule, n, 1, 'remove_objects calls with a locally computed list')


def entity_getters_hand_out_copies(ctx, rule):
    """The entity interface (EntityGetter, get_entity ...) returns deep copies: nothing that is stored in the MDIB tables (or a
    shallow copy of a list / dict of stored objects) leaves through a return statement."""
    from engine.flow import Resident
    from .c03 import _resident_parts
    repo = ctx.repo
    eg = ['sdc11073.mdib.mdibbase.EntityGetter._mk_entity', 'sdc11073.mdib.mdibbase.EntityGetter.by_handle',
          'sdc11073.mdib.mdibbase.EntityGetter.by_node_type', 'sdc11073.mdib.mdibbase.EntityGetter.by_parent_handle',
          'sdc11073.mdib.mdibbase.EntityGetter.items', 'sdc11073.mdib.mdibbase.MdibBase.get_entity',
          'sdc11073.mdib.mdibbase.MdibBase.get_context_entity']
    n = 0
    for q in eg:
        fi = repo.funcs.get(q)
        if fi is None:
            continue
        res = Resident(fi.node, self_is_mdib=fi.cls is not None and 'sdc11073.mdib.mdibbase.MdibBase' in repo.mro(fi.cls.qual))
        g = cfg_of(fi)
        for r in walk_no_nested(fi.node):
            if isinstance(r, ast.Return) and r.value is not None:
                n += 1
                leaks = _resident_parts(r.value, res)
                ctx.ob(rule, f'{fi.name}: return {g.canon_text(g.holder(r), r.value)}', not leaks,
                       f'{fi.name} returns a copy / a new object' if not leaks else
                       f'{fi.name} hands out the object(s) stored in the MDIB without a (deep) copy: '
                       f'{[unparse(x) for x in leaks]}; an application that edits the entity edits the committed containers, '
                       f'which a Get response that was selected earlier is still being serialised from', fi=fi, node=r)
    ctx.floor(rule, n, 5, 'return statements of the entity getters')
