"""Obligations about helper code that several properties rest on (base classes, descriptors, observables).

A property is broken just as well by a change in the helper its main functions call as by a change in those functions; each
rule module calls the helpers below for the foundations its property needs, under its own rule id, so that the check of that
property reports the broken foundation (third round of seeded changes, DESIGN.md section 9).
"""
from __future__ import annotations

import ast

from engine.cfg import call_name, cfg_of
from engine.errors import AnalysisError
from engine.repo import walk_no_nested
from engine.util import calls_in, unparse

XS = 'sdc11073.xml_types.xml_structure'
DATA_BASES = ('sdc11073.mdib.containerbase.ContainerBase', 'sdc11073.xml_types.basetypes.XMLTypeBase')


def none_test(t) -> bool:
    """t is built from `<x> is None` / `<x> is not None` only (and / or / not)."""
    if isinstance(t, ast.BoolOp):
        return all(none_test(v) for v in t.values)
    if isinstance(t, ast.UnaryOp) and isinstance(t.op, ast.Not):
        return none_test(t.operand)
    return isinstance(t, ast.Compare) and len(t.ops) == 1 and isinstance(t.ops[0], (ast.Is, ast.IsNot)) and \
        isinstance(t.comparators[0], ast.Constant) and t.comparators[0].value is None


def _tests_of(fn):
    out = []
    for n in walk_no_nested(fn):
        if isinstance(n, (ast.If, ast.While, ast.IfExp)):
            out.append(n.test)
        if isinstance(n, ast.BoolOp):
            out.append(n)
    return out


def copies_are_deep(ctx, rule, with_mk_copy=True):
    """mk_copy hands out deep copies of every stored value: the copy loop is guarded by None tests only, the value it looks
    at is the stored one (no get_actual_value override maps an empty value to None), no data class short-cuts deepcopy."""
    from .c03 import _mk_copy_is_deep
    repo = ctx.repo
    mk = repo.func('sdc11073.mdib.containerbase.ContainerBase.mk_copy')
    deep, why = _mk_copy_is_deep(mk)
    if with_mk_copy:
        ctx.ob(rule, 'mk_copy deep', deep, 'ContainerBase.mk_copy ' + why, fi=mk)
    # a shallow copy.copy(self) also copies the reference to the per-object storage of observable properties
    # (_property_instance_data, used by `node`): the copy must be given its own, or setting copy.node sets self.node
    shallow = [c for c in calls_in(mk.node, 'copy') if isinstance(c.func, ast.Attribute) and unparse(c.func.value) == 'copy'
               and c.args and unparse(c.args[0]) == 'self']
    cb = repo.cls('sdc11073.mdib.containerbase.ContainerBase')
    has_observable = any(isinstance(v, ast.Call) and call_name(v) == 'ObservableProperty' for v in cb.assigns.values())
    own_storage = any((isinstance(x, ast.Constant) and x.value == '_property_instance_data') or
                      (isinstance(x, ast.Attribute) and x.attr == '_property_instance_data') for x in ast.walk(mk.node))
    ctx.ob(rule, 'copy has its own observable storage', not (shallow and has_observable) or own_storage,
           'mk_copy gives the copy its own storage for observable properties' if own_storage else
           'mk_copy does not copy shallowly / the class has no observable property'
           if not (shallow and has_observable) else
           'mk_copy starts from copy.copy(self) and leaves _property_instance_data (the storage of the observable `node`) '
           'shared with self: mk_copy(copy_node=True) and every `copy.node = ..` replace the node of the original object',
           fi=mk)
    n = 0
    for q, ci in sorted(repo.classes.items()):
        if not q.startswith(XS + '.'):
            continue
        fi = ci.methods.get('get_actual_value')
        if fi is None:
            continue
        n += 1
        rets = [r.value for r in walk_no_nested(fi.node) if isinstance(r, ast.Return) and r.value is not None]
        # the stored object or None - never a value derived by truthiness (`x or None`, `x if x else None`)
        bad = [unparse(r) for r in rets if isinstance(r, (ast.BoolOp, ast.IfExp))] + \
              [unparse(t) for t in _tests_of(fi.node) if not none_test(t) and not isinstance(t, ast.BoolOp)]
        ctx.ob(rule, f'{ci.name}.get_actual_value', not bad,
               f'{ci.name}.get_actual_value returns the stored value itself (an empty list stays an empty list)' if not bad else
               f'{ci.name}.get_actual_value maps stored values to something else ({bad[:2]}): mk_copy, which asks it what to '
               f'copy, no longer deep-copies such values and the copy shares them with the original', fi=fi)
    ctx.floor(rule, n, 1, 'get_actual_value implementations')
    for q, ci in sorted(repo.classes.items()):
        if not q.startswith(XS + '.'):
            continue
        for name, fi in ci.methods.items():
            memo = [unparse(d) for d in fi.node.decorator_list if 'cache' in unparse(d)]
            if memo:
                ctx.ob(rule, f'{ci.name}.{name} is memoised', False,
                       f'{ci.name}.{name} is decorated with {memo[0]}: the (mutable) value it computed for one instance / document '
                       f'is handed to every later one with the same input - instances share it, and a change made through one '
                       f'of them is what the next parse returns', fi=fi)
    for q, ci in repo.classes.items():
        if any(b in repo.mro(q) for b in DATA_BASES):
            for m in ('__deepcopy__', '__copy__'):
                if m in ci.methods:
                    ctx.ob(rule, f'{ci.name}.{m}', False,
                           f'{ci.name} customises {m}; copies of data objects handed out by the entity interface are no '
                           f'longer independent of the MDIB objects', fi=ci.methods[m])


def observers_all_notified(ctx, rule):
    """_ObservableValue.set_value calls every observer: it iterates over a copy of the observer list (observers that unbind
    themselves while being called - SingleValueCollector, bound_context - would otherwise make it skip the next one, e.g.
    the provider's report sender)."""
    repo = ctx.repo
    fi = repo.func('sdc11073.observableproperties.observables._ObservableValue.set_value')
    loops = [n for n in walk_no_nested(fi.node) if isinstance(n, ast.For) and any(
        isinstance(c, ast.Call) and isinstance(c.func, ast.Name) for c in ast.walk(ast.Module(body=n.body, type_ignores=[])))]
    ok = bool(loops)
    for lp in loops:
        it = lp.iter
        copied = (isinstance(it, ast.Subscript) and isinstance(it.slice, ast.Slice) and it.slice.lower is None
                  and it.slice.upper is None) or \
                 (isinstance(it, ast.Call) and call_name(it) in ('list', 'tuple', 'copy'))
        if '_observers' in unparse(it) and not copied:
            ok = False
    calls = [c for lp in loops for c in calls_in(lp) if isinstance(c.func, ast.Name)]
    ctx.ob(rule, 'observers notified from a copy of the list', ok and bool(calls),
           'set_value calls the observers from a copy of the observer list' if ok else
           'set_value iterates over the live observer list while calling the observers: an observer that unbinds itself in its '
           'callback makes the loop skip the next observer - the provider misses a commit and sends no report for it', fi=fi)


def implied_value_only_for_none(ctx, rule):
    """The property getter substitutes the implied value only for a missing value (None), never for a falsy one (0, False,
    '', PT0S are values)."""
    repo = ctx.repo
    n = 0
    for q, ci in sorted(repo.classes.items()):
        if not q.startswith(XS + '.'):
            continue
        fi = ci.methods.get('__get__')
        if fi is None or '_implied_py_value' not in unparse(fi.node):
            continue
        n += 1
        g = cfg_of(fi)
        ok = True
        for node in g.real_nodes():
            if node.kind in ('stmt', 'return') and '_implied_py_value' in node.text() and \
                    not (node.kind == 'stmt' and isinstance(node.stmt, ast.Expr)):
                facts = g.facts_at(node)
                # reached only where the stored value is known to be None
                ok = ok and any(p is True and t.endswith(' is None') for t, p in facts.both())
        bad = [unparse(t) for t in _tests_of(fi.node) if not none_test(t) and not isinstance(t, ast.BoolOp)]
        bad = [b for b in bad if 'instance' not in b or 'getattr' in b]
        ctx.ob(rule, f'{ci.name}.__get__ implied value', ok and not bad,
               f'{ci.name}.__get__ returns the implied value only when no value is stored (None)' if ok and not bad else
               f'{ci.name}.__get__ replaces a stored falsy value (0, False, "", zero duration) by the implied value: the value '
               f'read back differs from the one that was set / parsed', fi=fi)
    ctx.floor(rule, n, 1, 'property getters with an implied value')


def version_group_setters_total(ctx, rule):
    """Every set_mdib_version_group implementation (reports and Get responses) copies all three counters, unconditionally:
    a counter that is left out for some value (InstanceId 0) makes the consumer see a change of sequence / instance."""
    repo = ctx.repo
    want = {'MdibVersion': 'mdib_version', 'SequenceId': 'sequence_id', 'InstanceId': 'instance_id'}
    n = 0
    for q, fi in sorted(repo.funcs.items()):
        if fi.name != 'set_mdib_version_group' or not q.startswith('sdc11073.xml_types.'):
            continue
        n += 1
        g = cfg_of(fi)
        p = fi.node.args.args[1].arg
        got = {}
        for node in g.real_nodes():
            if node.kind == 'stmt' and isinstance(node.stmt, ast.Assign):
                t = node.stmt.targets[0]
                if isinstance(t, ast.Attribute) and unparse(t.value) == 'self' and t.attr in want:
                    uncond = g.dominates(node, g.exit) or not g.facts_at(node)
                    got[t.attr] = (g.symbolic_text(node, node.stmt.value), uncond and not node.loops)
        ok = all(got.get(a) == (f'$1.{f}', True) for a, f in want.items())
        ctx.ob(rule, f'{fi.cls.name}.set_mdib_version_group', ok,
               f'{fi.cls.name}.set_mdib_version_group copies MdibVersion, SequenceId and InstanceId unconditionally' if ok else
               f'{fi.cls.name}.set_mdib_version_group does not copy all three counters on every path ({got}): e.g. an '
               f'InstanceId of 0 is left out of reports while GetMdib states it, and the consumer invalidates itself', fi=fi)
    ctx.floor(rule, n, 2, 'set_mdib_version_group implementations')


def reconstruction_is_uncached(ctx, rule):
    """The functions that build the Get response trees compute them from the tables on every call: they store nothing on the
    MDIB object and return nothing that was stored there (a cache keyed by a counter that does not follow every change
    would answer with an outdated tree)."""
    repo = ctx.repo
    MB = 'sdc11073.mdib.mdibbase.MdibBase'
    n = 0
    for name, fi in sorted(repo.cls(MB).methods.items()):
        if not (name.startswith(('reconstruct_', '_reconstruct_')) or name in ('make_descriptor_node',)):
            continue
        n += 1
        stores = [unparse(t) for x in walk_no_nested(fi.node) if isinstance(x, (ast.Assign, ast.AugAssign, ast.AnnAssign))
                  for t in (x.targets if isinstance(x, ast.Assign) else [x.target])
                  if isinstance(t, (ast.Attribute, ast.Subscript)) and unparse(t).startswith('self.')]
        memo = [unparse(d) for d in fi.node.decorator_list if 'cache' in unparse(d)]
        ctx.ob(rule, f'{name} builds from the tables', not stores and not memo,
               f'MdibBase.{name} keeps no state between calls' if not stores and not memo else
               f'MdibBase.{name} stores {stores or memo} on the MDIB: a later Get response can be answered from that store '
               f'instead of the current tables', fi=fi)
    ctx.floor(rule, n, 3, 'reconstruct functions of MdibBase')


def index_lists_not_mutated_while_iterated(ctx, rule):
    """remove_objects(L) iterates L while it removes every element from the indices: L must not be the list that an index
    holds (`table.<index>.get(key)`), or every second object is skipped and stays in the table - a copy is required."""
    from engine.flow import Resident
    repo = ctx.repo
    n = 0
    for q, fi in sorted(repo.funcs.items()):
        if not q.startswith('sdc11073.mdib.'):
            continue
        calls = [c for c in calls_in(fi.node) if call_name(c) in ('remove_objects', 'remove_objects_no_lock') and c.args]
        if not calls:
            continue
        is_mdib = fi.cls is not None and 'sdc11073.mdib.mdibbase.MdibBase' in repo.mro(fi.cls.qual)
        res = Resident(fi.node, self_is_mdib=is_mdib)
        g = cfg_of(fi)
        for c in calls:
            arg = c.args[0]
            hn = g.holder(c)
            vals = [arg]
            if isinstance(arg, ast.Name) and hn is not None:
                defs = g.reaching_defs(arg.id).get(hn.id, set())
                vals = [g.def_value(d, arg.id) for d in defs if d.kind == 'stmt']
                vals = [v for v in vals if v is not None]
                if not vals:
                    continue   # a parameter: the callers are judged
            n += 1
            owned = [unparse(v) for v in vals if isinstance(v, ast.Call) and call_name(v) in ('get', 'get_one') and
                     isinstance(v.func, ast.Attribute) and res.is_table(v.func.value)]
            owned += [unparse(v) for v in vals if isinstance(v, ast.Subscript) and not isinstance(v.slice, ast.Slice) and
                      res.is_table(v.value)]
            ctx.ob(rule, f'{fi.name}: {unparse(c)[:60]}', not owned,
                   f'{fi.name}: the objects handed to {call_name(c)} are listed in a list of their own' if not owned else
                   f'{fi.name}: {call_name(c)} is given the list that the index itself holds ({owned[0]}): the removal shrinks '
                   f'that list while it is iterated, every second state of the descriptor stays in the table (orphan state)',
                   fi=fi, node=c)
    ctx.floor(rule, n, 1, 'remove_objects calls with a locally computed list')


def entity_getters_hand_out_copies(ctx, rule):
    """The entity interface (EntityGetter, get_entity ...) returns deep copies: nothing that is stored in the MDIB tables (or a
    shallow copy of a list / dict of stored objects) leaves through a return statement."""
    from engine.flow import Resident
    from .c03 import _resident_parts
    repo = ctx.repo
    eg = ['sdc11073.mdib.mdibbase.EntityGetter._mk_entity', 'sdc11073.mdib.mdibbase.EntityGetter.by_handle',
          'sdc11073.mdib.mdibbase.EntityGetter.by_node_type', 'sdc11073.mdib.mdibbase.EntityGetter.by_parent_handle',
          'sdc11073.mdib.mdibbase.EntityGetter.items', 'sdc11073.mdib.mdibbase.MdibBase.get_entity',
          'sdc11073.mdib.mdibbase.MdibBase.get_context_entity']
    n = 0
    for q in eg:
        fi = repo.funcs.get(q)
        if fi is None:
            continue
        res = Resident(fi.node, self_is_mdib=fi.cls is not None and 'sdc11073.mdib.mdibbase.MdibBase' in repo.mro(fi.cls.qual))
        g = cfg_of(fi)
        for r in walk_no_nested(fi.node):
            if isinstance(r, ast.Return) and r.value is not None:
                n += 1
                leaks = _resident_parts(r.value, res)
                ctx.ob(rule, f'{fi.name}: return {g.canon_text(g.holder(r), r.value)}', not leaks,
                       f'{fi.name} returns a copy / a new object' if not leaks else
                       f'{fi.name} hands out the object(s) stored in the MDIB without a (deep) copy: '
                       f'{[unparse(x) for x in leaks]}; an application that edits the entity edits the committed containers, '
                       f'which a Get response that was selected earlier is still being serialised from', fi=fi, node=r)
    ctx.floor(rule, n, 5, 'return statements of the entity getters')
    # ... and every call makes its own copies: a getter that remembers the entity it made (a cache keyed by a counter) hands the
    # same object to two callers, and to the second one with whatever the first one did to it
    EG = 'sdc11073.mdib.mdibbase.EntityGetter'
    m = 0
    for q, ci in sorted(repo.classes.items()):
        if EG not in repo.mro(q):
            continue
        for name, fi in sorted(ci.methods.items()):
            if name == '__init__':
                continue
            m += 1
            stores = [unparse(t) for x in walk_no_nested(fi.node) if isinstance(x, (ast.Assign, ast.AugAssign, ast.AnnAssign))
                      for t in (x.targets if isinstance(x, ast.Assign) else [x.target])
                      if isinstance(t, (ast.Attribute, ast.Subscript)) and unparse(t).startswith('self.')
                      and not unparse(t).startswith('self._mdib.')]
            stores += [unparse(c)[:60] for c in calls_in(fi.node) if isinstance(c.func, ast.Attribute) and
                       c.func.attr in ('append', 'setdefault', 'update', 'add') and unparse(c.func.value).startswith('self._')
                       and not unparse(c.func.value).startswith('self._mdib')]
            memo = [unparse(d) for d in fi.node.decorator_list if 'cache' in unparse(d)]
            ctx.ob(rule, f'{ci.name}.{name} keeps nothing', not stores and not memo,
                   f'{ci.name}.{name} keeps no entity between calls' if not stores and not memo else
                   f'{ci.name}.{name} stores {stores or memo} on the getter: a later call is answered with the entity object an '
                   f'earlier caller already holds (and may have changed) instead of a fresh copy of the MDIB content', fi=fi)
    ctx.floor(rule, m, 5, 'methods of the entity getters')
    # the copies are made while the MDIB is locked: _mk_entity reads a descriptor and its state(s) - a commit between the
    # two (or in the middle of the deep copy of the live state list) yields an entity that never existed
    k = 0
    for q, ci in sorted(repo.classes.items()):
        if EG not in repo.mro(q):
            continue
        for name, fi in sorted(ci.methods.items()):
            if name == '_mk_entity':
                continue
            gq = cfg_of(fi)
            for nn, c in gq.nodes_calling('_mk_entity'):
                k += 1
                locked = bool(gq.held_withs(nn, 'mdib_lock'))
                ctx.ob(rule, f'{ci.name}.{name}: _mk_entity under mdib_lock', locked,
                       f'{ci.name}.{name} builds its entities while it holds mdib_lock' if locked else
                       f'{ci.name}.{name} calls _mk_entity outside `with self._mdib.mdib_lock`: a commit that lands while the copies '
                       f'are made gives an entity with the descriptor of one MDIB version and states of another (two associated '
                       f'location states in one copy)', fi=fi, node=c)
    ctx.floor(rule, k, 3, '_mk_entity calls in the entity getters')
    # an entity is made of deep copies only (a shallow copy of a container shares its list members with the MDIB object) ...
    for q in sorted(repo.classes):
        if EG not in repo.mro(q):
            continue
        mke = repo.classes[q].methods.get('_mk_entity')
        if mke is None:
            continue
        shallow = [unparse(c)[:50] for c in calls_in(mke.node, 'copy') if isinstance(c.func, ast.Attribute) and
                   unparse(c.func.value) == 'copy']
        ctx.ob(rule, f'{repo.classes[q].name}._mk_entity copies deeply', not shallow,
               '_mk_entity builds the entity from deep copies' if not shallow else
               f'_mk_entity uses a shallow copy ({shallow}): the list-valued members of the copy (Source, Identification ..) are the '
               f'lists of the stored container - changing them in place changes the MDIB object without re-indexing it', fi=mke)
    # ... and refreshing it takes over whatever the MDIB has now: update() overwrites every state that still exists, whether or not
    # its version counters changed (local, never written edits of the copy do not change any version - they must be discarded)
    for ent in ('Entity', 'MultiStateEntity'):
        ufi = repo.funcs.get(f'sdc11073.mdib.mdibbase.{ent}.update')
        if ufi is None:
            continue
        gu = cfg_of(ufi)
        for un, uc in gu.nodes_calling('update_from_other_container'):
            cond = [t for t, _p in gu.facts_at(un).both() if 'Version' in t]
            arg_ok = bool(uc.args) and isinstance(uc.args[0], ast.Call) and call_name(uc.args[0]) in ('deepcopy', 'mk_copy')
            ctx.ob(rule, f'{ent}.update refreshes from a deep copy, unconditionally', not cond and arg_ok,
                   f'{ent}.update overwrites the entity with deep copies of what the MDIB holds' if not cond and arg_ok else
                   f'{ent}.update refreshes only under {cond} / from {unparse(uc.args[0]) if uc.args else "?"}: local edits of the '
                   f'entity survive the refresh (or the entity shares nested values with the MDIB) - the next write-back commits '
                   f'something that was never read from the MDIB', fi=ufi, node=uc)


def written_entities_are_copied(ctx, rule):
    """write_entity / write_entities take the containers of an entity the caller keeps: what they put into the transaction
    (TransactionItem.new) is a deep copy on every path, or the object the caller still holds becomes the MDIB object with the
    commit and every later change of it changes the MDIB without a transaction."""
    from engine.util import local_assignments
    from .c03 import _is_copy_expr
    repo = ctx.repo
    n = 0
    for q, fi in sorted(repo.funcs.items()):
        if fi.module.name != 'sdc11073.mdib.transactions' or not fi.name.startswith('write_entit') or fi.cls is None:
            continue
        assigns = local_assignments(fi.node)
        assigns = {k: [v for v in vs if not (isinstance(v, ast.Constant) and v.value is None)] for k, vs in assigns.items()}
        g = cfg_of(fi)
        for c in calls_in(fi.node, 'TransactionItem'):
            new = c.args[1] if len(c.args) > 1 else next((k.value for k in c.keywords if k.arg == 'new'), None)
            if new is None or (isinstance(new, ast.Constant) and new.value is None):
                continue
            n += 1
            ok = _is_copy_expr(new, assigns)
            ctx.ob(rule, f'{fi.cls.name}.{fi.name}: TransactionItem(.., {g.canon_text(g.holder(c), new)}) is a copy', ok,
                   f'{fi.cls.name}.{fi.name}: the container that enters the transaction is a deep copy of the entity\'s' if ok else
                   f'{fi.cls.name}.{fi.name}: on some path TransactionItem(.., {unparse(new)}) carries the object of the caller\'s '
                   f'entity itself (values: {[unparse(v)[:50] for v in assigns.get(getattr(new, "id", ""), [])]}): after the '
                   f'commit the caller holds the MDIB object and changes it without a transaction', fi=fi, node=c)
    ctx.floor(rule, n, 4, 'containers put into a transaction by write_entity')


LOG_METHODS = ('debug', 'info', 'warning', 'warn', 'error', 'exception', 'critical', 'log')


def _const_text(e, assigns, aug, depth=3):
    """e is a string built from literals only (literal, + of literals, f-string without fields, local bound to such)."""
    if isinstance(e, ast.Constant):
        return isinstance(e.value, str)
    if isinstance(e, ast.BinOp) and isinstance(e.op, ast.Add):
        return _const_text(e.left, assigns, aug, depth) and _const_text(e.right, assigns, aug, depth)
    if isinstance(e, ast.JoinedStr):
        return all(isinstance(v, ast.Constant) for v in e.values)
    if isinstance(e, ast.IfExp):
        return _const_text(e.body, assigns, aug, depth) and _const_text(e.orelse, assigns, aug, depth)
    if isinstance(e, ast.Name) and depth > 0 and e.id in assigns:
        return all(_const_text(v, assigns, aug, depth - 1) for v in assigns[e.id] + aug.get(e.id, []))
    consts = assigns.get('#constants', {})
    if isinstance(e, ast.Name) and e.id in consts:
        return True    # a module-level string constant
    if isinstance(e, ast.Attribute) and isinstance(e.value, ast.Name) and e.value.id in ('self', 'cls') and e.attr in consts:
        return True    # a class-level string constant
    return False


def log_templates_are_constant(ctx, rule, module_prefixes, floor=5):
    """LoggerAdapter runs str.format(*args) over the template whenever arguments are given: a template that contains run
    time text (an exception text, a handle, a QName in Clark notation `{ns}name`) makes the log call itself raise - in the
    middle of the operation it only meant to describe. Every log call with arguments has a template made of literals."""
    from engine.util import local_assignments
    repo = ctx.repo
    n = 0
    for q, fi in sorted(repo.funcs.items()):
        if not fi.module.name.startswith(tuple(module_prefixes)):
            continue
        assigns = aug = None
        params = {a.arg for a in fi.node.args.args + fi.node.args.kwonlyargs}
        for c in calls_in(fi.node):
            if not (isinstance(c.func, ast.Attribute) and c.func.attr in LOG_METHODS and 'log' in unparse(c.func.value).lower()):
                continue
            pos = 1 if c.func.attr == 'log' else 0
            if len(c.args) <= pos:
                continue
            tmpl, rest = c.args[pos], c.args[pos + 1:]
            if not rest and not [k for k in c.keywords if k.arg not in ('exc_info', 'stack_info', 'stacklevel', 'extra')]:
                continue   # no arguments: the text is logged as it is
            if isinstance(tmpl, ast.Name) and tmpl.id in params and any(isinstance(a, ast.Starred) for a in rest):
                continue   # a forwarding helper; its callers are judged
            if assigns is None:
                assigns = dict(local_assignments(fi.node))
                scopes = list(fi.module.tree.body) + (list(fi.cls.node.body) if fi.cls is not None else [])
                assigns['#constants'] = {t.id: 1 for st in scopes if isinstance(st, (ast.Assign, ast.AnnAssign)) and
                                         st.value is not None and _const_text(st.value, {}, {}, 0)
                                         for t in (st.targets if isinstance(st, ast.Assign) else [st.target])
                                         if isinstance(t, ast.Name) and t.id not in assigns}
                aug = {}
                for x in walk_no_nested(fi.node):
                    if isinstance(x, ast.AugAssign) and isinstance(x.target, ast.Name):
                        aug.setdefault(x.target.id, []).append(x.value)
            n += 1
            ok = _const_text(tmpl, assigns, aug)
            if not ok:
                ctx.ob(rule, f'{fi.name}: log template {unparse(tmpl)[:50]}', False,
                       f'{fi.cls.name + "." if fi.cls else ""}{fi.name}: the template of a log call with arguments contains '
                       f'run-time text ({unparse(tmpl)[:70]}); LoggerAdapter formats the whole template with str.format, a '
                       f'brace in that text (QName in Clark notation, repr of a dict, an exception text) makes the log call '
                       f'raise and the function stops before it did what it logs', fi=fi, node=c)
    ctx.ob(rule, 'log templates are literals', True, f'{n} log calls with arguments use a template made of literals only')
    ctx.floor(rule, n, floor, 'log calls with arguments')


def element_text_lists_split_on_whitespace(ctx, rule):
    """An xs:list in element content (wsd:Types, wsd:Scopes, wsd:XAddrs, dpws:Types ...) is separated by any XML white space:
    peers wrap long lists over several lines. The readers of element text split with `split()` (no separator); a split on the
    single blank keeps '\\n' / '\\t' inside the items (attribute values are different: the parser normalises them)."""
    repo = ctx.repo
    n = 0
    for q, ci in sorted(repo.classes.items()):
        if not q.startswith(XS + '.'):
            continue
        fi = ci.methods.get('get_py_value_from_node')
        if fi is None:
            continue
        for c in calls_in(fi.node, 'split'):
            if isinstance(c.func, ast.Attribute) and unparse(c.func.value) == 're' and len(c.args) >= 2 and \
                    '.text' in unparse(c.args[1]):
                # re.split(<white space class>, element.text ..)
                n += 1
                pat = c.args[0].value if isinstance(c.args[0], ast.Constant) and isinstance(c.args[0].value, str) else ''
                ok = '\\s' in pat or all(ch in pat for ch in (' ', '\\t', '\\n'))
                ctx.ob(rule, f'{ci.name}: list items separated by any white space', ok,
                       f'{ci.name}.get_py_value_from_node splits the element text at any white space' if ok else
                       f'{ci.name}.get_py_value_from_node splits the element text with {unparse(c)}, which is not every XML white '
                       f'space: a list wrapped over lines is read as items containing white space', fi=fi, node=c)
                continue
            recv = c.func.value if isinstance(c.func, ast.Attribute) else None
            if isinstance(recv, ast.Name):
                from engine.util import local_assignments as _la
                vals_ = _la(fi.node).get(recv.id, [])
                recv = next((v for v in vals_ if isinstance(v, ast.Attribute) and v.attr == 'text'), recv)
            if not (isinstance(recv, ast.Attribute) and recv.attr == 'text'):
                continue
            if isinstance(getattr(c, '_parent', None), ast.Assign) and isinstance(c._parent.targets[0], ast.Tuple):  # noqa: SLF001
                continue   # prefix:localname of one QName, not a list
            n += 1
            sep = c.args[0] if c.args else next((k.value for k in c.keywords if k.arg == 'sep'), None)
            ok = sep is None or (isinstance(sep, ast.Constant) and sep.value is None)
            ctx.ob(rule, f'{ci.name}: list items separated by any white space', ok,
                   f'{ci.name}.get_py_value_from_node splits the element text at any white space' if ok else
                   f'{ci.name}.get_py_value_from_node splits the element text with {unparse(c)}: a list that a peer wrapped '
                   f'over lines (or separated by tabs / two blanks) is read as items containing white space or as empty items; '
                   f'scopes and types parsed from it match nothing', fi=fi, node=c)
    ctx.floor(rule, n, 1, 'readers of list-valued element text')


def update_from_other_is_total(ctx, rule):
    """ContainerBase._update_from_other takes over every property that is not explicitly skipped - whatever its value in the
    other container (None, implied, falsy): the in-place update of a mirrored container must also *remove* what the new version
    no longer states."""
    repo = ctx.repo
    fi = repo.func('sdc11073.mdib.containerbase.ContainerBase._update_from_other')
    g = cfg_of(fi)
    sets = [(n, c) for n, c in g.nodes_calling('setattr') if c.args and unparse(c.args[0]) == 'self']
    if not sets:
        raise AnalysisError(f'{rule}: _update_from_other sets nothing on self any more')
    for n, c in sets:
        cond = [(t, p) for t, p in g.facts_at(n).both() if 'skipped' not in t]
        ctx.ob(rule, '_update_from_other takes over every value', not cond and bool(n.loops),
               '_update_from_other copies every property that is not in skipped_properties' if not cond and n.loops else
               f'_update_from_other copies a property only under {cond}: a member that the new version of the container no longer '
               f'has (or has with another kind of value) keeps its old value in the container that is updated in place', fi=fi,
               node=c)


def codec_keeps_no_state(ctx, rule, cls_qual, what):
    """The message reader / factory objects are shared (one per provider or consumer, one per process for discovery) and used
    from several threads: apart from __init__ no method stores anything on the object - there is nothing a second message could
    be answered from."""
    repo = ctx.repo
    ci = repo.cls(cls_qual)
    n = 0
    for name, fi in sorted(ci.methods.items()):
        if name == '__init__':
            continue
        n += 1
        stores = [unparse(t) for x in walk_no_nested(fi.node) if isinstance(x, (ast.Assign, ast.AugAssign, ast.AnnAssign))
                  for t in (x.targets if isinstance(x, ast.Assign) else [x.target])
                  if isinstance(t, (ast.Attribute, ast.Subscript)) and unparse(t).startswith(('self.', 'cls.'))]
        memo = [unparse(d) for d in fi.node.decorator_list if 'cache' in unparse(d)]
        if stores or memo:
            ctx.ob(rule, f'{ci.name}.{name} keeps no state', False,
                   f'{ci.name}.{name} stores {stores or memo} on the shared {what}: what one thread stored answers the call of '
                   f'another (a message is read / written from the remains of a different one)', fi=fi)
    ctx.ob(rule, f'{ci.name} is stateless', True, f'{n} methods of {ci.name} store nothing on the object')
    ctx.floor(rule, n, 5, f'methods of {ci.name}')


_MUTATORS = {'remove', 'pop', 'append', 'clear', 'add', 'discard', 'insert', 'extend', 'popitem', 'update', 'setdefault'}
_SNAPSHOTS = {'list', 'tuple', 'sorted', 'set', 'dict', 'copy', 'deepcopy', 'frozenset'}


def no_mutation_while_iterating(ctx, rule, module_prefixes, floor=3):
    """A loop that runs directly over a list / dict (not over a snapshot: list(x), x[:], sorted(x) ...) does not add to or
    remove from that container in its body - unless the loop is left right after (break / return): a list skips the element
    after a removed one, a dict raises RuntimeError in the middle of the loop and the rest is not visited."""
    repo = ctx.repo
    n = 0
    for q, fi in sorted(repo.funcs.items()):
        if not fi.module.name.startswith(tuple(module_prefixes)):
            continue
        for lp in walk_no_nested(fi.node):
            if not isinstance(lp, (ast.For, ast.AsyncFor)):
                continue
            it = lp.iter
            if isinstance(it, ast.Call) and isinstance(it.func, ast.Attribute) and it.func.attr in ('values', 'items', 'keys') \
                    and not it.args:
                it = it.func.value
            if not isinstance(it, (ast.Name, ast.Attribute)):
                continue
            n += 1
            bt = unparse(it)

            def leaves_after(block, idx):
                return idx + 1 < len(block) and isinstance(block[idx + 1], (ast.Break, ast.Return))

            bad = []

            def scan(block):
                for i, st in enumerate(block):
                    muts = []
                    for x in ast.walk(st) if not isinstance(st, (ast.If, ast.For, ast.While, ast.Try, ast.With)) else []:
                        if isinstance(x, ast.Call) and isinstance(x.func, ast.Attribute) and x.func.attr in _MUTATORS and \
                                unparse(x.func.value) == bt:
                            muts.append(unparse(x)[:50])
                        if isinstance(x, ast.Call) and isinstance(x.func, ast.Attribute) and \
                                x.func.attr in ('remove_object', 'remove_objects', 'add_object', 'remove_object_no_lock',
                                                'remove_objects_no_lock', 'add_object_no_lock') and \
                                bt in (unparse(x.func.value) + '.objects', unparse(x.func.value) + '._objects'):
                            muts.append(unparse(x)[:50])   # a multikey table iterated through its object list
                        if isinstance(x, ast.Delete) and any(isinstance(t, ast.Subscript) and unparse(t.value) == bt
                                                             for t in x.targets):
                            muts.append(unparse(x)[:50])
                    if muts and not leaves_after(block, i):
                        bad.extend(muts)
                    for sub in ('body', 'orelse', 'finalbody'):
                        if isinstance(st, (ast.If, ast.For, ast.While, ast.Try, ast.With)) and getattr(st, sub, None):
                            scan(getattr(st, sub))
                    if isinstance(st, ast.Try):
                        for h in st.handlers:
                            scan(h.body)
            scan(lp.body)
            if bad:
                ctx.ob(rule, f'{fi.name}: loop over {bt} mutates it', False,
                       f'{fi.cls.name + "." if fi.cls else ""}{fi.name}: the loop runs over {bt} itself and its body does {bad[:2]} '
                       f'without leaving the loop: elements are skipped (list) or the loop ends with RuntimeError (dict) - '
                       f'iterate over a snapshot', fi=fi, node=lp)
    ctx.ob(rule, 'no container is changed while it is iterated', True, f'{n} loops that run directly over a list / dict checked')
    ctx.floor(rule, n, floor, 'loops over containers')


def readers_catch_only_absence(ctx, rule):
    """A reader of the XML structure (get_py_value_from_node) treats exactly one thing as "no value": the element is absent
    (ElementNotFoundError). A handler that also swallows ValueError / TypeError / Exception turns a lexical form outside the
    schema type into None - the value silently disappears instead of being rejected."""
    repo = ctx.repo
    n = 0
    for q, ci in sorted(repo.classes.items()):
        if not q.startswith(XS + '.'):
            continue
        fi = ci.methods.get('get_py_value_from_node')
        if fi is None:
            continue
        for h in [x for x in walk_no_nested(fi.node) if isinstance(x, ast.ExceptHandler)]:
            n += 1
            types = [unparse(t) for t in (h.type.elts if isinstance(h.type, ast.Tuple) else [h.type])] if h.type is not None else ['<bare>']
            wide = [t for t in types if t.split('.')[-1] != 'ElementNotFoundError']
            reraises = any(isinstance(x, ast.Raise) for b in h.body for x in ast.walk(b))
            ctx.ob(rule, f'{ci.name}: reader handler {types}', not wide or reraises,
                   f'{ci.name}.get_py_value_from_node treats only an absent element as "no value"' if not wide or reraises else
                   f'{ci.name}.get_py_value_from_node also swallows {wide}: a value whose lexical form is outside the schema type '
                   f'(month 13, a malformed number) is read as None / the default and is dropped when the object is written again '
                   f'instead of being rejected', fi=fi, node=h)
    ctx.floor(rule, n, 8, 'exception handlers in readers')


def table_object_sets_are_private(ctx, rule, module_prefixes=('sdc11073',)):
    """`table.objects` hands out the set the multi-key table itself works on. Outside multikey.py nothing adds to or removes
    from it (directly, through an alias, or with an augmented assignment): the indices know nothing about such a change and keep
    answering with objects that a scan no longer finds (or the other way round)."""
    from engine.util import local_assignments
    repo = ctx.repo
    n = 0
    for q, fi in sorted(repo.funcs.items()):
        if not fi.module.name.startswith(tuple(module_prefixes)) or fi.module.name == 'sdc11073.multikey':
            continue
        la = local_assignments(fi.node)
        alias = {k for k, vs in la.items() if any(isinstance(v, ast.Attribute) and v.attr in ('objects', '_objects') for v in vs)}

        def is_objects(e):
            return (isinstance(e, ast.Attribute) and e.attr in ('objects', '_objects') and unparse(e.value) != 'self') or \
                (isinstance(e, ast.Name) and e.id in alias)
        bad = []
        for x in walk_no_nested(fi.node):
            if isinstance(x, ast.Call) and isinstance(x.func, ast.Attribute) and x.func.attr in _MUTATORS | {'difference_update',
                    'intersection_update', 'symmetric_difference_update'} and is_objects(x.func.value):
                bad.append(unparse(x)[:60])
            if isinstance(x, ast.AugAssign) and is_objects(x.target):
                bad.append(unparse(x)[:60])
            if isinstance(x, ast.Delete) and any(isinstance(t, ast.Subscript) and is_objects(t.value) for t in x.targets):
                bad.append(unparse(x)[:60])
        uses = [x for x in walk_no_nested(fi.node) if isinstance(x, ast.Attribute) and x.attr == 'objects']
        n += bool(uses)
        if bad:
            ctx.ob(rule, f'{fi.name}: object set of a table changed from outside', False,
                   f'{fi.cls.name + "." if fi.cls else ""}{fi.name} changes the object set of a multi-key table directly ({bad[:2]}): '
                   f'the indices are not told - lookups by key keep returning objects that are no longer in the table', fi=fi)
    ctx.ob(rule, 'table object sets are changed only by the table', True, f'{n} functions read `.objects` and none changes it')
    ctx.floor(rule, n, 3, 'functions that read the object set of a table')


def qnames_resolved_in_their_own_scope(ctx, rule):
    """A QName in attribute / element content (xsi:type, a QName-valued element) is resolved with the namespace declarations in
    scope AT THAT ELEMENT: text_to_qname(<text from n>, <n>.nsmap). The map of a parent lacks (or binds differently) prefixes that
    the element declares itself - a schema-valid document would be unreadable or read as another type."""
    from engine.util import local_assignments
    repo = ctx.repo
    n = 0
    for q, fi in sorted(repo.funcs.items()):
        if not q.startswith(XS + '.'):
            continue
        calls = [c for c in calls_in(fi.node, 'text_to_qname') if len(c.args) >= 2]
        if not calls:
            continue
        la = local_assignments(fi.node)
        # loop / comprehension variables: bound to their iterables
        for x in ast.walk(fi.node):
            if isinstance(x, (ast.For, ast.comprehension)) and isinstance(x.target, ast.Name):
                la.setdefault(x.target.id, []).append(x.iter)

        def roots(e, depth=4, seen=None):
            seen = seen if seen is not None else set()
            out = set()
            for nm in [y for y in ast.walk(e) if isinstance(y, ast.Name)]:
                if nm.id in la and depth > 0 and nm.id not in seen:
                    seen.add(nm.id)
                    for v in la[nm.id]:
                        out |= roots(v, depth - 1, seen)
                else:
                    out.add(nm.id)
            return out
        for c in calls:
            n += 1
            text_roots, map_roots = roots(c.args[0]), roots(c.args[1])
            params = {a.arg for a in fi.node.args.args}
            ok = bool(map_roots & text_roots - {'self'}) or not (map_roots & params)
            # the map is taken from the node the text comes from (they share a root other than self)
            txt_nodes = {nm.id for nm in ast.walk(c.args[0]) if isinstance(nm, ast.Name)}
            direct = unparse(c.args[1])
            if isinstance(c.args[1], ast.Attribute) and c.args[1].attr == 'nsmap':
                base = unparse(c.args[1].value)
                ok = base in {unparse(y) for v in [c.args[0], *[w for t in txt_nodes for w in la.get(t, [])]]
                              for y in ast.walk(v) if isinstance(y, (ast.Name, ast.Attribute))}
            elif isinstance(c.args[1], ast.Name):
                vals = la.get(c.args[1].id, [])
                bases = {unparse(v.value) for v in vals if isinstance(v, ast.Attribute) and v.attr == 'nsmap'}
                used = {unparse(y) for v in [c.args[0], *[w for t in txt_nodes for w in la.get(t, [])]]
                        for y in ast.walk(v) if isinstance(y, (ast.Name, ast.Attribute))}
                ok = bool(bases) and bases <= used
            ctx.ob(rule, f'{fi.cls.name if fi.cls else ""}.{fi.name}: text_to_qname(.., {direct})', ok,
                   f'{fi.name}: the QName text and the namespace map come from the same element' if ok else
                   f'{fi.cls.name if fi.cls else ""}.{fi.name}: text_to_qname({unparse(c.args[0])}, {direct}) resolves the prefix with '
                   f'the namespace map of another element than the one the text was read from: a prefix declared on the element '
                   f'itself (legal XML) is unknown or bound differently there', fi=fi, node=c)
    ctx.floor(rule, n, 3, 'QName resolutions in readers')


def skip_lists_are_kept(ctx, rule):
    """update_from_other_container(other, skipped_properties): what the caller excluded from the update stays excluded - an
    override may add to the list, it never replaces it (the SetContextState handler protects the binding / unbinding versions
    and times it has just set with that list)."""
    repo = ctx.repo
    n = 0
    for q, fi in sorted(repo.funcs.items()):
        if fi.name != 'update_from_other_container' or not q.startswith('sdc11073.mdib.'):
            continue
        pn = 'skipped_properties'
        if pn not in [a.arg for a in fi.node.args.args]:
            continue
        n += 1
        g = cfg_of(fi)
        bad = []
        for nn in g.real_nodes():
            if nn.kind == 'stmt' and isinstance(nn.stmt, ast.Assign) and any(isinstance(t, ast.Name) and t.id == pn for t in nn.stmt.targets):
                keeps = any(isinstance(x, ast.Name) and x.id == pn for x in ast.walk(nn.stmt.value))
                only_none = any(p is True and t == f'{pn} is None' for t, p in g.facts_at(nn).both())
                if not keeps and not only_none:
                    bad.append(unparse(nn.stmt)[:60])
        fwd = [c for c in calls_in(fi.node) if call_name(c) in ('update_from_other_container', '_update_from_other')]
        passes = all(any(isinstance(x, ast.Name) and x.id == pn for a in [*c.args, *[k.value for k in c.keywords]] for x in ast.walk(a))
                     for c in fwd)
        ctx.ob(rule, f'{fi.cls.name}.update_from_other_container keeps the skip list', not bad and passes,
               f'{fi.cls.name}.update_from_other_container hands the skip list of its caller on' if not bad and passes else
               f'{fi.cls.name}.update_from_other_container replaces / drops the skip list of its caller ({bad or "not passed on"}): '
               f'members the caller protected (BindingMdibVersion, UnbindingMdibVersion, the times) are overwritten by the values '
               f'of the proposal - usually None', fi=fi)
    ctx.floor(rule, n, 2, 'update_from_other_container implementations')


def string_readers_return_the_text(ctx, rule):
    """The readers of string-valued element lists return the element text as it is: the items (handle references, text
    references) are xsd:string values in which white space counts - a reader that strips them or drops blank ones turns a
    request for the handle ' ' into a request with an empty list (= everything)."""
    repo = ctx.repo
    n = 0
    for name in ('SubElementTextListProperty', 'SubElementStringListProperty', 'SubElementHandleRefListProperty'):
        ci = repo.classes.get(f'{XS}.{name}')
        fi = ci.methods.get('get_py_value_from_node') if ci is not None else None
        if fi is None:
            continue
        n += 1
        edits = [unparse(c)[:50] for c in calls_in(fi.node) if call_name(c) in ('strip', 'lstrip', 'rstrip', 'lower', 'upper', 'replace',
                                                                                'split', 'casefold', 'filter')]
        filters = [unparse(g_)[:50] for x in ast.walk(fi.node) if isinstance(x, (ast.ListComp, ast.GeneratorExp))
                   for g_ in x.generators if g_.ifs]
        ctx.ob(rule, f'{name} returns the element texts unchanged', not edits and not filters,
               f'{name}.get_py_value_from_node returns the text of every element as it is' if not edits and not filters else
               f'{name}.get_py_value_from_node edits / filters the element texts ({(edits + filters)[:2]}): a handle with surrounding '
               f'white space selects another object, a blank one disappears and an empty list selects everything', fi=fi)
    ctx.floor(rule, n, 1, 'readers of string lists in element content')


def log_handlers_never_raise(ctx, rule):
    """A logging.Handler.emit that raises takes the thread that logged with it: the communication logger is called from the
    discovery send thread and the soap clients. Every statement of an `emit` that does any work lies in a try with a catch-all
    (the logging convention: handleError)."""
    repo = ctx.repo
    n = 0
    for q, fi in sorted(repo.funcs.items()):
        if fi.name != 'emit' or fi.cls is None or not q.startswith('sdc11073.commlog.'):
            continue
        n += 1
        loose = []
        for st in fi.node.body:
            if isinstance(st, ast.Expr) and isinstance(st.value, ast.Constant):
                continue
            if isinstance(st, ast.Try) and any(h.type is None or unparse(h.type).split('.')[-1] in ('Exception', 'BaseException')
                                                for h in st.handlers):
                continue
            if any(isinstance(x, ast.Call) for x in ast.walk(st)):
                loose.append(unparse(st)[:50])
        ctx.ob(rule, f'{fi.cls.name}.emit is contained', not loose,
               f'{fi.cls.name}.emit does all its work inside a catch-all' if not loose else
               f'{fi.cls.name}.emit runs {loose[:2]} outside its catch-all: an OSError of the log file ends the thread that logged '
               f'(the discovery send thread: every queued and later datagram is never sent)', fi=fi)
    ctx.floor(rule, n, 1, 'logging handlers of the package')


def discovery_reader_validates(ctx, rule):
    """The message reader shared by all discovery nodes validates what it receives: parts of a received message are echoed into
    answers (MessageID -> RelatesTo) that the send thread validates before sending - an unvalidated value kills that thread."""
    repo = ctx.repo
    mod = repo.module('sdc11073.wsdiscovery.common')
    found = 0
    for st in mod.tree.body:
        if isinstance(st, ast.Assign) and isinstance(st.value, ast.Call) and call_name(st.value) == 'MessageReader':
            found += 1
            off = [unparse(k.value) for k in st.value.keywords if k.arg == 'validate' and
                   not (isinstance(k.value, ast.Constant) and k.value.value is True)]
            ctx.ob(rule, 'the discovery message reader validates', not off,
                   'wsdiscovery.common.message_reader is built with validation on' if not off else
                   f'wsdiscovery.common.message_reader is built with validate={off[0]}: the validate=True of the receive loop has no '
                   f'effect any more, a Probe with a MessageID that is no URI is answered and the answer fails its own validation in '
                   f'the send thread', where='sdc11073.wsdiscovery.common', line=st.lineno)
    ctx.floor(rule, found, 1, 'MessageReader constructions in wsdiscovery.common')


def readers_test_only_for_none(ctx, rule):
    """In the readers of the XML structure a value is missing when it is None - never when it is merely falsy: `Attr=""` is the
    empty string, MetadataVersion 0 is 0. Every test in a get_py_value_from_node that looks at the raw or converted value is a
    None test (or an isinstance test)."""
    repo = ctx.repo
    n = 0
    for q, ci in sorted(repo.classes.items()):
        if not q.startswith(XS + '.'):
            continue
        fi = ci.methods.get('get_py_value_from_node')
        if fi is None:
            continue
        n += 1
        bad = []
        for t in _tests_of(fi.node):
            if isinstance(t, ast.BoolOp):
                continue   # its operands are visited on their own below
            parts = [t]
            for p in parts:
                if none_test(p) or (isinstance(p, ast.Call) and call_name(p) in ('isinstance', 'hasattr', 'callable')):
                    continue
                if isinstance(p, ast.UnaryOp) and isinstance(p.op, ast.Not):
                    p = p.operand
                if isinstance(p, ast.Name) or (isinstance(p, ast.Attribute) and p.attr in ('text',)):
                    bad.append(unparse(p))   # truthiness of a value
        for b in [x for x in ast.walk(fi.node) if isinstance(x, ast.BoolOp)]:
            for v in b.values:
                core = v.operand if isinstance(v, ast.UnaryOp) and isinstance(v.op, ast.Not) else v
                if isinstance(core, ast.Name) or (isinstance(core, ast.Attribute) and core.attr == 'text'):
                    bad.append(unparse(core))
        ctx.ob(rule, f'{ci.name}: reader tests values for None only', not bad,
               f'{ci.name}.get_py_value_from_node distinguishes "no value" by None tests' if not bad else
               f'{ci.name}.get_py_value_from_node tests the truth value of {sorted(set(bad))}: a legal falsy value (empty string, 0, '
               f'zero duration) is read as missing / replaced by the default', fi=fi)
    ctx.floor(rule, n, 15, 'readers of the XML structure')


def descriptor_classes_hold_no_shared_state(ctx, rule):
    """A subclass of a property descriptor (`class QNameListType(NodeTextQNameListProperty)`) is instantiated once per declaring
    class and serves every instance and every message: a class-level dict / list on it (a cache of resolved values) is shared by
    all of them. None has one; none overrides a reader to remember what it read."""
    repo = ctx.repo
    n = 0
    base = f'{XS}._XmlStructureBaseProperty'
    for q, ci in sorted(repo.classes.items()):
        if not q.startswith('sdc11073.xml_types.') or base not in repo.mro(q):
            continue
        n += 1
        shared = [unparse(st)[:50] for st in ci.node.body if isinstance(st, (ast.Assign, ast.AnnAssign)) and st.value is not None and
                  isinstance(st.value, (ast.Dict, ast.List, ast.Set, ast.DictComp, ast.ListComp, ast.SetComp)) or
                  (isinstance(st, (ast.Assign, ast.AnnAssign)) and isinstance(getattr(st, 'value', None), ast.Call) and
                   call_name(st.value) in ('dict', 'list', 'set', 'defaultdict', 'OrderedDict', 'WeakValueDictionary'))]
        if shared:
            ctx.ob(rule, f'{ci.name}: class-level container', False,
                   f'{ci.name} (a property descriptor) has the class-level container(s) {shared}: what one message / instance puts '
                   f'there is seen by every other one (e.g. QNames resolved with the prefixes of an earlier message)', fi=None,
                   where=q, line=ci.node.lineno)
    ctx.ob(rule, 'descriptor classes hold no shared containers', True, f'{n} descriptor classes checked')
    ctx.floor(rule, n, 55, 'property descriptor classes')


def property_tables_are_computed(ctx, rule):
    """sorted_container_properties (both base classes) computes the list of (name, property) pairs from the class hierarchy on
    every call and returns a new list: nothing is remembered in a module- or class-level container (a cache keyed by the class
    NAME serves another class of the same name; a cached list that a caller changes alters the members of all later instances)."""
    repo = ctx.repo
    n = 0
    for q in ('sdc11073.xml_types.basetypes.XMLTypeBase.sorted_container_properties',
              'sdc11073.mdib.containerbase.ContainerBase.sorted_container_properties'):
        fi = repo.funcs.get(q)
        if fi is None:
            continue
        n += 1
        local = {a.arg for a in fi.node.args.args} | set(__import__('engine.util', fromlist=['x']).local_assignments(fi.node))
        stores = [unparse(t)[:50] for x in walk_no_nested(fi.node) if isinstance(x, (ast.Assign, ast.AugAssign, ast.AnnAssign))
                  for t in (x.targets if isinstance(x, ast.Assign) else [x.target])
                  if isinstance(t, (ast.Subscript, ast.Attribute)) and (unparse(t).split('[')[0].split('.')[0] not in local or
                                                                         unparse(t).startswith(('self.', 'cls.')))]
        memo = [unparse(d) for d in fi.node.decorator_list if 'cache' in unparse(d)]
        rets = [r.value for r in walk_no_nested(fi.node) if isinstance(r, ast.Return) and r.value is not None]
        foreign = [unparse(v)[:40] for v in rets if isinstance(v, ast.Subscript) or
                   (isinstance(v, ast.Name) and v.id not in local)]
        ctx.ob(rule, f'{fi.cls.name}.sorted_container_properties is computed', not stores and not memo and not foreign,
               f'{fi.cls.name}.sorted_container_properties builds a new list from the class hierarchy on every call'
               if not stores and not memo and not foreign else
               f'{fi.cls.name}.sorted_container_properties remembers its result ({stores or memo or foreign}): instances of different '
               f'classes (same name) or a caller that edits the list change which members later instances have', fi=fi)
    ctx.floor(rule, n, 2, 'sorted_container_properties implementations')


def writers_omit_only_none(ctx, rule):
    """A writer of the XML structure (update_xml_value) leaves an attribute / element out only when the value is None: a test that
    compares the value with a literal ('' or 0) or takes its truth value drops legal values - the reader then sees "absent"."""
    repo = ctx.repo
    n = 0
    for q, ci in sorted(repo.classes.items()):
        if not q.startswith(XS + '.'):
            continue
        fi = ci.methods.get('update_xml_value')
        if fi is None:
            continue
        n += 1
        bad = []
        for t in _tests_of(fi.node):
            for x in ([t] if not isinstance(t, ast.BoolOp) else t.values):
                if isinstance(x, ast.Compare) and len(x.ops) == 1 and isinstance(x.ops[0], (ast.Eq, ast.NotEq)) and \
                        any(isinstance(o, ast.Name) and o.id == 'py_value' for o in (x.left, x.comparators[0])) and \
                        any(isinstance(o, ast.Constant) and o.value is not None for o in (x.left, x.comparators[0])):
                    bad.append(unparse(x))
        ctx.ob(rule, f'{ci.name}: writer omits only None', not bad,
               f'{ci.name}.update_xml_value compares the value with no literal' if not bad else
               f'{ci.name}.update_xml_value leaves the value out under {bad}: a committed empty string (a cleared text metric) is '
               f'reported as absent - the consumer reads None for a value the provider has', fi=fi)
    ctx.floor(rule, n, 15, 'writers of the XML structure')
