"""C15 - discovery datagrams are retransmitted within the SOAP-over-UDP time envelope.

Decided (structural necessary conditions):
  R1 units: abstract evaluation of _repeated_enqueue_msg in the dimension domain {ms, s, number}: every
     +, -, min, max, comparison and augmented assignment combines equal units; the send time handed to the
     queue is in seconds (the unit of time.time(), which the send loop compares it with).
  R2 envelope shape: first send = now + randint(0, max_initial)/1000; first gap = randrange(min, max)/1000;
     inside the loop the gap is added before the datagram is queued and afterwards becomes
     min(2 * gap, upper) - by def-use and statement order.
  R3 count: one put before the loop, one per iteration of range(repeat), none elsewhere.
  R4 own message ids are registered before the message is queued.
Not decided: the numeric envelope itself for concrete draws (value level).
"""
from __future__ import annotations

import ast

from engine.cfg import call_name, cfg_of, expand_aliases
from engine.errors import AnalysisError
from engine.repo import walk_no_nested
from engine.util import calls_in, dotted, unparse

ID = 'C15'
NT = 'sdc11073.wsdiscovery.networkingthread'


class Units:
    """Forward abstract interpretation of straight-line code + loops (iterated to a fixed point)."""

    def __init__(self, fn):
        self.fn = fn
        self.env = {}
        self.clashes = []  # (node, message)

    def unit(self, e):  # noqa: C901, PLR0911, PLR0912
        if isinstance(e, ast.Constant):
            return 'n' if isinstance(e.value, (int, float)) and not isinstance(e.value, bool) else None
        if isinstance(e, ast.Name):
            if e.id.endswith('_ms'):
                return 'ms'
            return self.env.get(e.id)
        if isinstance(e, ast.Attribute):
            if e.attr.endswith('_ms'):
                return 'ms'
            if e.attr in ('send_time',):
                return 's'
            return 'n' if e.attr in ('repeat',) else None
        if isinstance(e, ast.Call):
            nm = call_name(e)
            full = unparse(e.func)
            if full in ('time.time', 'time.monotonic', 'time.perf_counter'):
                return 's'
            if nm in ('randint', 'randrange', 'uniform', 'min', 'max'):
                us = [self.unit(a) for a in e.args]
                return self.join(us, e, f'{nm}()')
            if nm in ('int', 'float', 'round', 'abs'):
                return self.unit(e.args[0]) if e.args else None
            return None
        if isinstance(e, ast.BinOp):
            l, r = self.unit(e.left), self.unit(e.right)
            if isinstance(e.op, (ast.Add, ast.Sub)):
                return self.join([l, r], e, '+/-')
            if isinstance(e.op, (ast.Div, ast.FloorDiv)):
                if isinstance(e.right, ast.Constant) and e.right.value in (1000, 1000.0):
                    if l == 'ms':
                        return 's'
                    if l == 's':
                        self.clashes.append((e, f'{unparse(e)}: a value in seconds is divided by 1000 again'))
                        return 's'
                if r == 'n':
                    return l
                if l == r and l is not None:
                    return 'n'
                return None
            if isinstance(e.op, ast.Mult):
                for a, b, other in ((e.left, l, r), (e.right, r, l)):
                    if isinstance(a, ast.Constant) and a.value in (1000, 1000.0) and other == 's':
                        return 'ms'
                if l == 'n':
                    return r
                if r == 'n':
                    return l
                return None
            return None
        if isinstance(e, ast.UnaryOp):
            return self.unit(e.operand)
        if isinstance(e, ast.IfExp):
            return self.join([self.unit(e.body), self.unit(e.orelse)], e, 'conditional')
        if isinstance(e, ast.Compare):
            self.join([self.unit(e.left)] + [self.unit(c) for c in e.comparators], e, 'comparison')
            return None
        return None

    def join(self, us, node, what):
        real = [u for u in us if u in ('ms', 's')]
        if len(set(real)) > 1:
            self.clashes.append((node, f'{what} combines {sorted(set(real))}: {unparse(node)}'))
            return real[0]
        if real:
            return real[0]
        return 'n' if us and all(u == 'n' for u in us) else None

    def run(self):
        for _ in range(4):  # fixed point over loops
            before = dict(self.env)
            self.clashes = []
            self.block(self.fn.body)
            if self.env == before:
                break
        # de-duplicate
        seen, out = set(), []
        for n, m in self.clashes:
            if m not in seen:
                seen.add(m)
                out.append((n, m))
        self.clashes = out

    def block(self, stmts):
        for st in stmts:
            if isinstance(st, ast.Assign) and len(st.targets) == 1 and isinstance(st.targets[0], ast.Name):
                u = self.unit(st.value)
                old = self.env.get(st.targets[0].id)
                if old in ('ms', 's') and u in ('ms', 's') and old != u:
                    self.clashes.append((st, f'{st.targets[0].id} changes unit from {old} to {u}: {unparse(st)}'))
                if u is not None:
                    self.env[st.targets[0].id] = u
            elif isinstance(st, ast.AugAssign) and isinstance(st.target, ast.Name):
                u = self.unit(st.value)
                old = self.env.get(st.target.id)
                if isinstance(st.op, (ast.Add, ast.Sub)):
                    self.join([old, u], st, 'augmented assignment')
            elif isinstance(st, (ast.For, ast.While)):
                if isinstance(st, ast.While):
                    self.unit(st.test)
                self.block(st.body)
                self.block(st.orelse)
            elif isinstance(st, ast.If):
                self.unit(st.test)
                self.block(st.body)
                self.block(st.orelse)
            elif isinstance(st, ast.Expr):
                for c in [x for x in ast.walk(st.value) if isinstance(x, ast.Call)]:
                    for a in c.args:
                        self.unit(a)
            elif isinstance(st, ast.Return) and st.value is not None:
                self.unit(st.value)


def run(ctx):  # noqa: C901, PLR0912, PLR0915
    repo = ctx.repo
    ctx.rule('C15.R1', 'ABS unit: ms / s never mixed in the retransmission arithmetic; queued send time is seconds')
    ctx.rule('C15.R2', 'envelope shape by def-use and statement order')
    ctx.rule('C15.R3', 'exactly 1 + repeat datagrams are queued')
    ctx.rule('C15.R4', 'own message ids are known before queueing')
    fi = repo.func(f'{NT}.NetworkingThread._repeated_enqueue_msg')
    fn = fi.node
    g = cfg_of(fi)

    # ------------------------------------------------------------------ R1
    u = Units(fn)
    u.run()
    n_ops = sum(1 for n in walk_no_nested(fn) if isinstance(n, (ast.BinOp, ast.AugAssign)) or
                (isinstance(n, ast.Call) and call_name(n) in ('min', 'max')))
    ctx.floor('C15.R1', n_ops, 6, 'arithmetic operations in _repeated_enqueue_msg')
    if u.clashes:
        for node, msg in u.clashes:
            ctx.ob('C15.R1', f'unit clash {unparse(node)[:70]}', False,
                   f'{msg} - milliseconds and seconds are mixed, so the cap / the gap has the wrong magnitude '
                   f'(a cap of 500 "seconds" never engages; gaps keep doubling beyond the upper delay)',
                   fi=fi, node=node, witness={'units': u.env})
    else:
        ctx.ob('C15.R1', 'units consistent', True, 'all sums, minima and assignments combine equal units', fi=fi,
               witness={'units': u.env})
    puts = g.nodes_calling('put')
    if not puts:
        raise AnalysisError('C15: no queue put in _repeated_enqueue_msg')
    for n, c in puts:
        em = [x for x in ast.walk(c) if isinstance(x, ast.Call) and call_name(x) == '_EnqueuedMessage']
        ok = bool(em) and em[0].args and u.unit(em[0].args[0]) == 's'
        ctx.ob('C15.R1', f'queued send time {unparse(em[0].args[0]) if em and em[0].args else "?"}', ok,
               'the send time handed to the queue is in seconds (absolute, like time.time())', fi=fi, node=c,
               witness={'unit': u.unit(em[0].args[0]) if em and em[0].args else None})
    # the send loop compares with time.time()
    rs = expand_aliases(repo.func(f'{NT}.NetworkingThread._run_send'))   # `q = self._send_queue` style aliases written out
    # (the comparison itself is decided below, 'datagrams are sent only when due', as a path condition)
    clock = [c for c in ast.walk(rs.node) if isinstance(c, ast.Compare) and 'send_time' in unparse(c) and
             'time.time()' in unparse(c)]
    ctx.ob('C15.R1', 'send loop clock', bool(clock),
           '_run_send compares the send_time of the queue head with time.time()', fi=rs)

    # ------------------------------------------------------------------ R2
    loops = [n for n in walk_no_nested(fn) if isinstance(n, ast.For)]
    if len(loops) != 1:
        raise AnalysisError('C15.R2: expected exactly one for loop in _repeated_enqueue_msg')
    loop = loops[0]
    param = next((a.arg for a in fn.args.args if 'param' in a.arg), None) or \
        (fn.args.args[2].arg if len(fn.args.args) >= 3 else None)
    if param is None:
        raise AnalysisError('C15.R2: parameter with the repeat parameters not found')
    # interval evaluation of the whole function for both parameter sets (sound for every outcome of the draws)
    mod = repo.module(NT)
    psets = {}
    fields = []
    pc = repo.cls(f'{NT}._UdpRepeatParams')
    for st in pc.node.body:
        if isinstance(st, ast.AnnAssign) and isinstance(st.target, ast.Name):
            fields.append(st.target.id)
    for n in mod.tree.body:
        if isinstance(n, ast.Assign) and isinstance(n.value, ast.Call) and call_name(n.value) == '_UdpRepeatParams':
            vals = _param_values(n.value, fields)
            if vals is not None:
                psets[unparse(n.targets[0])] = dict(zip(fields, vals))
    ctx.floor('C15.R2', len(psets), 2, 'parameter sets for the interval evaluation')
    # synthetic parameter sets with pairwise distinct values: a literal or a wrong field in place of the right field shows up
    # as a schedule outside the envelope (the shipped sets alone cannot tell 50 from max_initial_delay_ms = 50)
    synth = {'synthetic A': (70, 3, 30, 110, 150), 'synthetic B': (13, 5, 7, 11, 400), 'synthetic C': (900, 1, 200, 201, 333)}
    for k, vals in synth.items():
        if len(vals) == len(fields):
            psets[k] = dict(zip(fields, vals))
    for pname, pvals in sorted(psets.items()):
        try:
            sends = interval_eval(fn, param, pvals)
        except AnalysisError as ex:
            ctx.ob('C15.R2', f'interval evaluation {pname}', False, f'cannot evaluate the envelope: {ex}', fi=fi)
            continue
        eps = 1e-9
        first = sends[0]
        gaps = [(sends[i][0] - sends[i - 1][1], sends[i][1] - sends[i - 1][0]) for i in range(1, len(sends))]
        # gap_i interval is not simply the difference of absolute intervals (they are correlated); the evaluator therefore
        # also returns the gap interval it added: sends[i][2]
        gl = [s_[2] for s_ in sends[1:]]
        ctx.ob('C15.R3', f'datagram count {pname}', len(sends) == 1 + pvals['repeat'],
               f'{pname}: {len(sends)} datagrams are queued for repeat={pvals["repeat"]} (required: 1 + repeat)', fi=fi)
        ok = first[0] >= -eps and first[1] <= pvals['max_initial_delay_ms'] / 1000 + eps
        if gl:
            ok = ok and gl[0][0] >= pvals['min_delay_ms'] / 1000 - eps and gl[0][1] <= pvals['max_delay_ms'] / 1000 + eps
            for i in range(1, len(gl)):
                ok = ok and gl[i][1] <= pvals['upper_delay_ms'] / 1000 + eps
                ok = ok and gl[i][1] <= 2 * gl[i - 1][1] + eps and gl[i][0] >= min(2 * gl[i - 1][0], pvals['upper_delay_ms'] / 1000) - eps
        ctx.ob('C15.R2', f'interval envelope {pname}', ok,
               f'{pname}: for every outcome of the two draws: {1 + pvals["repeat"]} datagrams, first after at most '
               f'{pvals["max_initial_delay_ms"]} ms, first gap in [{pvals["min_delay_ms"]}, {pvals["max_delay_ms"]}] ms, every '
               f'later gap <= {pvals["upper_delay_ms"]} ms and at most twice the previous one' if ok else
               f'{pname}: the computed send times leave the envelope: first {first[:2]}, gaps {gl}', fi=fi,
               witness={'first_send_offset_s': first[:2], 'gaps_s': gl})

    # ------------------------------------------------------------------ R3
    # the number of queued datagrams is decided by the interval evaluation above (len(sends) == 1 + repeat for every parameter
    # set, shipped and synthetic); here: no put outside this function's single series
    in_loop = [n for n, c in puts if any(l is loop for l in n.loops)]
    before = [n for n, c in puts if not n.loops]
    ok = len(in_loop) >= 1 and len(before) >= 1 and all(g.dominates(before[0], n) for n in in_loop)
    ctx.ob('C15.R3', 'count', ok, 'one datagram is queued before the loop and the repetitions inside it (their number is '
           'checked by the interval evaluation: 1 + repeat)', fi=fi,
           witness={'puts_before_loop': len(before), 'puts_in_loop': len(in_loop), 'loop': unparse(loop.iter)})
    # quit check only drops, never partially queues
    rets = [n for n in g.nodes if n.kind == 'return']
    ok = all(not any(g.dominates(p, r) for p, _ in puts) for r in rets)
    ctx.ob('C15.R3', 'no partial series', ok, 'an early return happens only before the first datagram is queued', fi=fi)
    # parameter sets
    mod = repo.module(NT)
    n_sets = 0
    for n in mod.tree.body:
        if isinstance(n, ast.Assign) and isinstance(n.value, ast.Call) and call_name(n.value) == '_UdpRepeatParams':
            vals = _param_values(n.value, fields) or []
            n_sets += 1
            ok = len(vals) == 5 and 0 <= vals[2] < vals[3] <= vals[4] and vals[1] >= 1 and vals[0] >= 0
            ctx.ob('C15.R3', f'{unparse(n.targets[0])}', ok,
                   f'{unparse(n.targets[0])} = {vals}: min < max <= upper, repeat >= 1', line=n.lineno, where=NT,
                   witness=vals)
    ctx.floor('C15.R3', n_sets, 2, 'repeat parameter sets')

    # ------------------------------------------------------------------ R4
    ao = expand_aliases(repo.func(f'{NT}.NetworkingThread.add_outbound_message'))
    g2 = cfg_of(ao)
    regs = [n for n, c in g2.nodes_calling('appendleft') + g2.nodes_calling('append')
            if '_known_message_ids' in unparse(c.func) and 'MessageID' in unparse(c)]
    enq = g2.nodes_calling('_repeated_enqueue_msg')
    ok = bool(regs) and bool(enq) and all(any(g2.dominates(r, e) for r in regs) for e, _ in enq)
    ctx.ob('C15.R4', 'own id registered first', ok,
           'add_outbound_message puts the MessageID into _known_message_ids before the message is queued (a looped-back '
           'copy is then recognised as known)', fi=ao)
    ends = {}
    for f2 in repo.funcs.values():
        if f2.cls is not None and f2.cls.qual == f'{NT}.NetworkingThread':
            for c in [x for x in ast.walk(f2.node) if isinstance(x, ast.Call)]:
                if isinstance(c.func, ast.Attribute) and unparse(c.func.value) == 'self._known_message_ids' and \
                        c.func.attr in ('append', 'appendleft', 'extend', 'extendleft', 'insert'):
                    ends.setdefault(c.func.attr, []).append(f'{f2.name}:{c.lineno}')
    ctx.ob('C15.R4', 'own and foreign ids enter the bounded history at the same end', len(ends) == 1,
           'all writers of the bounded id history insert at the same end, so an own id is not evicted before older ids'
           if len(ends) == 1 else
           f'the id history is filled at both ends {ends}: once it is full the next foreign message evicts the id this '
           f'node just sent, and its looped-back copy is handled as a foreign message', where=f'{NT}.NetworkingThread',
           witness=ends)
    # a datagram leaves the queue only when it is due
    gs = cfg_of(expand_aliases(rs))   # `queue = self._send_queue` written out
    gets = [n for n, c in gs.nodes_calling('get') if 'self._send_queue' in unparse(c.func)]
    snd = gs.nodes_calling('_send_msg')
    due = 'self._send_queue.queue[0].send_time <= time.time()'
    from engine.pathcond import worlds_of
    w = worlds_of(gs, extra_atoms=(due,), symbolic=True)   # a named condition (`is_due = ...`) is written out, too
    ok = bool(gets) and bool(snd)
    for n in gets + [x for x, _ in snd]:
        imp, _w = w.implies(w.cond(n), due)   # guard clause, else branch, `>` or `<=`: all the same truth table
        ok = ok and imp
    ctx.ob('C15.R2', 'datagrams are sent only when due', ok,
           '_run_send takes a datagram from the queue and sends it only on the true edge of `send_time <= time.time()`'
           if ok else
           '_run_send can send a queued datagram before its scheduled time (e.g. flushing the queue on shutdown): the '
           'configured gaps are not kept', fi=rs, witness=[gs.facts_at(n) for n in gets])
    # all senders go through add_outbound_message
    direct = []
    for f2 in repo.funcs.values():
        if f2.module.name.startswith('sdc11073.wsdiscovery') and f2.qual != ao.qual:
            for c in [x for x in ast.walk(f2.node) if isinstance(x, ast.Call)]:
                if call_name(c) == '_repeated_enqueue_msg':
                    direct.append(f2.qual)
    ctx.ob('C15.R4', 'single entry', not direct, '_repeated_enqueue_msg is called only from add_outbound_message',
           where=NT, witness=direct)
    # what waits in the priority queue is ordered by its send time alone: two datagrams due at the same instant (same float)
    # are compared by the next field - a field whose type has no order (the message) makes heapq raise inside put(), the
    # datagram is not queued and its transmission is missing
    ORDERED = {'float', 'int', 'str', 'bool', 'bytes'}
    n_entry = 0
    rq = repo.func(f'{NT}.NetworkingThread._repeated_enqueue_msg')
    for c in calls_in(rq.node, 'put'):
        if not (c.args and isinstance(c.args[0], ast.Call) and '_send_queue' in unparse(c.func)):
            continue
        nm = call_name(c.args[0])
        ci = next((ci_ for q_, ci_ in repo.classes.items() if ci_.name == nm and q_.startswith(NT)), None)
        n_entry += ci is not None
        if ci is None or getattr(ci, '_c15_seen', False):
            continue
        ci._c15_seen = True  # noqa: SLF001
        fields = [st for st in ci.node.body if isinstance(st, ast.AnnAssign) and isinstance(st.target, ast.Name)]
        deco = [d for d in ci.node.decorator_list if 'dataclass' in unparse(d)]
        ordered_dc = any(isinstance(d, ast.Call) and any(k.arg == 'order' and isinstance(k.value, ast.Constant) and k.value.value
                                                         for k in d.keywords) for d in deco)
        is_tuple = any(unparse(b).split('.')[-1] in ('NamedTuple', 'tuple') for b in ci.node.bases)
        compared = []
        for st in fields:
            excluded = st.value is not None and isinstance(st.value, ast.Call) and call_name(st.value) == 'field' and \
                any(k.arg == 'compare' and isinstance(k.value, ast.Constant) and k.value.value is False for k in st.value.keywords)
            if not excluded or is_tuple:
                compared.append((st.target.id, unparse(st.annotation)))
        unordered = [f for f, a in compared if a not in ORDERED]
        ok = (ordered_dc or is_tuple) and not unordered and bool(compared) and compared[0][0] == 'send_time'
        ctx.ob('C15.R3', f'{nm} orders by send time', ok,
               f'{nm}: queue entries compare by {[f for f, _ in compared]}, all of them ordered types' if ok else
               f'{nm}: queue entries are compared field by field over {compared}; {unordered or "the first field"} has no order: '
               f'two datagrams with the same send time make PriorityQueue.put raise TypeError - the datagram is never queued '
               f'(fewer than 1 + repeat transmissions)', fi=rq, node=ci.node)
    ctx.ob('C15.R3', 'entries put on the send queue', True, f'{n_entry} put sites construct the queue entry directly (record type judged above)')
    # each of the 1 + repeat transmissions is serialised from its own message: the (process-wide, shared by all send threads)
    # message factory keeps nothing between two serialisations
    mf = repo.cls('sdc11073.pysoap.msgfactory.MessageFactory')
    for name, fi_ in sorted(mf.methods.items()):
        if name == '__init__':
            continue
        stores = [unparse(t) for x in walk_no_nested(fi_.node) if isinstance(x, (ast.Assign, ast.AugAssign, ast.AnnAssign))
                  for t in (x.targets if isinstance(x, ast.Assign) else [x.target])
                  if isinstance(t, (ast.Attribute, ast.Subscript)) and unparse(t).startswith('self.')]
        memo = [unparse(d) for d in fi_.node.decorator_list if 'cache' in unparse(d)]
        ctx.ob('C15.R3', f'MessageFactory.{name} keeps no state', not stores and not memo,
               f'MessageFactory.{name} writes nothing on the shared factory' if not stores and not memo else
               f'MessageFactory.{name} stores {stores or memo} on the factory, which all discovery nodes of the process share '
               f'and use from their own send threads: a retransmission can be answered from what another thread stored '
               f'(another node\'s datagram goes out instead, this message is sent once less)', fi=fi_)
    ctx.borrow('C13', {'C13.R2'}, 'C15.R3', contains=['whole envelope'], why='a header that is echoed into an answer is schema-valid, or the send thread dies validating its own datagram')
    from . import common as common_
    common_.log_handlers_never_raise(ctx, 'C15.R3')
    common_.discovery_reader_validates(ctx, 'C15.R3')
    # a stopped node can be started again: _stop_threads forgets the joined networking thread, because _start_threads
    # creates a new one only when there is none - a kept (dead) thread drops every message in _repeated_enqueue_msg
    W = 'sdc11073.wsdiscovery.wsdimpl.WSDiscovery'
    st_f, sp_f = repo.func(f'{W}._start_threads'), repo.func(f'{W}._stop_threads')
    gs_, gp_ = cfg_of(st_f), cfg_of(sp_f)
    guards = {t[:-len(' is None')] for n in gs_.nodes if n.kind == 'return' for t, p in gs_.facts_at(n).both()
              if p is False and t.endswith(' is None')}
    created = {unparse(n.stmt.targets[0]) for n in gs_.real_nodes() if n.kind == 'stmt' and isinstance(n.stmt, ast.Assign)
               and isinstance(n.stmt.value, ast.Call)}
    attrs = guards & created
    joins = [n for n, c in gp_.nodes_calling('join')]
    resets = [n for n in gp_.real_nodes() if n.kind == 'stmt' and isinstance(n.stmt, ast.Assign) and
              unparse(n.stmt.targets[0]) in attrs and isinstance(n.stmt.value, ast.Constant) and n.stmt.value.value is None]
    ok = bool(attrs) and bool(joins) and bool(resets) and all(gp_.must_pass(j, resets) for j in joins)
    ctx.ob('C15.R3', 'restart creates a new networking thread', ok,
           '_stop_threads resets the attribute that _start_threads tests before it creates the networking thread' if ok else
           f'_start_threads returns early while {sorted(guards)} is set, but _stop_threads does not reset it after the join: '
           f'after stop() + start() no thread runs and every discovery message is dropped (0 transmissions)', fi=sp_f)


OPAQUE = object()


def _param_values(call, fields):
    """Constant values of a _UdpRepeatParams(...) call in field order - positional and / or keyword arguments."""
    vals = {}
    for f, a in zip(fields, call.args):
        vals[f] = a
    for k in call.keywords:
        if k.arg in fields:
            vals[k.arg] = k.value
    if set(vals) != set(fields) or not all(isinstance(v, ast.Constant) for v in vals.values()):
        return None
    return [vals[f].value for f in fields]


def interval_eval(fn, param, pvals):  # noqa: C901
    """Interval abstract interpretation of _repeated_enqueue_msg.  Values are (lo, hi) floats; time.time() is the
    origin [0, 0]; values that are not numbers (the queue, the message) are opaque.  Returns the list of
    (lo, hi, gap interval) of the send times handed to the queue, gap = what was added to the queued variable since the
    previous put (tracked separately because the absolute intervals are correlated)."""
    env = {}
    sends = []
    acc = {}   # variable -> interval added to it since the last put
    copy_of = {}   # x = y (plain copy of a number variable): x stands for y when it is handed to the queue

    def ev(e):  # noqa: C901, PLR0911
        if isinstance(e, ast.Constant) and isinstance(e.value, (int, float)) and not isinstance(e.value, bool):
            return (float(e.value), float(e.value))
        if isinstance(e, ast.Name):
            if e.id in env and env[e.id] is not OPAQUE:
                return env[e.id]
            raise AnalysisError(f'interval: {e.id} is not a number here')
        if isinstance(e, ast.Attribute) and isinstance(e.value, ast.Name) and e.value.id == param and e.attr in pvals:
            return (float(pvals[e.attr]), float(pvals[e.attr]))
        if isinstance(e, ast.Call):
            full = unparse(e.func)
            if full in ('time.time',):
                return (0.0, 0.0)
            if full in ('random.randint', 'randint'):
                a, b = ev(e.args[0]), ev(e.args[1])
                return (a[0], b[1])
            if full in ('random.randrange', 'randrange') and len(e.args) == 2:
                a, b = ev(e.args[0]), ev(e.args[1])
                return (a[0], b[1])  # upper bound exclusive: over-approximated by the closed interval
            if full in ('random.uniform', 'uniform'):
                a, b = ev(e.args[0]), ev(e.args[1])
                return (a[0], b[1])
            if full in ('min', 'max') and len(e.args) >= 2:
                vs = [ev(a) for a in e.args]
                f = min if full == 'min' else max
                return (f(v[0] for v in vs), f(v[1] for v in vs))
            if full in ('float', 'int') and len(e.args) == 1:
                return ev(e.args[0])
            raise AnalysisError(f'interval: call {full} not modelled')
        if isinstance(e, ast.UnaryOp) and isinstance(e.op, ast.USub):
            v = ev(e.operand)
            return (-v[1], -v[0])
        if isinstance(e, ast.BinOp):
            l, r = ev(e.left), ev(e.right)
            if isinstance(e.op, ast.Add):
                return (l[0] + r[0], l[1] + r[1])
            if isinstance(e.op, ast.Sub):
                return (l[0] - r[1], l[1] - r[0])
            if isinstance(e.op, ast.Mult):
                c = [l[0] * r[0], l[0] * r[1], l[1] * r[0], l[1] * r[1]]
                return (min(c), max(c))
            if isinstance(e.op, ast.Div):
                if r[0] <= 0 <= r[1]:
                    raise AnalysisError('interval: division by an interval containing 0')
                c = [l[0] / r[0], l[0] / r[1], l[1] / r[0], l[1] / r[1]]
                return (min(c), max(c))
        raise AnalysisError(f'interval: expression {unparse(e)[:50]} not modelled')

    def add(iv1, iv2):
        return (iv1[0] + iv2[0], iv1[1] + iv2[1])

    def increment_of(target, value):
        """value == target + X or X + target -> X (ast), else None"""
        if isinstance(value, ast.BinOp) and isinstance(value.op, ast.Add):
            if isinstance(value.left, ast.Name) and value.left.id == target:
                return value.right
            if isinstance(value.right, ast.Name) and value.right.id == target:
                return value.left
        return None

    def count(it):
        args = [ev(a) for a in it.args]
        if any(a[0] != a[1] for a in args):
            raise AnalysisError('interval: loop bounds are not constants')
        return list(range(*[int(a[0]) for a in args]))

    def run(stmts):  # noqa: C901, PLR0912
        for st in stmts:
            if isinstance(st, (ast.Pass,)) or (isinstance(st, ast.Expr) and isinstance(st.value, ast.Constant)):
                continue
            if isinstance(st, ast.If):
                if 'is_set()' in unparse(st.test) and all(isinstance(x, (ast.Return, ast.Expr)) for x in st.body) \
                        and not st.orelse:
                    continue  # shutdown guard: drops the message before anything is queued
                raise AnalysisError(f'interval: condition {unparse(st.test)[:40]} not modelled')
            if isinstance(st, ast.AnnAssign) and isinstance(st.target, ast.Name) and st.value is not None:
                st = ast.Assign(targets=[st.target], value=st.value)
            if isinstance(st, ast.Assign) and len(st.targets) == 1 and isinstance(st.targets[0], ast.Name):
                name = st.targets[0].id
                copy_of.pop(name, None)
                if isinstance(st.value, ast.Name) and st.value.id in env and env[st.value.id] is not OPAQUE:
                    copy_of[name] = copy_of.get(st.value.id, st.value.id)
                    env[name] = env[st.value.id]
                    continue
                inc = increment_of(name, st.value)
                try:
                    val = ev(st.value)
                except AnalysisError:
                    val = OPAQUE
                if inc is not None and val is not OPAQUE:
                    acc[name] = add(acc.get(name, (0.0, 0.0)), ev(inc))
                else:
                    acc.pop(name, None)
                env[name] = val
                continue
            if isinstance(st, ast.AugAssign) and isinstance(st.target, ast.Name) and isinstance(st.op, ast.Add):
                inc = ev(st.value)
                env[st.target.id] = add(env[st.target.id], inc)
                acc[st.target.id] = add(acc.get(st.target.id, (0.0, 0.0)), inc)
                continue
            if isinstance(st, ast.Expr) and isinstance(st.value, ast.Call) and call_name(st.value) in ('put', 'put_nowait'):
                em = [x for x in ast.walk(st.value) if isinstance(x, ast.Call) and call_name(x) == '_EnqueuedMessage']
                if not em or not em[0].args:
                    raise AnalysisError('interval: put without _EnqueuedMessage(send_time, ...)')
                targ = em[0].args[0]
                t = ev(targ)
                src = copy_of.get(targ.id, targ.id) if isinstance(targ, ast.Name) else None
                if sends:
                    if src is not None and src in acc:
                        gap = acc[src]
                    else:
                        gap = (t[0] - sends[-1][1], t[1] - sends[-1][0])  # uncorrelated over-approximation
                else:
                    gap = None
                if src is not None:
                    acc[src] = (0.0, 0.0)
                sends.append((t[0], t[1], gap))
                continue
            if isinstance(st, ast.For) and isinstance(st.iter, ast.Call) and call_name(st.iter) == 'range' and not st.orelse:
                for i in count(st.iter):
                    if isinstance(st.target, ast.Name):
                        env[st.target.id] = (float(i), float(i))
                    run(st.body)
                continue
            if isinstance(st, ast.Expr) and isinstance(st.value, ast.Call) and 'logger' in unparse(st.value.func):
                continue
            raise AnalysisError(f'interval: statement {unparse(st)[:50]} not modelled')
    run(fn.body)
    return sends


def _inside(node, container):
    cur = getattr(node, '_parent', None)
    while cur is not None:
        if cur is container:
            return True
        cur = getattr(cur, '_parent', None)
    return False


# ---------------------------------------------------------------------- self-test seeds
from selftest import seed  # noqa: E402

_N = 'src/sdc11073/wsdiscovery/networkingthread.py'
SEEDS = [
    seed('cap in milliseconds again', 'C15.R1', (_N, "delay_params.upper_delay_ms / 1000.0)", "delay_params.upper_delay_ms)")),
    seed('first gap kept in milliseconds', 'C15.R1',
         (_N, "delay_params.max_delay_ms) / 1000.0  # millisec -> seconds", "delay_params.max_delay_ms)  # millisec")),
    seed('initial delay added in milliseconds', 'C15.R1', (_N, "time.time() + initial_delay_ms / 1000.0", "time.time() + initial_delay_ms")),
    seed('gap tripled', 'C15.R2', (_N, "min(delta_t * 2, ", "min(delta_t * 3, ")),
    seed('gap doubled before the datagram is queued', 'C15.R2',
         (_N, "            next_send += delta_t\n            self._send_queue.put(self._EnqueuedMessage(next_send, msg, i + 2))\n            delta_t = min(delta_t * 2, delay_params.upper_delay_ms / 1000.0)",
          "            delta_t = min(delta_t * 2, delay_params.upper_delay_ms / 1000.0)\n            next_send += delta_t\n            self._send_queue.put(self._EnqueuedMessage(next_send, msg, i + 2))")),
    seed('first gap window uses initial delay as upper bound', 'C15.R2',
         (_N, "random.randrange(delay_params.min_delay_ms, delay_params.max_delay_ms)", "random.randrange(delay_params.min_delay_ms, delay_params.max_initial_delay_ms)")),
    seed('cap ten times too large', 'C15.R2', (_N, "delay_params.upper_delay_ms / 1000.0)", "delay_params.upper_delay_ms / 100.0)")),
    seed('first gap drawn from twice the window', 'C15.R2',
         (_N, "random.randrange(delay_params.min_delay_ms, delay_params.max_delay_ms) / 1000.0", "random.randrange(delay_params.min_delay_ms, delay_params.max_delay_ms) / 500.0")),
    seed('one repetition too many', 'C15.R3', (_N, "for i in range(delay_params.repeat):", "for i in range(delay_params.repeat + 1):")),
    seed('first datagram only for multicast', 'C15.R3',
         (_N, "        self._send_queue.put(self._EnqueuedMessage(next_send, msg, 1))\n", "        if delay_params.repeat > 2:\n            self._send_queue.put(self._EnqueuedMessage(next_send, msg, 1))\n")),
    seed('own id registered after queueing', 'C15.R4',
         (_N, "        self._known_message_ids.appendleft(msg.p_msg.header_info_block.MessageID)\n        self._repeated_enqueue_msg(OutgoingMessage(msg, addr, port), repeat_params)",
          "        self._repeated_enqueue_msg(OutgoingMessage(msg, addr, port), repeat_params)\n        self._known_message_ids.appendleft(msg.p_msg.header_info_block.MessageID)")),
    seed('queue flushed on shutdown', 'C15.R2',
         (_N, "            if self._send_queue.queue[0].send_time <= time.time():", "            if self._quit_send_event.is_set() or self._send_queue.queue[0].send_time <= time.time():")),
    seed('own id stored at the other end', 'C15.R4',
         (_N, "        self._known_message_ids.appendleft(msg.p_msg.header_info_block.MessageID)\n        self._repeated_enqueue_msg", "        self._known_message_ids.append(msg.p_msg.header_info_block.MessageID)\n        self._repeated_enqueue_msg")),
    seed('control: cap hoisted into a local in seconds', 'C15.R1',
         (_N, "        self._send_queue.put(self._EnqueuedMessage(next_send, msg, 1))\n", "        self._send_queue.put(self._EnqueuedMessage(next_send, msg, 1))\n        self._logger.debug('first at %r', next_send)\n"), control=True),
]
