"""C10 - context association invariants hold after any sequence of context changes.

Decided (structural necessary conditions):
  R1 MUST-PASS: every path that makes a context state associated inside a transaction also calls
     disassociate_all for the same descriptor / entity in that transaction (set_location; the "new state"
     and the "becomes associated" branches of the SetContextState handler).
  R2 flow: every store to BindingMdibVersion / UnbindingMdibVersion takes its value from the
     transaction's new_mdib_version (directly or through the unbinding_mdib_version parameter whose
     call-site arguments are new_mdib_version) and is paired in its block with the start / end time.
  R3 disassociation marks the state DISASSOCIATED and sets the unbinding version when absent; the states
     skipped are exactly the ignored one and those already in the transaction (xtra: NO_ASSOCIATION).
  R4 ORDER: proposals with two associated states for one descriptor are rejected before the transaction opens.
  R5 handle uniqueness: explicit handles are checked against both handle indices before creation;
     generated handles are uuid4; both indices are declared unique.
Not decided: the resulting table contents (value level).
"""
from __future__ import annotations

import ast

from engine.cfg import expand_aliases, call_name, cfg_of, first_else_second, fuse_filters
from engine.errors import AnalysisError
from engine.repo import walk_no_nested
from engine.util import calls_in, local_assignments, unparse, xsrc

from .c11 import index_key_attrs

ID = 'C10'
TR = 'sdc11073.mdib.transactions'
XT = 'sdc11073.mdib.providermdibxtra.ProviderMdibMethods'
CP = 'tutorial.productandroles.contextprovider.GenericContextProvider._set_context_state'


def _stores(g, attrs):
    out = []
    for n in g.real_nodes():
        if n.kind == 'stmt' and isinstance(n.stmt, ast.Assign):
            for t in n.stmt.targets:
                if isinstance(t, ast.Attribute) and t.attr in attrs:
                    out.append((n, t))
    return out


def _innermost_branch(g, n):
    """The dominating branch node closest to n."""
    cands = [b for b in g.nodes if b.kind == 'branch' and b is not n and g.dominates(b, n)]
    best = None
    for b in cands:
        if best is None or g.dominates(best, b):
            best = b
    return best


def run(ctx):  # noqa: C901, PLR0912, PLR0915
    repo = ctx.repo
    ctx.rule('C10.R1', 'associate => disassociate_all for the same descriptor in the same transaction')
    ctx.rule('C10.R2', 'binding / unbinding versions come from new_mdib_version and are paired with the times')
    ctx.rule('C10.R3', 'disassociate_all marks DISASSOCIATED + unbinding version; skip set exact')
    ctx.rule('C10.R4', 'double association is rejected before the transaction opens')
    ctx.rule('C10.R5', 'handle uniqueness checks before creation; uuid4 for generated handles; unique indices')

    from . import common
    # a context state obtained through the entity interface is a copy: associating it there associates nothing in the MDIB
    common.entity_getters_hand_out_copies(ctx, 'C10.R1')
    common.skip_lists_are_kept(ctx, 'C10.R2')
    ctx.borrow('C06', {'C06.R4'}, 'C10.R2', why='the consumer mirror of the association state loses no report during its load')
    ctx.borrow('C01', {'C01.R2'}, 'C10.R3', contains=['every report part is visited'], why='the disassociation of a state in another MDS reaches the mirror')
    # the SetContextState handler writes back every state it recorded as modified: the handle list handed to write_entity is the
    # recorded list itself - a filter (`if h in entity.states`) turns the KeyError that rejects an inconsistent multi-proposal
    # request into an accepted request whose stale second copy re-associates what the first proposal disassociated
    tpf = repo.func(CP)
    gtp = cfg_of(tpf)
    la_tp = local_assignments(tpf.node)
    n_wb = 0
    for wn, wc in gtp.nodes_calling('write_entity'):
        if len(wc.args) < 2:
            continue
        n_wb += 1
        h = wc.args[1]
        vals = la_tp.get(h.id, []) if isinstance(h, ast.Name) else [h]
        filtered = [unparse(v)[:70] for v in vals if isinstance(v, (ast.ListComp, ast.GeneratorExp)) and any(g_.ifs for g_ in v.generators)
                    or (isinstance(v, ast.Call) and call_name(v) == 'filter')]
        ctx.ob('C10.R1', 'write-back writes every recorded handle', not filtered,
               'the handler writes back exactly the handles it recorded as modified' if not filtered else
               f'the handles written back are filtered ({filtered[0]}): a request with two proposals for one descriptor is no longer '
               f'rejected, the copy of the second proposal writes the previously associated state back as associated', fi=tpf, node=wc)
    ctx.floor('C10.R1', n_wb, 1, 'write_entity calls with a handle list in the SetContextState handler')
    # ------------------------------------------------------------------ R1
    sl = repo.func(f'{XT}.set_location')
    g = cfg_of(sl)
    mk = [(n, c) for n, c in g.nodes_calling('mk_context_state')
          if any(k.arg == 'set_associated' and isinstance(k.value, ast.Constant) and k.value.value is True
                 for k in c.keywords)]
    dis = g.nodes_calling('disassociate_all')
    if not mk:
        raise AnalysisError('C10.R1: set_location does not call mk_context_state(set_associated=True)')
    for n, c in mk:
        same = [d for d, dc in dis if g.dominates(d, n) and set(d.withs) == set(n.withs) and n.withs and
                unparse(dc.func.value) == unparse(c.func.value) and unparse(dc.args[0]) == unparse(c.args[0])]
        ctx.ob('C10.R1', 'set_location', bool(same),
               'set_location: disassociate_all(handle) precedes mk_context_state(handle, set_associated=True) in the '
               'same transaction' if same else
               'set_location associates a new location state without disassociating the previous one in the same '
               'transaction (two associated states for one descriptor)', fi=sl, node=c)
    sc = expand_aliases(repo.func(CP))  # pm_types / new_mdib_version style aliases written out
    g = cfg_of(sc)
    g.dom  # noqa: B018
    bind = [(n, t) for n, t in _stores(g, {'BindingMdibVersion'})]
    ctx.floor('C10.R1', len(bind), 2, 'branches of _set_context_state that associate a state')
    dis = g.nodes_calling('disassociate_all')
    for n, t in bind:
        br = _innermost_branch(g, n)
        same = [d for d, dc in dis if br is not None and g.dominates(br, d) and _innermost_branch(g, d) is br
                and unparse(dc.args[0]) == 'entity']
        ctx.ob('C10.R1', f'_set_context_state: {unparse(t)} @ {br.text()[:50] if br else "?"}', bool(same),
               'the branch that makes a proposed state associated also disassociates the other states of its entity'
               if same else 'a branch sets BindingMdibVersion (state becomes associated) without calling '
                            'disassociate_all(entity, ...) in the same branch', fi=sc, node=n.stmt)
    # the association test itself
    for n, t in bind:
        facts = g.facts_at(n)
        pv = {lp.target.id for lp in n.loops if isinstance(lp, ast.For) and isinstance(lp.target, ast.Name)}  # proposal loop var
        ok = any(pol is True and any(f'{v}.ContextAssociation == ' in txt for v in pv) and
                 'ContextAssociation.ASSOCIATED' in txt and ' or ' not in txt for txt, pol in facts.both())
        ctx.ob('C10.R1', f'_set_context_state: binding only when associated ({n.lineno and "site"})'
               .replace('site', unparse(t)) + f' #{bind.index((n, t))}', ok,
               'the binding version is set exactly when the proposed state is ASSOCIATED', fi=sc, node=n.stmt)

    # ------------------------------------------------------------------ R2
    sites = []
    for fi in repo.funcs.values():
        if not (fi.module.name.startswith('sdc11073') or fi.module.name.startswith('tutorial')):
            continue
        if not any(isinstance(n, ast.Attribute) and n.attr in ('BindingMdibVersion', 'UnbindingMdibVersion') and
                   isinstance(n.ctx, ast.Store) for n in ast.walk(fi.node)):
            continue
        fi = expand_aliases(fi)  # `v = mgr.new_mdib_version` style aliases written out
        g = cfg_of(fi)
        for n, t in _stores(g, {'BindingMdibVersion', 'UnbindingMdibVersion'}):
            sites.append((fi, g, n, t))
    ctx.floor('C10.R2', len(sites), 6, 'stores to BindingMdibVersion / UnbindingMdibVersion')
    for fi, g, n, t in sites:
        v = n.stmt.value
        vt = unparse(v)
        ok_src = vt.endswith('.new_mdib_version')
        why = f'value {vt}'
        if not ok_src and isinstance(v, ast.Name) and v.id in [a.arg for a in fi.node.args.args]:
            # parameter: all call sites must pass new_mdib_version
            args = []
            for f2 in repo.funcs.values():
                if not calls_in(f2.node, fi.name):
                    continue
                for c in calls_in(expand_aliases(f2).node, fi.name):
                    for k in c.keywords:
                        if k.arg == v.id:
                            args.append(unparse(k.value))
                    idx = [a.arg for a in fi.node.args.args].index(v.id) - 1
                    if len(c.args) > idx >= 0 and not any(k.arg == v.id for k in c.keywords):
                        args.append(unparse(c.args[idx]))
            ok_src = bool(args) and all(a.endswith('.new_mdib_version') for a in args)
            why = f'parameter {v.id}; call-site arguments {sorted(set(args))}'
        time_attr = 'BindingStartTime' if t.attr == 'BindingMdibVersion' else 'BindingEndTime'
        br = _innermost_branch(g, n)
        paired = [m for m, tt in _stores(g, {time_attr})
                  if unparse(tt.value) == unparse(t.value) and _innermost_branch(g, m) is br
                  and unparse(m.stmt.value) == 'time.time()']
        ctx.ob('C10.R2', f'{fi.name}: {unparse(t)}', ok_src and bool(paired),
               f'{unparse(t)} is the MdibVersion this transaction will create ({why}) and {time_attr} is set with it'
               if ok_src and paired else
               f'{unparse(t)} = {vt}: ' + ('not taken from the transaction\'s new_mdib_version (e.g. the current '
                                           'mdib_version is one too small)' if not ok_src else
                                           f'{time_attr} is not set together with it'), fi=fi, node=n.stmt,
               witness={'source': why, 'paired_time': bool(paired)})

    # the object that receives the version must be the object that is written back
    g = cfg_of(sc)
    for n, t in _stores(g, {'BindingMdibVersion', 'UnbindingMdibVersion', 'BindingStartTime', 'BindingEndTime'}):
        obj = unparse(t.value)
        br = _innermost_branch(g, n)
        # (a) the object itself is put into the entity in this function after the store
        put = [m for m in g.real_nodes() if m.kind == 'stmt' and isinstance(m.stmt, ast.Assign) and
               unparse(m.stmt.targets[0]).startswith('entity.states[') and unparse(m.stmt.value) == obj
               and g.path_exists(n, m, normal_only=True)]
        # (b) or it is copied into the entity's object by an update that does not skip the attribute
        cp = []
        for m, c in g.nodes_calling('update_from_other_container'):
            if c.args and unparse(c.args[0]) == obj and g.path_exists(n, m, normal_only=True):
                skipped = [x.value for k in c.keywords if k.arg == 'skipped_properties' for x in ast.walk(k.value)
                           if isinstance(x, ast.Constant)]
                cp.append((m, t.attr not in skipped))
        # on every path from the store to the exit one of them must happen; copies that skip the attribute do not count
        good = put + [m for m, okc in cp if okc]
        ok = bool(good) and g.must_pass(n, good)
        if not ok and isinstance(t.value, ast.Name):
            # (c) the object is the entity's own state object (entity.states.get(..) / entity.states[..]) and no later
            #     copy into it overwrites the attribute
            la = local_assignments(sc.node)
            binds = [v for v in la.get(t.value.id, []) if not (isinstance(v, ast.Constant) and v.value is None)]
            owned = bool(binds) and all(unparse(v).startswith('entity.states.get(') or unparse(v).startswith('entity.states[')
                                        for v in binds)
            clobber = False
            for m, c in g.nodes_calling('update_from_other_container'):
                if unparse(c.func.value) == obj and g.path_exists(n, m, normal_only=True):
                    skipped = [x.value for k in c.keywords if k.arg == 'skipped_properties' for x in ast.walk(k.value)
                               if isinstance(x, ast.Constant)]
                    if t.attr not in skipped:
                        clobber = True
            ok = owned and not clobber
        ctx.ob('C10.R2', f'_set_context_state: {unparse(t)} reaches the written state #{n.lineno and 0}'.replace(' #0', '')
               + f' [{br.text()[:40] if br else ""}]', ok,
               f'{unparse(t)}: the object that gets the value is the one written back to the MDIB' if ok else
               f'{unparse(t)} is set on {obj}, but {obj} is then copied into the stored state with '
               f'skipped_properties containing {t.attr} (or never written): the binding information of this change never '
               f'reaches the MDIB', fi=sc, node=n.stmt)
    # the entities the handler modifies are read inside the transaction (read-modify-write under the transaction lock)
    reads = g.nodes_calling('by_handle')
    withs = [n for n in g.nodes if n.kind == 'with' and 'context_state_transaction' in n.text()]
    ok = bool(reads) and bool(withs) and all(any(w.stmt in r.withs for w in withs) for r, _ in reads)
    ctx.ob('C10.R1', 'entities read inside the transaction', ok,
           'the handler reads the entities it modifies inside the context_state_transaction region' if ok else
           'the handler reads the entity snapshot before it holds the transaction lock: a context change committed in '
           'between (e.g. set_location) is missed by disassociate_all and two states end up associated', fi=sc)

    # ------------------------------------------------------------------ R3
    # Path conditions as truth tables (engine/pathcond.py): a state X of the descriptor is marked DISASSOCIATED exactly when
    #     not skipped(X)  and  (X.ContextAssociation != DISASSOCIATED  or  X.UnbindingMdibVersion is None)
    # and the unbinding version is written exactly when, in addition, the edited object has none yet - whatever mix of
    # `continue` guards, nested ifs or one combined condition the loop uses, and whatever the loop variable is called.
    disassociate_all_marks(ctx, 'C10.R3')
    # transaction variant goes through get_context_state (copy, version, transaction membership)
    d1 = repo.func(f'{TR}.ContextStateTransaction.disassociate_all')
    g1 = cfg_of(d1)
    lv = [n.target.id for n in walk_no_nested(d1.node) if isinstance(n, ast.For) and isinstance(n.target, ast.Name)]
    edited = {unparse(t.value) for n, t in _stores(g1, {'ContextAssociation', 'UnbindingMdibVersion', 'BindingEndTime'})}
    from_getter = all(any(isinstance(v, ast.Call) and call_name(v) == 'get_context_state'
                          for v in local_assignments(d1.node).get(e, [None])) and
                      len(local_assignments(d1.node).get(e, [])) == 1 for e in edited)
    ctx.ob('C10.R3', 'transaction variant edits the transaction copy',
           bool(edited) and from_getter and not (edited & set(lv)),
           'disassociate_all edits the copy obtained through get_context_state, never the MDIB object', fi=d1,
           witness=sorted(edited))

    # ------------------------------------------------------------------ R4
    import re
    scx = expand_aliases(sc)   # pm_types-style aliases written out
    g = cfg_of(scx)
    # the counting: <dict>[<x>.DescriptorHandle].append(..) under the fact "<x>.ContextAssociation == ...ASSOCIATED"
    counted = []

    def _assoc_fact(node, x):
        return any(pol is True and '==' in txt and f'{x}.ContextAssociation' in txt and
                   'ContextAssociation.ASSOCIATED' in txt for txt, pol in g.facts_at(node))
    for n in g.real_nodes():
        tgts = []
        for c in n.calls():
            if call_name(c) in ('append', 'add') and isinstance(c.func, ast.Attribute):
                tgts.append(c.func.value)
        if n.kind == 'stmt' and isinstance(n.stmt, (ast.Assign, ast.AugAssign)):
            tgts += n.stmt.targets if isinstance(n.stmt, ast.Assign) else [n.stmt.target]
        for tgt in tgts:
            if isinstance(tgt, ast.Subscript) and isinstance(tgt.slice, ast.Attribute) and tgt.slice.attr == 'DescriptorHandle' \
                    and isinstance(tgt.slice.value, ast.Name) and isinstance(tgt.value, ast.Name):
                counted.append((tgt.value.id, _assoc_fact(n, tgt.slice.value.id), n))
    # ... or the library spelling of the same count: Counter(<x>.DescriptorHandle for <x> in .. if <x>.ContextAssociation == ASSOCIATED)
    counter_fill = []
    for n in g.real_nodes():
        for c in n.calls():
            if call_name(c) == 'Counter' and len(c.args) == 1 and isinstance(c.args[0], (ast.GeneratorExp, ast.ListComp)) and \
                    len(c.args[0].generators) == 1 and isinstance(c.args[0].generators[0].target, ast.Name):
                gen = c.args[0].generators[0]
                x = gen.target.id
                elt = c.args[0].elt
                assoc = any(isinstance(t, ast.Compare) and len(t.ops) == 1 and isinstance(t.ops[0], ast.Eq) and
                            f'{x}.ContextAssociation' in (unparse(t.left), unparse(t.comparators[0])) and
                            'ContextAssociation.ASSOCIATED' in unparse(t) for t in gen.ifs)
                if isinstance(elt, ast.Attribute) and elt.attr == 'DescriptorHandle' and unparse(elt.value) == x and \
                        n.kind == 'stmt' and isinstance(n.stmt, ast.Assign) and isinstance(n.stmt.targets[0], ast.Name):
                    counted.append((n.stmt.targets[0].id, assoc, n))
                    if assoc:
                        counter_fill.append(n)
    dicts = {d for d, a, _n in counted if a}
    from engine.deps import Deps
    dp = Deps(scx.node)
    withs = [n for n in g.nodes if n.kind == 'with' and 'context_state_transaction' in n.text()]
    if not withs:
        raise AnalysisError('C10.R4: transaction with-statement not found in _set_context_state')
    # the rejecting raise: outside the transaction, controlled by a test that is computed from the per-descriptor record with
    # a "more than one" comparison (len(list) > 1, count > 1, next(h for h, c in d.items() if c > 1) ...)
    raises = []
    for r in g.nodes:
        if r.kind != 'raisestmt' or r.withs:
            continue
        for b in g.nodes:
            if b.kind == 'branch' and b.label in (True, False) and g.dominates(b, r):
                src_ = dp.sources(b.test)
                more_than_one = any(
                    isinstance(c, ast.Compare) and len(c.ops) == 1 and (
                        (isinstance(c.ops[0], ast.Gt) and isinstance(c.comparators[0], ast.Constant) and c.comparators[0].value == 1)
                        or (isinstance(c.ops[0], ast.GtE) and isinstance(c.comparators[0], ast.Constant) and c.comparators[0].value == 2)
                        or (isinstance(c.ops[0], ast.Lt) and isinstance(c.left, ast.Constant) and c.left.value == 1)
                        or (isinstance(c.ops[0], ast.LtE) and isinstance(c.left, ast.Constant) and c.left.value == 2))
                    for e in dp.reach(b.test) for c in ast.walk(e))
                if 'attr:DescriptorHandle' in src_ and more_than_one:
                    raises.append(r)
                    break
    fill = [n for _d, a, n in counted if a]
    ok = bool(raises) and bool(fill) and all(not n.withs for n in fill)
    # the transaction is opened only after the counting loop finished
    loops = [h for h in g.nodes if h.kind == 'for' and any(h.stmt in n.loops for n in fill)] + counter_fill
    ok = ok and bool(loops) and all(g.dominates(loops[0], w) for w in withs)
    ctx.ob('C10.R4', 'double association rejected first', ok,
           'the check for more than one associated state per descriptor raises before the transaction is opened',
           fi=sc, witness=[r.lineno for r in raises])
    # the counting only counts ASSOCIATED proposals, per DescriptorHandle
    ok = bool(dicts)
    ctx.ob('C10.R4', 'count per descriptor', ok, 'associated proposals are counted per DescriptorHandle', fi=sc)

    # ------------------------------------------------------------------ R5
    mkc, g = mk_context_state_checks_handles(ctx, 'C10.R5')
    hs = [(n, t) for n, t in _stores(g, {'Handle'})]
    gen_ok = bool(hs) and first_else_second(g, None, None, 'context_state_handle', 'uuid.uuid4().hex',
                                            sites=[(n, n.stmt.value) for n, _t in hs])
    ctx.ob('C10.R5', 'generated handles', gen_ok,
           'without an explicit handle a uuid4 is generated', fi=mkc)
    ne = repo.func('sdc11073.mdib.providermdib.ProviderEntityGetter.new_entity')
    src = xsrc(ne)
    ok = 'handle in self._mdib.descriptions.handle' in src and 'handle in self._mdib.context_states.handle' in src and \
        any(isinstance(n, ast.Raise) for n in walk_no_nested(ne.node))
    ctx.ob('C10.R5', 'new_entity checks both indices', ok, 'new_entity rejects a handle known as descriptor or as '
           'context state', fi=ne)
    ns = repo.func('sdc11073.mdib.mdibbase.MultiStateEntity.new_state')
    src = xsrc(ns)
    ctx.ob('C10.R5', 'new_state', 'state_handle in self.states' in src and 'state_handle or uuid.uuid4().hex' in src,
           'MultiStateEntity.new_state rejects a duplicate handle inside the entity and generates uuid4 otherwise', fi=ns)
    keys = index_key_attrs(repo)
    u1 = keys.get('sdc11073.mdib.mdibbase.MultiStatesLookup', {}).get('handle')
    u2 = keys.get('sdc11073.mdib.mdibbase.DescriptorsLookup', {}).get('handle')
    ok = u1 == ('Handle', 'UIndexDefinition') and u2 == ('Handle', 'UIndexDefinition')
    ctx.ob('C10.R5', 'unique handle indices', ok, 'both handle indices are declared unique (UIndexDefinition on Handle)',
           where='sdc11073.mdib.mdibbase', witness={'context_states.handle': u1, 'descriptions.handle': u2})
    tp = repo.func(CP)
    ctx.ob('C10.R5', 'handler generates handles for new states', 'proposed_st.Handle = uuid.uuid4().hex' in xsrc(tp),
           'the SetContextState handler replaces the placeholder handle of a new state by a uuid4', fi=tp)


def mk_context_state_checks_handles(ctx, rule):
    """C10.R5 part (shared with C03 / C04: a handle clash that is only found by the unique index in the middle of the commit leaves
    a half-applied transaction with a bumped MdibVersion and no report)."""
    repo = ctx.repo
    mkc = repo.func(f'{TR}.ContextStateTransaction.mk_context_state')
    g = cfg_of(mkc)
    src = xsrc(mkc)
    look = [n for n, c in g.nodes_calling('get_one') if 'context_states.handle' in unparse(c.func)]
    # a raise on the edge "the context-state lookup found something" - the lookup may sit in a local or in the test itself
    rz = [n for n in g.nodes if n.kind == 'raisestmt' and any(
        pol is False and 'context_states.handle.get_one(' in txt and txt.endswith(' is None')
        for txt, pol in g.facts_symbolic(n))]
    ok = bool(look) and bool(rz) and 'context_state_handle in self._state_updates' in src
    ctx.ob(rule, 'mk_context_state checks the state handle index', ok,
           'mk_context_state rejects an explicit handle that exists as context state or in the transaction', fi=mkc)
    ok2 = 'descriptions.handle' in src and any('context_state_handle' in txt and 'descriptions.handle' in txt
                                               for n in g.nodes if n.kind == 'branch' for txt in [unparse(n.test)])
    ctx.ob(rule, 'mk_context_state checks the descriptor handle index', ok2,
           'mk_context_state rejects an explicit handle that is a descriptor handle' if ok2 else
           'mk_context_state(descriptor_handle, context_state_handle=<handle of an existing descriptor>) is accepted: '
           'the new context state duplicates a descriptor handle, handles are no longer unique across the MDIB',
           fi=mkc)
    return mkc, g


# ---------------------------------------------------------------------- self-test seeds
def disassociate_all_marks(ctx, rule):
    """Truth-table obligations of the two disassociate_all implementations (C10.R3; shared with C16: the location that a
    provider announces is the one associated state)."""
    repo = ctx.repo
    from engine.pathcond import worlds_of
    for q, skips in ((f'{TR}.ContextStateTransaction.disassociate_all',
                      ('{x}.Handle == ignored_handle', '{x}.Handle in self._state_updates')),
                     (f'{XT}.disassociate_all',
                      ('{x}.Handle == ignored_handle', '{x}.ContextAssociation == {pm}.ContextAssociation.NO_ASSOCIATION'))):
        fi = expand_aliases(fuse_filters(repo.func(q)))   # a select-then-act pair of loops counts as one loop
        g = cfg_of(fi)
        loops = [n for n in walk_no_nested(fi.node) if isinstance(n, ast.For) and isinstance(n.target, ast.Name)]
        marks = [n for n, t in _stores(g, {'ContextAssociation'})
                 if unparse(n.stmt.value).endswith('ContextAssociation.DISASSOCIATED')]
        unb = [n for n, t in _stores(g, {'UnbindingMdibVersion'})]
        ok = len(loops) == 1 and len(marks) == 1 and len(unb) == 1
        wit = None
        skip_ok = ok
        if ok:
            x = loops[0].target.id
            pm = unparse(marks[0].stmt.value).rsplit('.ContextAssociation.DISASSOCIATED', 1)[0]
            edited = unparse(unb[0].stmt.targets[0].value)
            sk = [t.format(x=x, pm=pm) for t in skips]
            dis = f'{x}.ContextAssociation == {pm}.ContextAssociation.DISASSOCIATED'
            nounb = f'{x}.UnbindingMdibVersion is None'
            ed_nounb = f'{edited}.UnbindingMdibVersion is None'
            w = worlds_of(g, extra_atoms=(*sk, dis, nounb, ed_nounb))
            want_mark = f'not ({sk[0]}) and not ({sk[1]}) and (not ({dis}) or {nounb})'
            ok1, w1 = w.equivalent(w.cond(marks[0]), want_mark)
            ok2, w2 = w.equivalent(w.cond(unb[0]), f'({want_mark}) and {ed_nounb}')
            ok = ok1 and ok2 and g.dominates(marks[0], unb[0])
            # nothing at all is written for a skipped state
            writes = [n for n, t in _stores(g, {'ContextAssociation', 'UnbindingMdibVersion', 'BindingEndTime'})]
            skip_ok, w3 = w.implies(w.cond_any(writes), f'not ({sk[0]}) and not ({sk[1]})')
            # every state that was marked is reported back to the caller (who writes exactly the returned handles): the
            # handle is appended to the returned list under the same condition as the mark
            rets_ = {unparse(r.value) for r in walk_no_nested(fi.node) if isinstance(r, ast.Return) and r.value is not None}
            apps = [n for n, c in g.nodes_calling('append') if unparse(c.func.value) in rets_]
            ok4 = len(apps) == 1 and w.cond(apps[0]) == w.cond(marks[0])
            ok = ok and ok4
            wit = {'marked when': w.describe(w.cond(marks[0])), 'unbinding written when': w.describe(w.cond(unb[0])),
                   'handle returned when': w.describe(w.cond(apps[0])) if apps else None,
                   'difference': w1 or w2 or w3}
        ctx.ob(rule, f'{fi.cls.name}.disassociate_all marks', ok,
               'every state that is not yet (properly) disassociated is marked DISASSOCIATED; the unbinding version is '
               'set when absent' if ok else
               f'{fi.cls.name}.disassociate_all: the condition under which a state is marked DISASSOCIATED / given its unbinding '
               f'version is not `not skipped and (association != DISASSOCIATED or no unbinding version)`: {wit}; a state that '
               f'should have been disassociated stays associated next to the new one', fi=fi, witness=wit)
        ctx.ob(rule, f'{fi.cls.name}.disassociate_all skip set', skip_ok,
               f'skipped states are exactly: {[t.format(x="state", pm="pm_types") for t in skips]}', fi=fi, witness=wit)
        rets = [n for n in walk_no_nested(fi.node) if isinstance(n, ast.Return)]
        ctx.ob(rule, f'{fi.cls.name}.disassociate_all loop', any(isinstance(n, ast.For) for n in walk_no_nested(fi.node))
               and len(rets) == 1 and not any(isinstance(n, ast.Break) for n in walk_no_nested(fi.node)),
               'all states of the descriptor are visited (single loop, no break, single return)', fi=fi)


from selftest import seed  # noqa: E402

_T = 'src/sdc11073/mdib/transactions.py'
_X = 'src/sdc11073/mdib/providermdibxtra.py'
_C = 'tutorial/productandroles/contextprovider.py'
SEEDS = [
    seed('set_location forgets to disassociate', 'C10.R1', (_X, "            mgr.disassociate_all(descriptor_container.Handle)\n", "")),
    seed('handler: new associated state without disassociation', 'C10.R1',
         (_C, "                        handles = self._mdib.xtra.disassociate_all(entity, unbinding_mdib_version=mgr.new_mdib_version)\n                        operation_target_handles.extend(handles)\n                        modified_state_handles[entity.handle].extend(handles)\n                        # set version and time in new state",
          "                        # set version and time in new state")),
    seed('binding version from the current mdib version', 'C10.R2',
         (_T, "            new_state_container.BindingMdibVersion = self.new_mdib_version", "            new_state_container.BindingMdibVersion = self._mdib.mdib_version")),
    seed('unbinding version passed as current version', 'C10.R2',
         (_C, "                        handles = self._mdib.xtra.disassociate_all(entity, unbinding_mdib_version=mgr.new_mdib_version)", "                        handles = self._mdib.xtra.disassociate_all(entity, unbinding_mdib_version=self._mdib.mdib_version)")),
    seed('binding end time forgotten', 'C10.R2',
         (_T, "                    transaction_state.UnbindingMdibVersion = self.new_mdib_version\n                    transaction_state.BindingEndTime = time.time()", "                    transaction_state.UnbindingMdibVersion = self.new_mdib_version")),
    seed('disassociate_all overwrites an existing unbinding version', 'C10.R3',
         (_X, "                if state.UnbindingMdibVersion is None:\n                    state.UnbindingMdibVersion = unbinding_mdib_version\n                    state.BindingEndTime = time.time()",
          "                if True:\n                    state.UnbindingMdibVersion = unbinding_mdib_version\n                    state.BindingEndTime = time.time()")),
    seed('disassociate_all stops at the first state', 'C10.R3',
         (_T, "                disassociated_state_handles.append(transaction_state.Handle)\n        return disassociated_state_handles", "                disassociated_state_handles.append(transaction_state.Handle)\n                break\n        return disassociated_state_handles")),
    seed('double association checked inside the transaction', 'C10.R4',
         (_C, "        for handle, states in proposed_by_handle.items():\n            if len(states) > 1:\n                msg = f'more than one associated context for descriptor handle {handle}'\n                raise ValueError(msg)\n\n        operation_target_handles = []",
          "        for handle, states in proposed_by_handle.items():\n            if len(states) > 2:\n                msg = f'more than one associated context for descriptor handle {handle}'\n                raise ValueError(msg)\n\n        operation_target_handles = []")),
    seed('handler takes the entity snapshot before the transaction', 'C10.R1',
         (_C, "        with self._mdib.context_state_transaction() as mgr:\n            for proposed_st in proposed_context_states:\n                entity = self._mdib.entities.by_handle(proposed_st.DescriptorHandle)\n",
          "        snapshots = {st.DescriptorHandle: self._mdib.entities.by_handle(st.DescriptorHandle) for st in proposed_context_states}\n        with self._mdib.context_state_transaction() as mgr:\n            for proposed_st in proposed_context_states:\n                entity = snapshots[proposed_st.DescriptorHandle]\n")),
    seed('mk_context_state accepts an existing state handle', 'C10.R5',
         (_T, "            if old_state_container is not None:\n                msg = f'ContextState with handle={context_state_handle} already exists'\n                raise ValueError(msg)\n", "")),
    seed('new_entity checks descriptors only', 'C10.R5',
         ('src/sdc11073/mdib/providermdib.py', "            handle in self._mdib.descriptions.handle or handle in self._mdib.context_states.handle", "            handle in self._mdib.descriptions.handle")),
]
