"""C17 - HTTP body framing and content coding are lossless and honour negotiation.

Decided (structural necessary conditions):
  R1 GUARD: every compress_payload(enc, ..) on a send path is dominated by `enc in <locally supported set>`,
     enc iterates the peer's accepted list, the same enc is announced in Content-Encoding, first match wins.
  R2 DEPENDS+GUARD: in parse_header the parsed q-value flows into a test that removes q = 0 entries.
  R3 GUARD: every decompress_payload(enc, ..) on a receive path is dominated by membership of enc in the
     supported set and the other edge raises.
  R4 AGREE: chunk writer and reader use the same radix and delimiter, the terminating zero chunk is
     written exactly when the input is exhausted and is what stops the reader; every mk_chunks call is
     dominated by chunk_size > 0.
Not decided: losslessness over all byte strings (value level).
"""
from __future__ import annotations

import ast

from engine.cfg import call_name, cfg_of
from engine.errors import AnalysisError
from engine.repo import walk_no_nested
from engine.util import calls_in, depends_on, local_assignments, unparse, xsrc

ID = 'C17'
CH = 'sdc11073.httpserver.compression.CompressionHandler'


def _send_sites(repo):
    out = []
    for fi in repo.funcs.values():
        if not fi.module.name.startswith('sdc11073') or fi.qual.startswith(CH) or \
                fi.module.name == 'sdc11073.httpserver.compression':
            continue
        g = None
        for c in calls_in(fi.node, 'compress_payload'):
            g = g or cfg_of(fi)
            node = next((n for n in g.real_nodes() if any(a is c for a in n.walk())), None)
            out.append((fi, g, node, c))
    return out


def _recv_sites(repo):
    out = []
    for fi in repo.funcs.values():
        if not fi.module.name.startswith('sdc11073') or fi.module.name == 'sdc11073.httpserver.compression':
            continue
        g = None
        for c in calls_in(fi.node, 'decompress_payload'):
            g = g or cfg_of(fi)
            node = next((n for n in g.real_nodes() if any(a is c for a in n.walk())), None)
            out.append((fi, g, node, c))
    return out


def run(ctx):  # noqa: C901, PLR0912, PLR0915
    repo = ctx.repo
    ctx.rule('C17.R1', 'compress only with a coding that is in the peer list and locally supported; announce that coding')
    ctx.rule('C17.R2', 'parse_header drops codings with q = 0')
    ctx.rule('C17.R3', 'decompress only supported codings, otherwise raise')
    ctx.rule('C17.R4', 'chunk writer/reader agree on radix, delimiter, terminator; chunk_size > 0 at every call')

    # ------------------------------------------------------------------ R1
    sites = _send_sites(repo)
    ctx.floor('C17.R1', len(sites), 3, 'compress_payload call sites on send paths')
    for fi, g, node, c in sites:
        enc = c.args[0] if c.args else None
        if not isinstance(enc, ast.Name) or node is None:
            ctx.ob('C17.R1', f'{unparse(c)[:60]}', False, 'coding argument is not a local variable', fi=fi, node=c)
            continue
        facts = g.facts_at(node)
        assigns = local_assignments(fi.node)
        # how the coding is chosen: (a) the variable of a loop over the peer list, tested `in <supported>`;
        #                           (b) next((e for e in <peer list> if e in <supported>), None), used when not None
        member, peer = None, None
        loops = [l for l in node.loops if isinstance(l, ast.For) and isinstance(l.target, ast.Name)
                 and l.target.id == enc.id]
        if loops:
            peer = loops[-1].iter
            m = [txt for txt, pol in facts.both() if pol is True and txt.startswith(f'{enc.id} in ')
                 and txt.endswith('supported_encodings')]
            member = m[0].split(' in ', 1)[1] if m else None
        else:
            d = g.unique_def(node, enc.id)
            v = g.def_value(d, enc.id) if d is not None else None
            if isinstance(v, ast.Call) and call_name(v) == 'next' and v.args and isinstance(v.args[0], ast.GeneratorExp) \
                    and len(v.args[0].generators) == 1 and isinstance(v.args[0].elt, ast.Name) \
                    and isinstance(v.args[0].generators[0].target, ast.Name) \
                    and v.args[0].generators[0].target.id == v.args[0].elt.id:
                gen = v.args[0].generators[0]
                peer = gen.iter
                for cond in gen.ifs:
                    if isinstance(cond, ast.Compare) and len(cond.ops) == 1 and isinstance(cond.ops[0], ast.In) and \
                            unparse(cond.left) == gen.target.id and unparse(cond.comparators[0]).endswith('supported_encodings'):
                        member = unparse(cond.comparators[0])
                if (f'{enc.id} is None', False) not in facts and (enc.id, True) not in facts:
                    member = None  # the "nothing matched" default may reach compress_payload
        src_ok = False
        # `for enc in LIST or ():` - the empty default stands for "nothing accepted"
        if isinstance(peer, ast.BoolOp) and isinstance(peer.op, ast.Or) and len(peer.values) == 2 and \
                isinstance(peer.values[1], (ast.Tuple, ast.List)) and not peer.values[1].elts:
            peer = peer.values[0]
        src_txt = unparse(peer) if peer is not None else ''
        if isinstance(peer, ast.Name):
            src_ok = any(isinstance(v, ast.Call) and call_name(v) == 'parse_header' for v in assigns.get(peer.id, []))
        elif src_txt == 'self.request_encodings':
            src_ok = True
        # the chosen coding is announced on every path that compressed with it, and only one coding is applied per message
        ann = []
        for n2 in g.real_nodes():
            for c2 in n2.calls():
                if call_name(c2) in ('send_header', 'add_header', 'putheader') and len(c2.args) == 2 and \
                        isinstance(c2.args[0], ast.Constant) and c2.args[0].value == 'Content-Encoding' and \
                        unparse(c2.args[1]) == enc.id:
                    ann.append(n2)
            if n2.kind == 'stmt' and isinstance(n2.stmt, ast.Assign) and isinstance(n2.stmt.targets[0], ast.Subscript) and \
                    isinstance(n2.stmt.targets[0].slice, ast.Constant) and n2.stmt.targets[0].slice.value == 'Content-Encoding' \
                    and unparse(n2.stmt.value) == enc.id:
                ann.append(n2)
        announces = bool(ann) and g.must_pass(node, ann)
        single = not g.path_exists(node, node, normal_only=True)
        ok = member is not None and src_ok and announces and single
        ctx.ob('C17.R1', f'{fi.name}: compress_payload', ok,
               f'{fi.name}: the coding is taken from the peer list ({src_txt}), checked against {member}, '
               f'announced in Content-Encoding, one coding per message' if ok else
               f'{fi.name}: compress_payload({enc.id}) - member-of-supported guard={member is not None}, '
               f'peer list source ok={src_ok} ({src_txt}), announced={announces}, single coding={single}',
               fi=fi, node=c, witness={'facts': list(facts)})
    # the peer list of notification clients comes from the Accept-Encoding of the Subscribe request
    mk = repo.func('sdc11073.provider.subscriptionmgr.ActionBasedSubscriptionsManager._mk_subscription_instance')
    assigns = local_assignments(mk.node)
    ok = any(isinstance(v, ast.Call) and call_name(v) == 'parse_header' for v in assigns.get('accepted_encodings', []))
    ctx.ob('C17.R1', 'subscription accepted encodings', ok,
           'the synchronous subscription manager stores parse_header(Accept-Encoding) as the codings usable for '
           'notifications', fi=mk)
    amk = repo.funcs.get('sdc11073.provider.subscriptionmgr_async.BicepsSubscriptionsManagerAsync._mk_subscription_instance')
    if amk is not None:
        a2 = local_assignments(amk.node)
        parsed = any(isinstance(v, ast.Call) and call_name(v) == 'parse_header' for v in a2.get('accepted_encodings', []))
        ctx.notes.append('async subscription manager: accepted_encodings ' +
                         ('come from parse_header' if parsed else
                          'is the raw header string (its characters never equal a coding name, so notifications of '
                          'the async manager are never compressed) - deviates from the sync sibling, no coding is sent'))
    # request_encodings of provider-made clients are the subscription's accepted encodings
    pmk = repo.func('sdc11073.provider.providerimpl.SdcProvider._mk_soap_client')
    ok = any(k.arg == 'request_encodings' and unparse(k.value) == 'accepted_encodings'
             for c in calls_in(pmk.node) for k in c.keywords)
    ctx.ob('C17.R1', 'notification client codings', ok,
           'SdcProvider._mk_soap_client passes the subscriber\'s accepted encodings as request_encodings', fi=pmk)

    # the list of locally enabled codings is handed to clients and servers BY REFERENCE (supported_encodings=self.<attr>):
    # reconfiguration must change it in place - re-binding the attribute leaves the objects that already hold the old list
    # compressing / advertising with codings that were switched off
    for cq in ('sdc11073.provider.providerimpl.SdcProvider', 'sdc11073.consumer.consumerimpl.SdcConsumer'):
        ci = repo.cls(cq)
        shared = set()
        for f in ci.methods.values():
            for c in calls_in(f.node):
                for k in c.keywords:
                    if k.arg == 'supported_encodings' and isinstance(k.value, ast.Attribute) and unparse(k.value.value) == 'self':
                        shared.add(k.value.attr)
        for attr in sorted(shared):
            rebinds = [f'{f.name}:{n.lineno}' for f in ci.methods.values() if f.name != '__init__'
                       for n in walk_no_nested(f.node) if isinstance(n, (ast.Assign, ast.AugAssign))
                       for t in (n.targets if isinstance(n, ast.Assign) else [n.target])
                       if isinstance(t, ast.Attribute) and t.attr == attr and unparse(t.value) == 'self']
            ctx.ob('C17.R1', f'{ci.name}.{attr} shared by reference', not rebinds,
                   f'{ci.name}.{attr} is handed out as supported_encodings and only ever changed in place' if not rebinds else
                   f'{ci.name}.{attr} is handed out as supported_encodings by reference but re-bound in {rebinds}: soap clients '
                   f'/ the HTTP server created before keep the old list and go on using codings that were disabled locally',
                   where=cq, witness=rebinds)
    # the locally enabled codings of a client are the list it was given - also when that list is empty ("no compression");
    # only a missing argument (None) stands for "all available codings"
    sci = repo.func('sdc11073.pysoap.soapclient.SoapClient.__init__')
    gi = cfg_of(sci)
    sites = [(n, n.stmt.value) for n in gi.real_nodes() if n.kind == 'stmt' and isinstance(n.stmt, ast.Assign) and
             unparse(n.stmt.targets[0]) == 'self.supported_encodings']
    ok = bool(sites)
    for n, v in sites:
        for facts, leaf in gi.value_cases(n, v):
            t = unparse(leaf)
            if t == 'supported_encodings':
                ok = ok and (('supported_encodings is None', False) in facts) and ('supported_encodings', True) not in list(facts)
            else:
                # the default is taken only for None
                ok = ok and ('supported_encodings is None', True) in facts
    ctx.ob('C17.R1', 'client keeps the configured list of codings', ok,
           'SoapClient uses the supported_encodings it was given whenever the argument is not None (an empty list stays '
           'empty)' if ok else
           'SoapClient replaces a falsy supported_encodings argument by all available codings: a side that switched '
           'compression off (empty list) still compresses its requests, advertises and accepts every coding', fi=sci)

    from .c08 import pool_user_released_under_its_netloc
    pool_user_released_under_its_netloc(ctx, 'C17.R1')   # the pooled client carries the codings negotiated for ONE subscription
    ctx.borrow('C08', {'C08.R5'}, 'C17.R1', contains=['pool entry ends', '_get_soap_client asks'], why='the pooled client carries the codings negotiated for one subscription')
    for q_c in ('sdc11073.pysoap.soapclient.SoapClient._send_soap_request',
                'sdc11073.pysoap.soapclient_async.SoapClientAsync.async_post_message_to'):
        cf = repo.funcs.get(q_c)
        if cf is None:
            continue
        gc_ = cfg_of(cf)
        comp = [n_ for n_, c_ in gc_.nodes_calling('compress_payload')]
        clen = [n_ for n_ in gc_.real_nodes() if n_.kind == 'stmt' and isinstance(n_.stmt, ast.Assign) and
                any(isinstance(t, ast.Subscript) and isinstance(t.slice, ast.Constant) and str(t.slice.value).lower() == 'content-length'
                    for t in n_.stmt.targets)]
        if not comp or not clen:
            continue   # the framing moved into a helper: the helper is judged where it is inlined
        stale = [l for l in clen if any(gc_.path_exists(l, c_, normal_only=True) for c_ in comp)]
        ctx.ob('C17.R4', f'{cf.cls.name}: Content-Length counts the compressed bytes', not stale,
               f'{cf.cls.name}.{cf.name} sets Content-Length after the body was compressed' if not stale else
               f'{cf.cls.name}.{cf.name} sets Content-Length before the body is compressed: the header announces the length of the '
               f'uncompressed text while the compressed bytes are sent - the receiver reads a truncated or over-long body', fi=cf)
    # ------------------------------------------------------------------ R2
    ph = repo.func(f'{CH}.parse_header')
    ok, why = _q_zero_excluded(ph.node)
    ctx.ob('C17.R2', 'q=0 excluded', ok, 'parse_header: ' + why, fi=ph)
    # the weight is found for every spelling the header grammar allows (`q=0`, `q = 0`, `Q=0`): where it is parsed is not
    # decided by comparing raw header text with a literal that fixes the characters around `=`
    gph = cfg_of(ph)
    lit = []
    for n in gph.real_nodes():
        if any(call_name(c) == 'float' for c in n.calls()):
            for bn in gph.nodes:
                if bn.kind == 'branch' and bn.test is not None and gph.dominates(bn, n):
                    if any(call_name(c_) in ('replace', 'lower', 'casefold', 'upper', 'sub', 'translate', 'match', 'fullmatch',
                                             'search') for c_ in ast.walk(bn.test) if isinstance(c_, ast.Call)):
                        continue   # compared after normalising case / white space, or by a pattern
                    lit += [k.value for k in ast.walk(bn.test) if isinstance(k, ast.Constant) and isinstance(k.value, str)
                            and '=' in k.value and k.value != '=']
    ctx.ob('C17.R2', 'weight found for every spelling', not lit,
           'parse_header: the weight is split off at `=` whatever white space / case surrounds it' if not lit else
           f'parse_header: the weight is parsed only where the raw parameter text matches {lit}: `q = 0` or `Q=0` keep the '
           f'default weight 1 and a coding the peer refused is used', fi=ph)
    src = xsrc(ph)
    ctx.ob('C17.R2', 'default quality', '= 1' in src and 'float(' in src,
           'parse_header: a coding without q-value gets quality 1, a given q-value is parsed as float', fi=ph)

    # ------------------------------------------------------------------ R3
    rsites = _recv_sites(repo)
    ctx.floor('C17.R3', len(rsites), 3, 'decompress_payload call sites')
    for fi, g, node, c in rsites:
        enc = c.args[0] if c.args else None
        if fi.qual.startswith(CH):
            continue
        facts = g.facts_at(node) if node is not None else []
        et = unparse(enc) if enc is not None else '?'
        member = [txt for txt, pol in facts.both() if pol is True and txt.startswith(f'{et} in ')]
        # a coding that is present but not in the supported set never reaches the normal exit (path condition of the exit
        # as a truth table: guard clause or else-branch, `in` or `not in` - all the same)
        raises = False
        if member and node is not None:
            # every branch edge on which the coding is known NOT to be in the supported set leads to a raise on all normal
            # paths (guard clause or else-branch, `in` or `not in`: compared as canonical literals)
            from engine.cfg import _atoms, canon_lit
            want = canon_lit(member[0], False)
            neg_edges = []
            for bn in g.nodes:
                if bn.kind == 'branch' and bn.label in (True, False):
                    lits = []
                    _atoms(bn.test, bn.label, lits)
                    if any(canon_lit(t, p) == want for t, p in lits):
                        neg_edges.append(bn)
            rz = [n for n in g.nodes if n.kind == 'raisestmt']
            raises = bool(neg_edges) and not any(g.path_exists(bn, g.exit, avoid=rz, normal_only=True) for bn in neg_edges)
        ok = bool(member) and raises
        ctx.ob('C17.R3', f'{fi.name}: decompress_payload({et})', ok,
               f'{fi.name}: a body is decompressed only if its coding is in the supported set, otherwise the '
               f'message is rejected' if ok else
               f'{fi.name}: decompress_payload({et}) - membership guard={bool(member)}, unsupported coding rejected='
               f'{raises}', fi=fi, node=c, witness={'facts': facts})
    # the supported set of that guard is the one the caller configured: both public readers hand their `supported_encodings`
    # to the membership test (directly, or as the argument of the helper that holds it) - a reader that falls back to "all
    # codings this installation has" decompresses what the application excluded
    def _guard_params(fi_):
        g_ = cfg_of(fi_)
        params_ = [a.arg for a in fi_.node.args.args]
        out_ = set()
        for n_ in g_.real_nodes():
            for c_ in n_.calls():
                if call_name(c_) != 'decompress_payload' or not c_.args:
                    continue
                et_ = unparse(c_.args[0])
                for txt_, pol_ in g_.facts_at(n_).both():
                    if pol_ is True and txt_.startswith(f'{et_} in '):
                        cont = ast.parse(txt_.split(' in ', 1)[1], mode='eval').body
                        la_ = local_assignments(fi_.node)
                        names_, todo_ = set(), [cont]
                        while todo_:
                            e_ = todo_.pop()
                            for x_ in ast.walk(e_):
                                if isinstance(x_, ast.Name) and x_.id not in names_:
                                    names_.add(x_.id)
                                    todo_.extend(la_.get(x_.id, []))
                        out_ |= {p_ for p_ in params_ if p_ in names_}
        return params_, out_
    import re
    HR = 'sdc11073.httpserver.httpreader.HTTPReader'
    for nm in ('read_request_body', 'read_response_body'):
        fi = repo.func(f'{HR}.{nm}')
        _, own = _guard_params(fi)
        ok = 'supported_encodings' in own
        via = None
        if not own:
            for c in calls_in(fi.node):
                tgt = repo.resolve_method(HR, call_name(c) or '') if isinstance(c.func, ast.Attribute) else None
                if tgt is None or tgt.qual == fi.qual:
                    continue
                hp, hg = _guard_params(tgt)
                if not hg:
                    continue
                hp = [p_ for p_ in hp if p_ not in ('self', 'cls')] if tgt.node.args.args and tgt.node.args.args[0].arg in ('self', 'cls') else hp
                bound = dict(zip(hp, c.args))
                bound.update({k.arg: k.value for k in c.keywords if k.arg})
                via = tgt.name
                ok = any(isinstance(bound.get(p_), ast.Name) and bound[p_].id == 'supported_encodings' for p_ in hg)
        ctx.ob('C17.R3', f'{nm}: the configured supported set reaches the guard', ok,
               f'{nm}: the membership test uses the supported_encodings of the caller' if ok else
               f'{nm}: the set that decides whether a body is decompressed does not come from the supported_encodings argument'
               f'{" (the call of " + via + " does not pass it on)" if via else ""}: a coding the application excluded is '
               f'decompressed all the same', fi=fi)
    # a truncated / corrupt stream must be rejected: one-shot zlib.decompress raises on an incomplete stream; a
    # streaming decompressobj does not - then .eof has to be checked
    decoders = sorted(q for q, f_ in repo.funcs.items() if q.startswith('sdc11073.httpserver.compression.') and
                      f_.name == 'decompress_payload' and f_.cls is not None and
                      f_.cls.name not in ('CompressionHandler', 'AbstractDataCompressor'))
    ctx.floor('C17.R3', len(decoders), 2, 'decoders of content codings')
    for q in decoders:
        fi = repo.func(q)
        src = xsrc(fi)
        one_shot = any(unparse(c.func) in ('zlib.decompress', 'gzip.decompress', 'lz4.frame.decompress')
                       for c in calls_in(fi.node))
        streaming = 'decompressobj' in src or 'Decompressor' in src
        eof_checked = '.eof' in src and any(isinstance(n, ast.Raise) for n in walk_no_nested(fi.node))
        ok = (one_shot and not streaming) or (streaming and eof_checked)
        kind = 'gzip' if fi.cls.name.startswith('Gzip') else fi.cls.name
        ctx.ob('C17.R3', f'{kind}: incomplete stream rejected', ok,
               f'the {kind} decoder rejects an incomplete stream (one-shot decompress, or a checked end-of-stream flag)'
               if ok else f'the {kind} decoder uses a streaming decompressor without checking .eof: a truncated body is '
                          'accepted and a prefix of the real message (possibly nothing) is returned', fi=fi)
    gh = repo.func(f'{CH}.get_handler')
    ctx.ob('C17.R3', 'unknown coding raises', any(isinstance(n, ast.Raise) for n in walk_no_nested(gh.node)),
           'CompressionHandler.get_handler raises for an unregistered coding', fi=gh)

    # ------------------------------------------------------------------ R4
    mkc = repo.func('sdc11073.httpserver.httpreader.mk_chunks')
    dch = repo.func('sdc11073.httpserver.httpreader.HTTPReader._read_dechunk')
    wsrc, rsrc = xsrc(mkc), unparse(dch.node)
    fmt = [n for n in ast.walk(mkc.node) if isinstance(n, ast.FormattedValue) and n.format_spec is not None]
    spec = unparse(fmt[0].format_spec).strip("f'\"") if fmt else None
    radix = None
    for c in calls_in(dch.node, 'int'):
        if len(c.args) == 2 and isinstance(c.args[1], ast.Constant):
            radix = c.args[1].value
    ctx.ob('C17.R4', 'radix', spec in ('x', 'X') and radix == 16,
           f'chunk size is written with format spec "{spec}" and read with int(.., {radix})', fi=mkc,
           witness={'format_spec': spec, 'radix': radix})
    mod = repo.module('sdc11073.httpserver.httpreader')
    crlf = None
    for n in mod.tree.body:
        if isinstance(n, ast.Assign) and isinstance(n.targets[0], ast.Name) and n.targets[0].id == 'CR_LF':
            crlf = n.value.value if isinstance(n.value, ast.Constant) else None
    wr_delims = [n.value for n in ast.walk(mkc.node) if isinstance(n, ast.Constant) and isinstance(n.value, bytes)]
    js = [n for n in ast.walk(mkc.node) if isinstance(n, ast.JoinedStr)]
    hdr_crlf = any(isinstance(v, ast.Constant) and v.value == '\r\n' for j in js for v in j.values)
    ctx.ob('C17.R4', 'delimiter', crlf == b'\r\n' and wr_delims.count(b'\r\n') >= 1 and hdr_crlf and 'CR_LF' in rsrc,
           'writer ends size line and chunk data with CRLF; reader splits on the CR_LF constant', fi=mkc,
           witness={'CR_LF': repr(crlf), 'writer_constants': [repr(x) for x in wr_delims]})
    # terminator: writer returns only when the chunk just written was empty; reader breaks on size 0
    g = cfg_of(mkc)
    rets = [n for n in g.nodes if n.kind == 'return']
    ok_w = bool(rets) and all(('head', False) in g.facts_at(r) for r in rets)
    writes = g.nodes_calling('write')
    ok_w = ok_w and all(any(g.dominates(w, r) for w, _ in writes) for r in rets)
    gd = cfg_of(dch)
    # reader: every way out of the chunk loop (a break, or the loop test becoming false) carries "<size> == 0", <size> being
    # the local that holds int(<size line>, 16) - `while True: .. if n == 0: break` and `while n != 0:` are the same
    from engine.cfg import Facts, _atoms
    la_d = local_assignments(dch.node)
    sizes = {nm for nm, vals in la_d.items() if any(isinstance(v, ast.Call) and call_name(v) == 'int' and len(v.args) == 2
                                                    for v in vals)}
    grown = True
    while grown:
        grown = False
        for nm, vals in la_d.items():
            if nm not in sizes and any(isinstance(v, ast.Name) and v.id in sizes for v in vals):
                sizes.add(nm)
                grown = True
    def _outermost(n):
        cur = getattr(n, '_parent', None)
        while cur is not None and cur is not dch.node:
            if isinstance(cur, (ast.While, ast.For)) and not getattr(cur, '_inline_wrapper', False):
                return False
            cur = getattr(cur, '_parent', None)
        return True
    main_loops = [n for n in walk_no_nested(dch.node) if isinstance(n, ast.While) and not getattr(n, '_inline_wrapper', False)
                  and _outermost(n)]
    exits = []
    for b in gd.nodes:
        if b.kind == 'break' and b.loops and b.loops[-1] in main_loops:
            exits.append(gd.facts_at(b))
        if b.kind == 'return' and any(lp in main_loops for lp in b.loops):   # `return b''.join(body)` from inside the loop
            exits.append(gd.facts_at(b))
        if b.kind == 'branch' and b.label is False and b.stmt in main_loops and not isinstance(b.test, ast.Constant):
            f = Facts()
            _atoms(b.test, False, f)
            f.resolved = list(f)
            exits.append(f)
    ok_r = len(main_loops) == 1 and bool(exits) and all(any((f'{v} == 0', True) in f for v in sizes) for f in exits)
    ctx.ob('C17.R4', 'terminating zero chunk', ok_w and ok_r,
           'mk_chunks returns exactly after writing an empty chunk; _read_dechunk stops exactly at a chunk of size 0',
           fi=mkc, witness={'writer_returns_after_empty_chunk': ok_w, 'reader_breaks_on_zero': ok_r})
    n_mk = 0
    for fi in repo.funcs.values():
        if not fi.module.name.startswith('sdc11073'):
            continue
        cs = calls_in(fi.node, 'mk_chunks')
        if not cs:
            continue
        g2 = cfg_of(fi)
        for n, c in g2.nodes_calling('mk_chunks'):
            n_mk += 1
            facts = g2.facts_at(n)
            ok = any(pol is True and txt.endswith('chunk_size > 0') for txt, pol in facts.both())
            ctx.ob('C17.R4', f'{fi.name}: {unparse(c)[:50]}', ok,
                   f'{fi.name}: chunked framing is used only when chunk_size > 0 (mk_chunks with size 0 would drop the '
                   f'body)', fi=fi, node=c, witness={'facts': facts})
    ctx.floor('C17.R4', n_mk, 4, 'mk_chunks call sites')


def _q_zero_excluded(fn):
    """The q value must reach a comparison against 0 that filters the returned codings.

    Decided on data dependence (engine/deps.py): the dict that records `float(<q>)` per coding is found by that store, the
    returned comprehension must carry a filter `X > 0` / `X != 0` / `0 < X` whose X depends on the parsed float - whatever
    the dict, the loop variables and intermediate lists are called."""
    from engine.deps import Deps
    dp = Deps(fn)
    qdicts = {n.targets[0].value.id for n in walk_no_nested(fn) if isinstance(n, ast.Assign)
              and isinstance(n.targets[0], ast.Subscript) and isinstance(n.targets[0].value, ast.Name)
              and 'call:float' in dp.sources(n.value)}
    if not qdicts:
        return False, 'no q-value is parsed (float(...)) into a per-coding record'

    def positive_test(cmp_):
        if len(cmp_.ops) != 1:
            return None
        op, l, r = cmp_.ops[0], cmp_.left, cmp_.comparators[0]
        if isinstance(r, ast.Constant) and r.value == 0 and isinstance(op, (ast.Gt, ast.NotEq)):
            return l
        if isinstance(l, ast.Constant) and l.value == 0 and isinstance(op, (ast.Lt, ast.NotEq)):
            return r
        return None
    for n in walk_no_nested(fn):
        if isinstance(n, ast.Return) and n.value is not None:
            comps = [x for x in ast.walk(n.value) if isinstance(x, (ast.ListComp, ast.GeneratorExp))]
            # the returned name may be bound to the comprehension
            if isinstance(n.value, ast.Name):
                comps += [x for v in dp.binds.get(n.value.id, []) for x in ast.walk(v)
                          if isinstance(x, (ast.ListComp, ast.GeneratorExp))]
            for comp in comps:
                for gen in comp.generators:
                    for cond in gen.ifs:
                        for cmp_ in [x for x in ast.walk(cond) if isinstance(x, ast.Compare)]:
                            x = positive_test(cmp_)
                            if x is None or 'call:float' not in dp.sources(gen.iter):
                                continue
                            # x must be the quality element of the (coding, quality) item the comprehension iterates over
                            t = gen.target
                            is_q = (isinstance(x, ast.Subscript) and isinstance(x.slice, ast.Constant) and x.slice.value == 1
                                    and isinstance(x.value, ast.Name) and isinstance(t, ast.Name) and x.value.id == t.id) or \
                                   (isinstance(x, ast.Name) and isinstance(t, ast.Tuple) and len(t.elts) == 2 and
                                    isinstance(t.elts[1], ast.Name) and t.elts[1].id == x.id)
                            if is_q:
                                return True, f'the returned list keeps only items with {unparse(cmp_)}'
    # alternative: entries are stored only when q > 0
    g = cfg_of_fn(fn)
    stores = [n for n in g.real_nodes() if n.kind == 'stmt' and isinstance(n.stmt, ast.Assign)
              and isinstance(n.stmt.targets[0], ast.Subscript) and unparse(n.stmt.targets[0].value) in qdicts]
    if stores and all(any(pol is True and (' > 0' in txt) for txt, pol in g.facts_at(s)) for s in stores):
        return True, 'codings are recorded only under a q > 0 test'
    return False, ('the q-value only orders the result; a coding refused with q=0 (e.g. "gzip;q=0") is returned as '
                   'acceptable and may be used for the response / for notifications')


def cfg_of_fn(fn):
    from engine.cfg import CFG
    return CFG(fn)


# ---------------------------------------------------------------------- self-test seeds
from selftest import seed  # noqa: E402

_C = 'src/sdc11073/httpserver/compression.py'
_H = 'src/sdc11073/httpserver/httprequesthandler.py'
_R = 'src/sdc11073/httpserver/httpreader.py'
_S = 'src/sdc11073/pysoap/soapclient.py'
SEEDS = [
    seed('response compressed without local support check', 'C17.R1',
         (_H, "            if enc in self.server.supported_encodings:\n                response_bytes = CompressionHandler.compress_payload(enc, response_bytes)\n                self.send_header('Content-Encoding', enc)\n                break",
          "            if enc:\n                response_bytes = CompressionHandler.compress_payload(enc, response_bytes)\n                self.send_header('Content-Encoding', enc)\n                break")),
    seed('response uses own list instead of the peer list', 'C17.R1',
         (_H, "        for enc in accepted_enc:", "        for enc in self.server.supported_encodings:")),
    seed('sync manager keeps the raw header', 'C17.R1',
         ('src/sdc11073/provider/subscriptionmgr.py', "        accepted_encodings = CompressionHandler.parse_header(request_data.http_header.get('Accept-Encoding'))", "        accepted_encodings = (request_data.http_header.get('Accept-Encoding') or '').split(',')")),
    seed('client announces a different coding', 'C17.R1',
         (_S, "                    xml = CompressionHandler.compress_payload(compr, xml)\n                    headers['Content-Encoding'] = compr", "                    xml = CompressionHandler.compress_payload(compr, xml)\n                    headers['Content-Encoding'] = self.request_encodings[0]")),
    seed('q=0 accepted again', 'C17.R2',
         (_C, "reverse=True) if pair[1] > 0]", "reverse=True)]")),
    seed('q filter on the wrong element', 'C17.R2', (_C, "if pair[1] > 0]", "if len(pair[0]) > 0]")),
    seed('request body decompressed whatever the coding', 'C17.R3',
         (_R, "            if actual_enc in supported_encs:\n                http_body = CompressionHandler.decompress_payload(actual_enc, http_body)\n            else:\n                raise DecompressError(f'content-encoding \"{actual_enc}\" is not supported', )",
          "            http_body = CompressionHandler.decompress_payload(actual_enc, http_body)")),
    seed('unsupported response coding passed through', 'C17.R3',
         (_R, "            else:\n                raise DecompressError(f'content-encoding \"{actual_enc}\" is not supported')\n        return http_body", "        return http_body")),
    seed('gzip decoded with an unchecked streaming object', 'C17.R3',
         (_C, "        return zlib.decompress(payload, 16 + zlib.MAX_WBITS)", "        dec = zlib.decompressobj(16 + zlib.MAX_WBITS)\n        return dec.decompress(payload) + dec.flush()")),
    seed('chunk sizes written in decimal', 'C17.R4', (_R, "{len(head):x}", "{len(head):d}")),
    seed('terminator test inverted', 'C17.R4', (_R, "        if not head:\n            return data.getvalue()", "        if not tail:\n            return data.getvalue()")),
    seed('client chunks whenever a size is configured', 'C17.R4',
         (_S, "        if self._chunk_size > 0:\n            headers['transfer-encoding'] = 'chunked'", "        if self._chunk_size is not None:\n            headers['transfer-encoding'] = 'chunked'")),
    seed('control: rename loop variable in handler', 'C17.R1',
         (_H, "        for enc in accepted_enc:\n            if enc in self.server.supported_encodings:\n                response_bytes = CompressionHandler.compress_payload(enc, response_bytes)\n                self.send_header('Content-Encoding', enc)",
          "        for coding in accepted_enc:\n            if coding in self.server.supported_encodings:\n                response_bytes = CompressionHandler.compress_payload(coding, response_bytes)\n                self.send_header('Content-Encoding', coding)"), control=True),
]
