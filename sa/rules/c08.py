"""C08 - WS-Eventing subscriptions deliver exactly while alive and end cleanly.

Decided (structural necessary conditions):
  R1 GUARD+SIBLINGS: every call that puts a notification on the wire is dominated by the liveness test
     (is_valid) and by `unsubscribed_at is None`, in the sync and in the async sender; recipients are
     selected by matches(action).
  R2 ABS bool: is_valid is true exactly for (not closed, remaining > 0, no delivery failure);
     has_delivery_failure is notify_errors >= MAX_NOTIFY_ERRORS; every exceptional exit of the senders
     counts an error and re-raises, success resets the counter.
  R3 expiry: renew() stores min(requested, maximum) or the maximum, on a monotonic clock;
     remaining_seconds is max(expire - elapsed, 0); the three responses report remaining_seconds.
  R4 unknown (or already unsubscribed) subscription => fault and no effect.
  R5 exactly one SubscriptionEnd, to EndTo else NotifyTo, only for live subscriptions, under the
     send_subscription_end switch; the table is cleared afterwards.
  R6 the suffix match of the action filter equals membership (no action URI is a proper suffix of another).
"""
from __future__ import annotations

import ast

from engine.absint import bool_table, int_eval
from engine.cfg import call_name, cfg_of
from engine.errors import AnalysisError
from engine.repo import walk_no_nested
from engine.util import calls_in, unparse, xsrc

ID = 'C08'
SB = 'sdc11073.provider.subscriptionmgr_base'
SENDERS = [('sdc11073.provider.subscriptionmgr.BicepsSubscription.send_notification_report', 'post_message_to'),
           ('sdc11073.provider.subscriptionmgr_async.BicepsSubscriptionAsync.async_send_notification_report',
            'async_post_message_to')]
END_SENDERS = [(f'{SB}.SubscriptionBase.send_notification_end_message', 'post_message_to'),
               ('sdc11073.provider.subscriptionmgr_async.BicepsSubscriptionAsync.async_send_notification_end_message',
                'async_post_message_to')]


def duration_fraction_is_decimal(ctx, rule):
    """C08.R3 part, shared with C18 (durations round-trip within the microsecond resolution)."""
    repo = ctx.repo
    # the requested duration is parsed as a decimal number of seconds: the fraction digits are never read as an integer count
    pd = repo.func('sdc11073.xml_types.isoduration.parse_duration')
    from engine.deps import Deps
    dpd = Deps(pd.node)
    bad = [unparse(c) for c in calls_in(pd.node, 'int') if c.args and any(
        'fraction' in s_ for s_ in dpd.sources(c.args[0]) | {unparse(c.args[0])})]
    ctx.ob(rule, 'fraction of a duration is a decimal fraction', not bad,
           'parse_duration reads seconds and fraction as one decimal number' if not bad else
           f'parse_duration converts the fraction digits with {bad[0]}: more than six digits (PT1.500000000S) become a '
           f'microsecond count far above one second - the granted expiry exceeds the requested one', fi=pd)


def pool_user_released_under_its_netloc(ctx, rule):
    """The subscription registers itself with the connection pool under the NotifyTo net location (the default of
    _get_soap_client, used for every notification) - and that is the key it is released under when the subscription ends.
    Released under another key, the client of the ended subscription (with the codings negotiated for it, and possibly a broken
    connection) stays in the pool and is handed to the next subscription of that host."""
    repo = ctx.repo
    gs = repo.func(f'{SB}.SubscriptionBase._get_soap_client')
    acq = [c for c in calls_in(gs.node, 'get_soap_client') if c.args]
    if not acq:
        raise AnalysisError(f'{rule}: _get_soap_client does not ask the pool any more')
    a0 = acq[0].args[0]
    default = a0.values[-1] if isinstance(a0, ast.BoolOp) and isinstance(a0.op, ast.Or) else \
        a0.orelse if isinstance(a0, ast.IfExp) else a0
    want = unparse(default)
    cl = repo.func(f'{SB}.SubscriptionBase.close_by_subscription_manager')
    g = cfg_of(cl)
    rel = [(n, c) for n, c in g.nodes_calling('forget_usr') if c.args]
    got = [g.symbolic_text(n, c.args[0]) for n, c in rel]
    got += [unparse(g.origin_expr(n, c.args[0]) or c.args[0]) for n, c in rel]
    ok = bool(rel) and all(want in (g.symbolic_text(n, c.args[0]), unparse(g.origin_expr(n, c.args[0]) or c.args[0])) for n, c in rel)
    ctx.ob(rule, 'pool user released under the NotifyTo net location', ok,
           f'close_by_subscription_manager releases the pooled client under {want}, the key it was obtained under' if ok else
           f'close_by_subscription_manager releases the pooled client under {sorted(set(got))}, but notifications obtain it under '
           f'{want}: when the two differ (EndTo on another host) the client of the ended subscription stays in the pool; the next '
           f'subscription of that NotifyTo host is served through it - with the content codings negotiated for the old one', fi=cl)


def run(ctx):  # noqa: C901, PLR0912, PLR0915
    repo = ctx.repo
    ctx.rule('C08.R1', 'send dominated by is_valid and unsubscribed_at is None (both senders); recipients by matches()')
    ctx.rule('C08.R2', 'truth table of is_valid; failure limit; error counters on every exceptional exit')
    ctx.rule('C08.R3', 'granted expiry = min(requested, maximum); remaining time monotonic, never negative, reported')
    ctx.rule('C08.R4', 'unknown / unsubscribed subscription => Fault, no store or call on a subscription')
    ctx.rule('C08.R5', 'one SubscriptionEnd per live subscription to EndTo else NotifyTo; switchable; table cleared')
    ctx.rule('C08.R6', 'endswith-filter equals membership over the declared action URIs')

    # ------------------------------------------------------------------ R1
    for q, post in SENDERS:
        fi = repo.func(q)
        g = cfg_of(fi)
        posts = g.nodes_calling(post)
        if not posts:
            raise AnalysisError(f'C08.R1: {post} not found in {q}')
        for n, c in posts:
            facts = g.facts_at(n)
            valid = ('self.is_valid', True) in facts
            unsub = ('self.unsubscribed_at is None', True) in facts
            ctx.ob('C08.R1', f'{fi.name}: {post} guarded', valid and unsub,
                   f'{fi.cls.name}.{fi.name}: the notification is put on the wire only if the subscription is valid '
                   f'and not unsubscribed' if valid and unsub else
                   f'{fi.cls.name}.{fi.name}: {post}() is reached with is_valid checked={valid}, unsubscribed checked='
                   f'{unsub}: between Unsubscribe and the next housekeeping run (up to 2 s) reports are still sent to '
                   f'a subscriber that ended its subscription' if valid else
                   f'{fi.cls.name}.{fi.name}: {post}() is not dominated by the liveness test', fi=fi, node=c,
                   witness={'facts': facts})
    sel = repo.func(f'{SB}.SubscriptionsManagerBase._get_subscriptions_for_action')
    comp = [n for n in ast.walk(sel.node) if isinstance(n, ast.ListComp)]
    ok = bool(comp) and len(comp[0].generators) == 1 and len(comp[0].generators[0].ifs) == 1 and \
        isinstance(comp[0].generators[0].ifs[0], ast.Call) and call_name(comp[0].generators[0].ifs[0]) == 'matches' and \
        unparse(comp[0].generators[0].ifs[0].func.value) == unparse(comp[0].generators[0].target) and \
        [unparse(a) for a in comp[0].generators[0].ifs[0].args] == ['action'] and \
        unparse(comp[0].elt) == unparse(comp[0].generators[0].target) and \
        '_subscriptions.objects' in unparse(comp[0].generators[0].iter)
    ctx.ob('C08.R1', 'recipients by filter', ok,
           'recipients are all stored subscriptions whose filter matches the action', fi=sel)
    for q in (f'{SB}.SubscriptionsManagerBase.send_to_subscribers',
              'sdc11073.provider.subscriptionmgr_async.BICEPSSubscriptionsManagerBaseAsync.send_to_subscribers'):
        fi = repo.func(q)
        # the local that holds the selection, and the iteration constructs (for loop or comprehension) over it that send
        sel_vars = [n.targets[0].id for n in walk_no_nested(fi.node) if isinstance(n, ast.Assign)
                    and isinstance(n.targets[0], ast.Name) and isinstance(n.value, ast.Call)
                    and call_name(n.value) == '_get_subscriptions_for_action'
                    and [unparse(a) for a in n.value.args] == ['action']]
        ok = len(sel_vars) == 1
        sending = []
        if ok:
            def _sends(node):
                return any(isinstance(c, ast.Call) and 'send_notification_report' in (call_name(c) or '')
                           for c in ast.walk(node))
            for n in walk_no_nested(fi.node):
                if isinstance(n, ast.For) and unparse(n.iter) == sel_vars[0] and _sends(n):
                    sending.append(n)
                if isinstance(n, (ast.ListComp, ast.GeneratorExp, ast.SetComp)) and len(n.generators) == 1 and \
                        unparse(n.generators[0].iter) == sel_vars[0] and not n.generators[0].ifs and _sends(n.elt):
                    sending.append(n)
        ok = ok and len(sending) == 1
        ctx.ob('C08.R1', f'{fi.cls.name}.send_to_subscribers', ok,
               'send_to_subscribers sends once to every selected subscriber and to nobody else', fi=fi)
    # matches()
    mt = repo.func(f'{SB}.ActionBasedSubscription.matches')
    src = xsrc(mt)
    ctx.ob('C08.R1', 'matches', 'any(' in src and 'endswith(action)' in src and 'self.actions_filter' in src,
           'matches() is true iff one filter entry ends with the action', fi=mt)

    # ------------------------------------------------------------------ R2
    iv = repo.func(f'{SB}.SubscriptionBase.is_valid')
    atoms = ['self._is_closed', 'self.remaining_seconds > 0', 'self.has_delivery_failure']
    tab = bool_table(iv.node, atoms)
    good = all(bool(res) == ((not c) and r and (not f)) for (c, r, f), res in tab.items())
    ctx.ob('C08.R2', 'is_valid truth table', good,
           'is_valid is true exactly for (not closed, remaining > 0, no delivery failure) - all 8 valuations',
           fi=iv, witness={str(k): v for k, v in tab.items()})
    hf = repo.func(f'{SB}.SubscriptionBase.has_delivery_failure')
    rets = [n for n in walk_no_nested(hf.node) if isinstance(n, ast.Return)]
    ok = len(rets) == 1 and unparse(rets[0].value) == 'self.notify_errors >= self.MAX_NOTIFY_ERRORS'
    ctx.ob('C08.R2', 'failure limit', ok, 'has_delivery_failure is notify_errors >= MAX_NOTIFY_ERRORS', fi=hf)
    for q, post in SENDERS:
        fi = repo.func(q)
        handlers = [h for h in ast.walk(fi.node) if isinstance(h, ast.ExceptHandler)]
        outer = [h for h in handlers if not ('CollectTimeoutError' in unparse(h.type) if h.type else False)]
        ok = bool(outer)
        for h in outer:
            inc = any(isinstance(s, ast.AugAssign) and unparse(s.target) == 'self.notify_errors' and
                      isinstance(s.op, ast.Add) for s in h.body)
            rer = any(isinstance(s, ast.Raise) and s.exc is None for s in h.body)
            ok = ok and inc and rer
        has_catch_all = any(h.type is None or 'Exception' in unparse(h.type) for h in outer)
        ctx.ob('C08.R2', f'{fi.name}: errors counted', ok and has_catch_all,
               f'{fi.cls.name}.{fi.name}: every exceptional exit increments notify_errors and re-raises (incl. a '
               f'catch-all)', fi=fi, witness=[unparse(h.type) if h.type else 'bare' for h in outer])
        g = cfg_of(fi)
        posts = g.nodes_calling(post)
        resets = [n for n in g.real_nodes() if n.kind == 'stmt' and unparse(n.stmt) == 'self.notify_errors = 0']
        ok = bool(resets) and all(any(g.dominates(p, r) for p, _ in posts) for r in resets)
        ctx.ob('C08.R2', f'{fi.name}: success resets', ok,
               f'{fi.cls.name}.{fi.name}: the error counter is reset only after a completed post', fi=fi)

    # ------------------------------------------------------------------ R3
    rn = repo.func(f'{SB}.SubscriptionBase.renew')
    # the two private attributes are found by role: the one that gets time.monotonic() is the start of the period, the other
    # self attribute renew() assigns is the granted duration
    started = [unparse(n.targets[0]) for n in walk_no_nested(rn.node) if isinstance(n, ast.Assign)
               and unparse(n.value) == 'time.monotonic()' and unparse(n.targets[0]).startswith('self.')]
    granted = sorted({unparse(n.targets[0]) for n in walk_no_nested(rn.node) if isinstance(n, ast.Assign)
                      and unparse(n.targets[0]).startswith('self.') and unparse(n.targets[0]) not in started})
    if len(started) != 1 or len(granted) != 1:
        raise AnalysisError(f'C08.R3: renew() does not assign one start attribute and one duration attribute '
                            f'(start {started}, others {granted})')
    a_start, a_dur = started[0], granted[0]
    cases = {'below': (10, 100), 'equal': (100, 100), 'above': (500, 100), 'none': (None, 100), 'zero': (0, 100)}
    ok = True
    wit = {}
    for name, (exp, mx) in cases.items():
        _ret, loc = int_eval(rn.node, {'expires': exp, 'self._max_subscription_duration': mx, 'time.monotonic()': 1000})
        got = loc.get(a_dur)
        want = min(exp, mx) if exp else mx
        wit[name] = {'expires': exp, 'max': mx, 'granted': got}
        ok = ok and got == want and got <= mx and (not exp or got <= exp)
        ok = ok and loc.get(a_start) == 1000
    ctx.ob('C08.R3', 'renew bounded', ok,
           'renew(): granted duration = min(requested, maximum) (maximum if none requested), start on the monotonic '
           'clock - evaluated for requested <, =, > maximum, None and 0', fi=rn, witness=wit)
    rs = repo.func(f'{SB}.SubscriptionBase.remaining_seconds')
    ok = True
    wit = {}
    for name, (dur, start, now) in {'fresh': (100, 1000, 1000), 'half': (100, 1000, 1050.25), 'due': (100, 1000, 1100),
                                    'overdue': (100, 1000, 1300)}.items():
        ret, _loc = int_eval(rs.node, {a_dur: dur, a_start: start, 'time.monotonic()': now})
        want = max(round(dur - (now - start), 2), 0)
        wit[name] = {'returned': ret, 'expected': want}
        ok = ok and ret == want
    ctx.ob('C08.R3', 'remaining_seconds', ok,
           'remaining_seconds = max(granted - (monotonic now - start), 0), rounded to 1/100 s - evaluated before, during, at '
           'and after the end of the period', fi=rs, witness=wit)
    n_resp = 0
    for hname, resp in (('_mk_subscribe_response_message', 'subscribe_response'),
                        ('on_get_status_request', 'get_status_response'), ('on_renew_request', 'renew_response')):
        fi = repo.func(f'{SB}.SubscriptionsManagerBase.{hname}')
        ok = any(isinstance(n, ast.Assign) and unparse(n.targets[0]) == f'{resp}.Expires' and
                 unparse(n.value) == 'subscription.remaining_seconds' for n in walk_no_nested(fi.node))
        n_resp += 1
        ctx.ob('C08.R3', f'{hname}: Expires', ok, f'{hname} reports subscription.remaining_seconds as Expires', fi=fi)
    rq = repo.func(f'{SB}.SubscriptionsManagerBase.on_renew_request')
    g = cfg_of(rq)
    ren = g.nodes_calling('renew')
    exps = [n for n in g.real_nodes() if n.kind == 'stmt' and 'renew_response.Expires' in unparse(n.stmt)]
    ctx.ob('C08.R3', 'renew before report', bool(ren) and bool(exps) and all(g.dominates(ren[0][0], e) for e in exps),
           'on_renew_request renews first and reports the remaining time afterwards', fi=rq)
    # the constructor goes through renew, too
    init = repo.func(f'{SB}.SubscriptionBase.__init__')
    ctx.ob('C08.R3', 'initial expiry through renew', 'self.renew(subscribe_request.Expires)' in xsrc(init),
           'the initial expiry is computed by renew(subscribe_request.Expires)', fi=init)

    # ------------------------------------------------------------------ R4
    for hname in ('on_unsubscribe_request', 'on_get_status_request', 'on_renew_request'):
        fi = repo.func(f'{SB}.SubscriptionsManagerBase.{hname}')
        g = cfg_of(fi)
        # the local that holds the looked-up subscription, whatever it is called
        holders = []
        for n, _c in g.nodes_calling('_get_subscription_for_request'):
            tg = n.stmt.targets[0] if isinstance(n.stmt, ast.Assign) else getattr(n.stmt, 'target', None)
            if n.kind == 'stmt' and isinstance(tg, ast.Name):
                holders.append(tg.id)
        if len(holders) != 1:
            raise AnalysisError(f'C08.R4: {hname} does not bind the result of _get_subscription_for_request to one local')
        sv = holders[0]
        none_nodes = [n for n in g.real_nodes() if (f'{sv} is None', True) in g.facts_at(n)]
        some_nodes = [n for n in g.real_nodes() if (f'{sv} is None', False) in g.facts_at(n)]
        if not none_nodes or not some_nodes:
            raise AnalysisError(f'C08.R4: {hname} has no `subscription is None` branch')
        fault = any(call_name(c) == 'Fault' for n in none_nodes for c in n.calls()) and \
            any(call_name(c) == 'mk_reply_soap_message' and len(c.args) >= 2 and unparse(c.args[1]) == 'fault'
                for n in none_nodes for c in n.calls())
        touches = [n for n in none_nodes for a in n.walk()
                   if isinstance(a, ast.Attribute) and isinstance(a.value, ast.Name) and a.value.id == sv]
        ctx.ob('C08.R4', f'{hname}: unknown => fault', fault and not touches,
               f'{hname}: an unknown subscription is answered with a Fault and nothing is done with it', fi=fi)
        # all effects on the subscription are in the other branch
        eff = []
        for n in g.real_nodes():
            for a in n.walk():
                if isinstance(a, ast.Attribute) and isinstance(a.value, ast.Name) and a.value.id == sv and \
                        (isinstance(a.ctx, ast.Store) or a.attr == 'renew'):
                    eff.append(n)
        ok = all((f'{sv} is None', False) in g.facts_at(n) for n in eff)
        ctx.ob('C08.R4', f'{hname}: effects only on a known subscription', ok,
               f'{hname}: every effect on the subscription is dominated by `subscription is not None`', fi=fi,
               witness=[n.text()[:60] for n in eff])
        lk = [c for c in calls_in(fi.node, '_get_subscription_for_request')]
        ctx.ob('C08.R4', f'{hname}: lookup', len(lk) == 1, f'{hname} resolves the subscription through '
               f'_get_subscription_for_request', fi=fi)
    gs = repo.func(f'{SB}.SubscriptionsManagerBase._get_subscription_for_request')
    g = cfg_of(gs)
    # abstract values of the looked-up subscription: NONE (not in the table), ACTIVE (unsubscribed_at is None), ENDED
    # (Unsubscribe was accepted, it waits for housekeeping).  No return may hand out ENDED - however the test is written.
    from engine import enumval
    lookups = [n for n in g.real_nodes() if n.kind == 'stmt' and isinstance(n.stmt, ast.Assign)
               and isinstance(n.stmt.targets[0], ast.Name) and '_subscriptions' in unparse(n.stmt.value)
               and any(call_name(c) in ('get_one', 'get') for c in n.calls())]
    if len(lookups) != 1:
        raise AnalysisError(f'C08.R4: expected one subscription lookup in _get_subscription_for_request, found {len(lookups)}')
    var = lookups[0].stmt.targets[0].id

    def _assign(v):
        if isinstance(v, ast.Constant) and v.value is None:
            return {'NONE'}
        return None

    def _atom(value, text):
        table = {'$v is None': {'NONE': True, 'ACTIVE': False, 'ENDED': False},
                 '$v': {'NONE': False, 'ACTIVE': True, 'ENDED': True},
                 '$v.unsubscribed_at is None': {'NONE': None, 'ACTIVE': True, 'ENDED': False},
                 '$v.unsubscribed_at': {'NONE': None, 'ACTIVE': False, 'ENDED': None}}
        return table.get(text, {}).get(value)
    st = enumval.analyse(g, var, ('NONE', 'ACTIVE', 'ENDED'), _assign, _atom)
    leaked = []
    n_ret = 0
    for n in g.nodes:
        if n.kind != 'return' or n.stmt.value is None:
            continue
        n_ret += 1
        v = n.stmt.value
        if isinstance(v, ast.Constant) and v.value is None:
            continue
        if isinstance(v, ast.Name) and v.id == var:
            if 'ENDED' in st[n.id]:
                leaked.append(f'return {var} at line {n.lineno} with {sorted(st[n.id])}')
        else:
            leaked.append(f'return {unparse(v)} at line {n.lineno}')
    ok = n_ret > 0 and not leaked
    ctx.ob('C08.R4', 'unsubscribed is unknown', ok,
           '_get_subscription_for_request treats an already unsubscribed subscription as unknown' if ok else
           '_get_subscription_for_request still returns a subscription after Unsubscribe was accepted (it stays in the '
           'table until housekeeping removes it): Renew / GetStatus / a second Unsubscribe for it succeed instead of '
           'being answered with a fault', fi=gs, witness=leaked)

    # the filter is an xs:list: tokens are separated by any white space (split() without separator)
    ab = repo.func(f'{SB}.ActionBasedSubscription.__init__')
    splits = [c for c in calls_in(ab.node, 'split') if 'filter_type.text' in unparse(c.func)]
    ok = bool(splits) and all(not c.args and not c.keywords for c in splits) and \
        not [c for c in calls_in(ab.node) if call_name(c) in ('partition', 'rpartition', 'splitlines') and 'filter_type' in unparse(c.func)]
    ctx.ob('C08.R6', 'filter tokenised on any white space', ok,
           'the Filter text is split on arbitrary white space (xs:list of action URIs)' if ok else
           'the Filter text is split on one fixed separator: a subscriber that separates the action URIs with new lines or '
           'tabs (legal for an xs:list) is accepted but matches no report', fi=ab)
    from .c09 import gathers_isolate_subscribers
    gathers_isolate_subscribers(ctx, 'C08.R2')
    # whatever makes a delivery fail is counted: the handler that counts the error in the senders is a catch-all (a timeout, an
    # unreachable host, a name that does not resolve are OSErrors that are no ConnectionError)
    for q_snd, _post in SENDERS:
        sfi = repo.func(q_snd)
        hs_ = [h for h in walk_no_nested(sfi.node) if isinstance(h, ast.ExceptHandler) and
               any(isinstance(x, ast.AugAssign) and 'notify_errors' in unparse(x.target) for b in h.body for x in ast.walk(b))]
        wide = [h for h in hs_ if h.type is None or unparse(h.type).split('.')[-1] in ('Exception', 'BaseException')]
        ctx.ob('C08.R2', f'{sfi.cls.name}: every failure is counted', bool(wide),
               f'{sfi.name} counts a delivery failure for every exception of the post' if wide else
               f'{sfi.name} counts delivery failures only for {[unparse(h.type) for h in hs_]}: a connect timeout (TimeoutError) or an '
               f'unreachable host (OSError) passes uncounted, the dead subscriber never reaches the failure limit', fi=sfi)
    # a delivery that the subscriber answers with an HTTP error is a failed delivery whatever the body says: in the sync soap
    # client every path from "status >= 300" ends in a raise (the senders count the error from that exception)
    for q_sr in ('sdc11073.pysoap.soapclient.SoapClient._send_soap_request',
                 'sdc11073.pysoap.soapclient_async.SoapClientAsync.async_post_message_to'):
        sr = repo.func(q_sr)
        gsr = cfg_of(sr)
        errs = [b for b in gsr.nodes if b.kind == 'branch' and b.label is True and b.test is not None and
                'status' in unparse(b.test) and any(isinstance(k, ast.Constant) and k.value in (299, 300, 400)
                                                   for k in ast.walk(b.test))]
        rz_ = [n for n in gsr.nodes if n.kind == 'raisestmt']
        leak = [b for b in errs if gsr.path_exists(b, gsr.exit, avoid=rz_, normal_only=True)]
        ok_sr = bool(errs) and not leak
        ctx.ob('C08.R2', f'{sr.cls.name}: an HTTP error status always raises', ok_sr,
               f'{sr.cls.name}.{sr.name} raises on every path after an HTTP error status' if ok_sr else
               f'{sr.cls.name}.{sr.name} ' + ('never looks at the HTTP status of the answer' if not errs else
                                             'can return normally after an HTTP error status (e.g. for an empty body)') +
               ': the notification counts as delivered, the failure limit is never reached and the dead subscriber keeps being '
               'sent to', fi=sr, node=leak[0].test if leak else None)
    # the async client bounds the whole exchange: a timeout on the connect phase alone leaves send_to_subscribers waiting for
    # ever for a subscriber that accepts the connection and never answers (under the subscriptions lock)
    mkh = repo.func('sdc11073.pysoap.soapclient_async.SoapClientAsync._mk_http_connection')
    cts = calls_in(mkh.node, 'ClientTimeout')
    okt = bool(cts) and all((c.args and not (isinstance(c.args[0], ast.Constant) and c.args[0].value is None)) or
                            any(k.arg == 'total' and not (isinstance(k.value, ast.Constant) and k.value.value is None)
                                for k in c.keywords) for c in cts)
    ctx.ob('C08.R2', 'async client: total timeout', okt,
           'the aiohttp session of the async soap client has a total timeout' if okt else
           f'the aiohttp session is created with {[unparse(c) for c in cts]}: no total timeout - a subscriber that accepts the '
           f'connection and never answers is never counted as failed and blocks every later notification', fi=mkh)
    from . import common
    # a log call that raises while notifications go out skips the remaining subscribers / corrupts the error count
    common.log_templates_are_constant(ctx, 'C08.R2', ['sdc11073.provider.subscriptionmgr', 'sdc11073.pysoap.soapclient',
                                                      'sdc11073.provider.dpwshostedservice', 'sdc11073.consumer.subscription'])
    common.no_mutation_while_iterating(ctx, 'C08.R1', ['sdc11073.provider.subscriptionmgr', 'sdc11073.pysoap.soapclientpool'])
    duration_fraction_is_decimal(ctx, 'C08.R3')
    # ------------------------------------------------------------------ R5
    for q in (f'{SB}.SubscriptionsManagerBase._end_all_subscriptions',
              'sdc11073.provider.subscriptionmgr_async.BICEPSSubscriptionsManagerBaseAsync._end_all_subscriptions'):
        fi = repo.func(q)
        g = cfg_of(fi)
        sends = [(n, a) for n, a in g.nodes_where(lambda a: isinstance(a, ast.Call) and call_name(a) in
                                                  ('send_notification_end_message', 'async_send_notification_end_message'))]
        if not sends:
            raise AnalysisError(f'C08.R5: no end message call in {q}')
        src = xsrc(fi)
        for n, c in sends:
            facts = g.facts_at(n)
            switch = ('send_subscription_end', True) in facts
            live = 'unsubscribed_at is None' in src
            ctx.ob('C08.R5', f'{fi.cls.name}: end message', switch and live,
                   f'{fi.cls.name}._end_all_subscriptions: end messages only under send_subscription_end and only for '
                   f'subscriptions that were not unsubscribed', fi=fi, node=c, witness={'facts': facts})
        clears = g.nodes_calling('clear')
        closes = [n for n, a in g.nodes_where(lambda a: isinstance(a, ast.Call) and
                                              call_name(a) == 'close_by_subscription_manager')]
        ok = bool(clears) and bool(closes) and all(g.dominates(s, clears[0][0]) or not g.reaches(clears[0][0], s)
                                                   for s, _ in sends) and \
            not any(g.reaches(clears[0][0], s) for s, _ in sends)
        ctx.ob('C08.R5', f'{fi.cls.name}: close and clear after sending', ok,
               'all subscriptions are closed and the table is cleared after the end messages were sent', fi=fi)
    for q, post in END_SENDERS:
        fi = repo.func(q)
        src = xsrc(fi)
        g = cfg_of(fi)
        posts = g.nodes_calling(post)
        clients = g.nodes_calling('_get_soap_client')
        # symbolic expansion: the locals between the attributes and the calls do not matter
        p_sym = [g.symbolic_text(n, c.args[0]) for n, c in posts if c.args]
        c_sym = [g.symbolic_text(n, c.args[0]) for n, c in clients if c.args]
        hdr = [(n, c) for n in g.real_nodes() for c in n.calls() if any(k.arg == 'addr_to' for k in c.keywords)]
        ok = len(hdr) == 1 and len(posts) == 1 and len(clients) == 1 and bool(posts[0][1].args) and bool(clients[0][1].args)
        if ok:
            hn, hc = hdr[0]
            kws = {k.arg: k.value for k in hc.keywords}
            pa, ca = posts[0][1].args[0], clients[0][1].args[0]
            ok = 'reference_parameters' in kws and \
                _first_else_second(g, hn, kws['addr_to'], 'self.end_to_address', 'self.notify_to_address') and \
                _first_else_second(g, hn, kws['reference_parameters'], 'self.end_to_ref_params', 'self.notify_ref_params') and \
                isinstance(pa, ast.Attribute) and pa.attr == 'path' and isinstance(ca, ast.Attribute) and ca.attr == 'netloc' and \
                _first_else_second(g, posts[0][0], pa.value, 'self._end_to_url', 'self.notify_to_url') and \
                _first_else_second(g, clients[0][0], ca.value, 'self._end_to_url', 'self.notify_to_url')
        ctx.ob('C08.R5', f'{fi.name}: EndTo first', ok,
               f'{fi.cls.name}.{fi.name}: address, reference parameters and connection are EndTo if given, else NotifyTo',
               fi=fi)
        g = cfg_of(fi)
        posts = g.nodes_calling(post)
        ok = bool(posts) and all(('self.is_valid', True) in g.facts_at(n) for n, _ in posts) and len(posts) == 1 and \
            not posts[0][0].loops
        ctx.ob('C08.R5', f'{fi.name}: once, only if valid', ok,
               f'{fi.cls.name}.{fi.name}: exactly one post, only for a valid subscription', fi=fi)
        # the posted path and the client netloc come from the same url
        ok = len(p_sym) == 1 and len(c_sym) == 1 and p_sym[0].endswith('.path') and c_sym[0].endswith('.netloc') and \
            p_sym[0][:-len('.path')] == c_sym[0][:-len('.netloc')]
        ctx.ob('C08.R5', f'{fi.name}: connection and path agree', ok,
               'the end message is posted to the path of the url whose netloc selected the client', fi=fi)
    sa = repo.func(f'{SB}.SubscriptionsManagerBase.stop_all')
    ctx.ob('C08.R5', 'stop_all passes the switch', '_end_all_subscriptions(send_subscription_end)' in xsrc(sa),
           'stop_all forwards send_subscription_end', fi=sa)
    init = repo.func(f'{SB}.SubscriptionBase.__init__')
    src = xsrc(init)
    ok = 'self.end_to_address = subscribe_request.EndTo.Address' in src and \
        'self.end_to_ref_params = subscribe_request.EndTo.ReferenceParameters' in src and \
        'self.notify_to_address = subscribe_request.Delivery.NotifyTo.Address' in src
    ctx.ob('C08.R5', 'EndTo / NotifyTo taken from the request', ok,
           'the subscription stores EndTo and NotifyTo of the Subscribe request', fi=init)

    # the connection pool forgets a client together with its last user: a later subscription of the same NotifyTo host
    # gets a new client, never the closed (and, after a broken connection, error-latched) one of an ended subscription
    fu = repo.func('sdc11073.pysoap.soapclientpool.SoapClientPool.forget_usr')
    gf = cfg_of(fu)
    from .c01 import _nonempty_fact
    removes = [n for n, c in gf.nodes_calling('remove') if 'usr_idents' in unparse(c.func)]
    pops = [n for n in gf.real_nodes() if
            any(call_name(c) in ('pop', '__delitem__') and '_soap_clients' in unparse(c.func) for c in n.calls()) or
            (n.kind == 'stmt' and isinstance(n.stmt, ast.Delete) and '_soap_clients' in unparse(n.stmt))]
    users_left = [b for b in gf.nodes if b.kind == 'branch' and b.test is not None and 'usr_idents' in unparse(b.test) and
                  _nonempty_fact(unparse(b.test), b.label)]
    if not removes:
        raise AnalysisError('C08.R5: forget_usr does not remove the user from entry.usr_idents any more')
    stale = [r for r in removes if gf.path_exists(r, gf.exit, avoid=pops + users_left, normal_only=True)]
    ctx.ob('C08.R5', 'pool entry ends with its last user', bool(pops) and not stale,
           'forget_usr: once the last user of a net location is gone the entry leaves the pool on every path' if pops and not stale
           else 'forget_usr: a path from the removal of the last user to the end of the function leaves the entry (and its '
           'closed client) in the pool: the next subscription with the same NotifyTo host:port is given the closed client, its '
           'first notification fails without touching the network and it is dropped as undeliverable', fi=fu,
           node=stale[0].stmt if stale else None)

    pool_user_released_under_its_netloc(ctx, 'C08.R5')
    # the subscription asks the pool every time: the client it gets depends on the net location it asks for (EndTo may live on
    # another host than NotifyTo) - a client remembered from the first call answers for the wrong host
    gsc = repo.func(f'{SB}.SubscriptionBase._get_soap_client')
    stores_ = [unparse(t) for x in walk_no_nested(gsc.node) if isinstance(x, (ast.Assign, ast.AnnAssign, ast.AugAssign))
               for t in (x.targets if isinstance(x, ast.Assign) else [x.target]) if unparse(t).startswith('self.')]
    rets_ = [r.value for r in walk_no_nested(gsc.node) if isinstance(r, ast.Return) and r.value is not None]
    from_pool = bool(rets_) and all(isinstance(v, ast.Call) and call_name(v) == 'get_soap_client' for v in rets_)
    ctx.ob('C08.R5', '_get_soap_client asks the pool on every call', not stores_ and from_pool,
           '_get_soap_client returns what the pool has for the requested net location, every time' if not stores_ and from_pool else
           f'_get_soap_client keeps / returns a remembered client ({stores_ or [unparse(v)[:40] for v in rets_]}): after the first '
           f'notification the SubscriptionEnd for an EndTo on another host is posted to the NotifyTo host', fi=gsc)
    # ------------------------------------------------------------------ R6
    ac = repo.cls('sdc11073.xml_types.actions.Actions')
    tails = {}
    prefixes = set()
    for st in ac.node.body:
        if isinstance(st, ast.Assign) and isinstance(st.value, ast.BinOp) and isinstance(st.value.op, ast.Add) and \
                isinstance(st.value.right, ast.Constant):
            tails[st.targets[0].id] = st.value.right.value
            prefixes.add(unparse(st.value.left))
    ctx.floor('C08.R6', len(tails), 40, 'action URIs')
    clash = [(a, b) for a, ta in tails.items() for b, tb in tails.items() if a != b and tb.endswith(ta)]
    ctx.ob('C08.R6', 'no action is a suffix of another', not clash and len(prefixes) == 1,
           f'{len(tails)} action URIs share one prefix and no tail is a suffix of another, so endswith() equals '
           f'equality', where=ac.qual, line=ac.node.lineno, witness={'clashes': clash[:4], 'prefixes': sorted(prefixes)})


# ---------------------------------------------------------------------- self-test seeds
def _first_else_second(g, n, expr, first, second) -> bool:
    """expr at n is `first` when first is given (truthy / not None) and `second` otherwise - whether written `first or second`,
    as a conditional expression, as if/else on a local or through a helper that was expanded."""
    seen = set()
    for facts, leaf in g.value_cases(n, expr):
        txt = unparse(leaf)
        if txt == first and ((first, True) in facts or (f'{first} is None', False) in facts):
            seen.add('first')
        elif txt == second and ((first, False) in facts or (f'{first} is None', True) in facts):
            seen.add('second')
        else:
            return False
    return seen == {'first', 'second'}


from selftest import seed  # noqa: E402

_B = 'src/sdc11073/provider/subscriptionmgr_base.py'
_S = 'src/sdc11073/provider/subscriptionmgr.py'
_A = 'src/sdc11073/provider/subscriptionmgr_async.py'
SEEDS = [
    seed('async client ignores the http status again (the defect repaired by 0947afa)', 'C08.R2',
         ('src/sdc11073/pysoap/soapclient_async.py', "        if resp.status >= 300:  # noqa: PLR2004", "        if False:  # noqa: PLR2004")),
    seed('housekeeping removes from the table it iterates', 'C08.R1',
         (_B, """                obsolete_subscriptions = [
                    s
                    for s in self._subscriptions.objects
                    if not s.is_valid or (s.unsubscribed_at is not None and now > s.unsubscribed_at + 1)
                ]

                for obsolete_subscription in obsolete_subscriptions:
                    if not obsolete_subscription.is_closed():
""", """                for obsolete_subscription in self._subscriptions.objects:
                    if obsolete_subscription.is_valid and not (obsolete_subscription.unsubscribed_at is not None and now > obsolete_subscription.unsubscribed_at + 1):
                        continue
                    if not obsolete_subscription.is_closed():
""")),
    seed('pool keeps the entry of a closed client', 'C08.R5',
         ('src/sdc11073/pysoap/soapclientpool.py', "                self._soap_clients.pop(netloc)\n", "                if entry.soap_client is not None:\n                    self._soap_clients.pop(netloc)\n")),
    seed('sync sender: unsubscribed check dropped', 'C08.R1',
         (_S, "        if not self.is_valid or self.unsubscribed_at is not None:", "        if not self.is_valid:")),
    seed('async sender: liveness check dropped', 'C08.R1',
         (_A, "        if not self.is_valid or self.unsubscribed_at is not None:\n            return\n        addr = HeaderInformationBlock(",
          "        if self.unsubscribed_at is not None:\n            return\n        addr = HeaderInformationBlock(")),
    seed('recipients: all subscriptions', 'C08.R1',
         (_B, "            return [s for s in self._subscriptions.objects if s.matches(action)]", "            return [s for s in self._subscriptions.objects if s.matches(action) or s.is_valid]")),
    seed('is_valid ignores delivery failures when closed flag unset', 'C08.R2',
         (_B, "        return self.remaining_seconds > 0 and not self.has_delivery_failure", "        return self.remaining_seconds > 0 or not self.has_delivery_failure")),
    seed('failure limit off by one', 'C08.R2', (_B, "        return self.notify_errors >= self.MAX_NOTIFY_ERRORS", "        return self.notify_errors > self.MAX_NOTIFY_ERRORS")),
    seed('sync sender: http errors not counted', 'C08.R2',
         (_S, "        except HTTPReturnCodeError:\n            self.notify_errors += 1\n            raise", "        except HTTPReturnCodeError:\n            raise")),
    seed('renew: max instead of min', 'C08.R3', (_B, "            self._expire_seconds = min(expires, self._max_subscription_duration)", "            self._expire_seconds = max(expires, self._max_subscription_duration)")),
    seed('renew: requested duration taken unbounded', 'C08.R3', (_B, "            self._expire_seconds = min(expires, self._max_subscription_duration)", "            self._expire_seconds = expires")),
    seed('remaining_seconds may go negative', 'C08.R3', (_B, "        return max(duration, 0)", "        return duration")),
    seed('renew response reports the requested time', 'C08.R3', (_B, "            renew_response.Expires = subscription.remaining_seconds", "            renew_response.Expires = expires")),
    seed('get status: branches swapped', 'C08.R4',
         (_B, "        subscription: SubscriptionBase = self._get_subscription_for_request(request_data)\n        if subscription is None:\n            fault = Fault()\n            fault.Code.Value = faultcodeEnum.RECEIVER\n            fault.set_sub_code(nsh.WSE.tag('InvalidMessage'))\n            fault.add_reason_text('unknown Subscription identifier')\n            response = self._msg_factory.mk_reply_soap_message(request_data, fault)\n        else:\n            get_status_response",
          "        subscription: SubscriptionBase = self._get_subscription_for_request(request_data)\n        if subscription is not None and subscription.unsubscribed_at is not None:\n            fault = Fault()\n            fault.Code.Value = faultcodeEnum.RECEIVER\n            fault.set_sub_code(nsh.WSE.tag('InvalidMessage'))\n            fault.add_reason_text('unknown Subscription identifier')\n            response = self._msg_factory.mk_reply_soap_message(request_data, fault)\n        else:\n            get_status_response"),
         accept_analysis_error=True),
    seed('lookup returns unsubscribed subscriptions again', 'C08.R4',
         (_B, "        if subscription is not None and subscription.unsubscribed_at is not None:\n            subscription = None  # it only waits for its removal by housekeeping\n", "")),
    seed('renew of unknown subscription answered with RenewResponse', 'C08.R4',
         (_B, "            response = self._msg_factory.mk_reply_soap_message(request_data, fault)\n        else:\n            subscription.renew(expires)",
          "            response = self._msg_factory.mk_reply_soap_message(request_data, evt_types.RenewResponse())\n        else:\n            subscription.renew(expires)")),
    seed('end message also to unsubscribed subscriptions (sync)', 'C08.R5',
         (_B, "                tmp = [s for s in self._subscriptions.objects if s.unsubscribed_at is None]", "                tmp = list(self._subscriptions.objects)")),
    seed('end message ignores the switch (async)', 'C08.R5', (_A, "            if send_subscription_end:\n                for subscription in all_subscriptions:", "            if True:\n                for subscription in all_subscriptions:")),
    seed('end message addressed to NotifyTo first', 'C08.R5',
         (_B, "            addr_to=self.end_to_address or self.notify_to_address,\n            reference_parameters=self.end_to_ref_params or self.notify_ref_params,\n        )\n        message = self._msg_factory.mk_soap_message(inf, payload=subscription_end)\n        url = self._end_to_url or self.notify_to_url\n        soap_client = self._get_soap_client(url.netloc)\n        try:\n            soap_client.post_message_to",
          "            addr_to=self.notify_to_address or self.end_to_address,\n            reference_parameters=self.end_to_ref_params or self.notify_ref_params,\n        )\n        message = self._msg_factory.mk_soap_message(inf, payload=subscription_end)\n        url = self._end_to_url or self.notify_to_url\n        soap_client = self._get_soap_client(url.netloc)\n        try:\n            soap_client.post_message_to")),
    seed('new action that is a suffix of another', 'C08.R6',
         ('src/sdc11073/xml_types/actions.py', "    Waveform = _ActionsNamespace + '/WaveformService/WaveformStream'", "    Waveform = _ActionsNamespace + '/WaveformService/WaveformStream'\n    Stream = _ActionsNamespace + 'Stream'")),
    seed('control: sender guard split in two ifs', 'C08.R1',
         (_S, "        if not self.is_valid or self.unsubscribed_at is not None:\n            return", "        if not self.is_valid:\n            return\n        if self.unsubscribed_at is not None:\n            return"), control=True),
]
