"""Loader: modules, imports, classes (C3 MRO), functions; digest of what was read."""
from __future__ import annotations

import ast
import hashlib
import os
import pathlib

from .errors import AnalysisError

PKG = 'sdc11073'
EXTRA_FILES = ['tutorial/productandroles/contextprovider.py']


def repo_root() -> pathlib.Path:
    return pathlib.Path(os.environ.get('SA_REPO_ROOT', '/repo'))


class Module:
    def __init__(self, name, path, src):
        self.name = name
        self.path = path
        self.src = src
        self.tree = ast.parse(src, filename=str(path))
        self.imports = {}  # local name -> dotted target
        self.relink()

    def relink(self):
        """(Re)compute parent links and the import table - called again after the tree was normalised."""
        self.imports = {}
        for node in ast.walk(self.tree):
            for child in ast.iter_child_nodes(node):
                child._parent = node  # noqa: SLF001
        self._collect_imports()

    def _collect_imports(self):
        pkg_parts = self.name.split('.')
        is_pkg = self.path.name == '__init__.py'
        for node in ast.walk(self.tree):
            if isinstance(node, ast.Import):
                for a in node.names:
                    if a.asname:
                        self.imports[a.asname] = a.name
                    else:
                        self.imports[a.name.split('.')[0]] = a.name.split('.')[0]
            elif isinstance(node, ast.ImportFrom):
                if node.level:
                    base = pkg_parts if is_pkg else pkg_parts[:-1]
                    base = base[:len(base) - (node.level - 1)]
                    mod = '.'.join(base + ([node.module] if node.module else []))
                else:
                    mod = node.module or ''
                for a in node.names:
                    self.imports[a.asname or a.name] = f'{mod}.{a.name}' if mod else a.name


class FuncInfo:
    def __init__(self, qual, module, node, cls):
        self.qual = qual
        self.module = module
        self.node = node
        self.cls = cls
        self.name = node.name

    @property
    def file(self):
        return str(self.module.path)

    def __repr__(self):
        return f'<func {self.qual}>'


class ClassInfo:
    def __init__(self, qual, module, node):
        self.qual = qual
        self.module = module
        self.node = node
        self.name = node.name
        self.methods = {}
        self.base_quals = []
        self.assigns = {}  # class-body simple assignments name -> value expr

    def __repr__(self):
        return f'<class {self.qual}>'


class Repo:
    def __init__(self, root: pathlib.Path | None = None, extra: bool = True, normalise: bool = True):
        self.root = pathlib.Path(root) if root else repo_root()
        self.src_root = self.root / 'src'
        self.modules: dict[str, Module] = {}
        self.classes: dict[str, ClassInfo] = {}
        self.funcs: dict[str, FuncInfo] = {}
        self._digest = hashlib.sha256()
        self.files = []
        pkg_dir = self.src_root / PKG
        if not pkg_dir.is_dir():
            raise AnalysisError(f'package directory {pkg_dir} not found')
        for p in sorted(pkg_dir.rglob('*.py')):
            name = '.'.join(p.relative_to(self.src_root).with_suffix('').parts)
            if name.endswith('.__init__'):
                name = name[:-9]
            self._load(name, p)
        if extra:
            for rel in EXTRA_FILES:
                p = self.root / rel
                if p.is_file():
                    name = '.'.join(pathlib.Path(rel).with_suffix('').parts)
                    self._load(name, p)
        self.norm_log: list[str] = []
        self._index()
        if normalise and not os.environ.get('SA_NO_NORMALISE'):  # debugging aid only; no registered command sets it
            self._normalise()

    def _normalise(self):
        """See engine/normalize.py: undo private renames, inline new private helpers, rewrite `a if c else b` statements."""
        from . import normalize
        inv = normalize.load_inventory()
        normalize.expand_local_predicates(self.modules, self.norm_log)
        normalize.unroll_constant_loops(self.modules, self.norm_log)
        normalize.desugar_ifexp(self.modules)
        normalize.decision_tables(self.modules, self.norm_log)
        cinv = normalize.load_constant_inventory()
        if cinv is not None:
            normalize.fold_new_constants(self.modules, cinv, self.norm_log)
        normalize.first_truthy_chains(self.modules, self.norm_log)
        normalize.project_records(self.modules, self.norm_log)
        if inv is not None:
            normalize.apply_renames(self.modules, normalize.plan_renames(self.modules, inv), self.norm_log)
        self._index()
        kwc = normalize.load_keyword_callees()
        if kwc is not None:
            normalize.keywords_to_positional(self, kwc, self.norm_log)
        if inv is not None:
            for _ in range(3):
                if not normalize.inline_new_helpers(self, inv, self.norm_log):
                    break
                normalize.desugar_ifexp(self.modules)   # conditional expressions that came in with an expanded helper
                normalize.project_records(self.modules, self.norm_log)
                self._index()

    def _index(self):
        self.classes = {}
        self.funcs = {}
        for name, mod in self.modules.items():
            mod.relink()
            self._collect(mod, mod.tree.body, name, None)
        self.by_simple: dict[str, list[str]] = {}
        for q in self.classes:
            self.by_simple.setdefault(q.rsplit('.', 1)[1], []).append(q)
        for ci in self.classes.values():
            ci.base_quals = [b for b in (self._resolve_base(ci, b) for b in ci.node.bases) if b]
        self._mro_cache = {}
        self._sub_cache = None

    # ------------------------------------------------------------------ loading
    def _load(self, name, path):
        raw = path.read_bytes()
        self._digest.update(str(path.relative_to(self.root)).encode())
        self._digest.update(raw)
        self.files.append(str(path))
        try:
            mod = Module(name, path, raw.decode('utf-8'))
        except SyntaxError as ex:
            raise AnalysisError(f'cannot parse {path}: {ex}') from ex
        self.modules[name] = mod

    def _collect(self, mod, body, prefix, cls):
        for node in body:
            if isinstance(node, ast.ClassDef):
                q = f'{prefix}.{node.name}'
                ci = ClassInfo(q, mod, node)
                self.classes[q] = ci
                for sub in node.body:
                    if isinstance(sub, ast.Assign) and len(sub.targets) == 1 and isinstance(sub.targets[0], ast.Name):
                        ci.assigns[sub.targets[0].id] = sub.value
                    elif isinstance(sub, ast.AnnAssign) and isinstance(sub.target, ast.Name) and sub.value is not None:
                        ci.assigns[sub.target.id] = sub.value
                self._collect(mod, node.body, q, ci)
            elif isinstance(node, (ast.FunctionDef, ast.AsyncFunctionDef)):
                q = f'{prefix}.{node.name}'
                fi = FuncInfo(q, mod, node, cls)
                if q in self.funcs:
                    # property setter / overload: keep the first, register the other under a suffix
                    q = f'{q}#{node.lineno}'
                    fi.qual = q
                self.funcs[q] = fi
                if cls is not None and node.name not in cls.methods:
                    cls.methods[node.name] = fi
            elif isinstance(node, (ast.If, ast.Try)):
                # conditional definitions at module level (TYPE_CHECKING, try-import)
                for field in ('body', 'orelse', 'finalbody'):
                    self._collect(mod, getattr(node, field, []) or [], prefix, cls)
                for h in getattr(node, 'handlers', []) or []:
                    self._collect(mod, h.body, prefix, cls)

    def digest(self):
        return self._digest.hexdigest()

    # ------------------------------------------------------------------ names
    def resolve_name(self, mod: Module, dotted: str) -> str | None:
        """Resolve a dotted name used in module mod to a class/function/module qualname."""
        parts = dotted.split('.')
        head = parts[0]
        cands = []
        if head in mod.imports:
            cands.append('.'.join([mod.imports[head]] + parts[1:]))
        cands.append(f'{mod.name}.{dotted}')
        cands.append(dotted)
        for c in cands:
            if c in self.classes or c in self.funcs or c in self.modules:
                return c
        # follow re-exports: pkg.name imported in pkg/__init__
        for c in cands:
            bits = c.split('.')
            for i in range(len(bits) - 1, 0, -1):
                m = '.'.join(bits[:i])
                if m in self.modules and bits[i] in self.modules[m].imports:
                    tgt = '.'.join([self.modules[m].imports[bits[i]]] + bits[i + 1:])
                    if tgt != c:
                        r = self.resolve_name(self.modules[m], '.'.join(bits[i:])) if False else None
                        if tgt in self.classes or tgt in self.funcs or tgt in self.modules:
                            return tgt
        return None

    def _resolve_base(self, ci: ClassInfo, base: ast.expr) -> str | None:
        try:
            dotted = ast.unparse(base)
        except Exception:  # noqa: BLE001
            return None
        if isinstance(base, ast.Subscript):
            dotted = ast.unparse(base.value)
        r = self.resolve_name(ci.module, dotted)
        if r in self.classes and r != ci.qual:
            return r
        simple = dotted.rsplit('.', 1)[-1]
        cands = [c for c in self.by_simple.get(simple, []) if c != ci.qual]
        if '.' in dotted and dotted.split('.')[0] in ci.module.imports and \
                not ci.module.imports[dotted.split('.')[0]].startswith(PKG):
            return None  # qualified name from a foreign package (e.g. logging.Handler)
        if len(cands) == 1:
            return cands[0]
        return None

    # ------------------------------------------------------------------ classes
    def mro(self, q: str) -> list[str]:
        if q in self._mro_cache:
            return self._mro_cache[q]
        ci = self.classes[q]
        seqs = [self.mro(b) for b in ci.base_quals] + [list(ci.base_quals)]
        res = [q]
        seqs = [list(s) for s in seqs if s]
        while seqs:
            for s in seqs:
                cand = s[0]
                if not any(cand in t[1:] for t in seqs):
                    break
            else:
                cand = seqs[0][0]  # inconsistent hierarchy: fall back to dfs order
            res.append(cand)
            seqs = [[x for x in s if x != cand] for s in seqs]
            seqs = [s for s in seqs if s]
        self._mro_cache[q] = res
        return res

    def subclasses(self, q: str) -> list[str]:
        """All transitive subclasses (excluding q)."""
        return [c for c in self.classes if c != q and q in self.mro(c)]

    def resolve_method(self, cls_q: str, name: str) -> FuncInfo | None:
        for c in self.mro(cls_q):
            fi = self.classes[c].methods.get(name)
            if fi is not None:
                return fi
        return None

    def class_attr(self, cls_q: str, name: str):
        for c in self.mro(cls_q):
            if name in self.classes[c].assigns:
                return self.classes[c].assigns[name], self.classes[c]
        return None, None

    # ------------------------------------------------------------------ anchors
    def func(self, qual: str) -> FuncInfo:
        fi = self.funcs.get(qual)
        if fi is None:
            raise AnalysisError(f'anchor function {qual} not found')
        return fi

    def cls(self, qual: str) -> ClassInfo:
        ci = self.classes.get(qual)
        if ci is None:
            raise AnalysisError(f'anchor class {qual} not found')
        return ci

    def module(self, name: str) -> Module:
        m = self.modules.get(name)
        if m is None:
            raise AnalysisError(f'anchor module {name} not found')
        return m

    def method(self, cls_qual: str, name: str) -> FuncInfo:
        self.cls(cls_qual)
        fi = self.resolve_method(cls_qual, name)
        if fi is None:
            raise AnalysisError(f'anchor method {cls_qual}.{name} not found (MRO)')
        return fi

    def funcs_named(self, name: str) -> list[FuncInfo]:
        return [f for f in self.funcs.values() if f.name == name]

    def rel(self, path) -> str:
        try:
            return str(pathlib.Path(path).relative_to(self.root))
        except ValueError:
            return str(path)


def enclosing_function(node):
    cur = getattr(node, '_parent', None)
    while cur is not None and not isinstance(cur, (ast.FunctionDef, ast.AsyncFunctionDef)):
        cur = getattr(cur, '_parent', None)
    return cur


def walk_no_nested(node):
    """ast.walk that does not descend into nested function/class definitions or lambdas' bodies."""
    todo = list(ast.iter_child_nodes(node))
    while todo:
        n = todo.pop()
        yield n
        if isinstance(n, (ast.FunctionDef, ast.AsyncFunctionDef, ast.ClassDef)):
            continue
        todo.extend(ast.iter_child_nodes(n))
