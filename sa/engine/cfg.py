"""Statement-level control-flow graph, dominators, branch facts, lock regions.

Model (see DESIGN.md appendix A.1):
* nodes are simple statements and the tests of compound statements; every `if`/`while` test has two
  pseudo successor nodes (kind 'branch', label True/False) so that "dominated by the true edge of T"
  is plain dominance by a node;
* every node inside a `try` body has an exceptional edge to each handler of that `try` and, when no
  handler is a catch-all, to the enclosing exceptional target; outside any `try` the target is the
  function's 'raise' exit.  An exceptional edge leaves a statement before its effect counts;
* `finally` bodies are duplicated: once for normal completion, once for the exceptional path, once per
  `return` that crosses them;
* `with`: an enter node (kind 'with'), the body, a 'withexit' node; `contextlib.suppress(...)` bodies
  get exceptional edges to the withexit node;
* `yield` nodes (kind 'stmt', has_yield) have, inside a generator used as context manager, an
  exceptional successor like any other statement: the body of the caller's `with` raised;
* nested function and class definitions are single opaque nodes.
"""
from __future__ import annotations

import ast

from .errors import AnalysisError, clone

CATCH_ALL = {'Exception', 'BaseException'}


class Node:
    __slots__ = ('id', 'kind', 'stmt', 'succ', 'pred', 'esucc', 'epred', 'withs', 'label', 'test',
                 'trys', 'loops', 'copy_of')

    def __init__(self, nid, kind, stmt):
        self.id = nid
        self.kind = kind
        self.stmt = stmt
        self.succ = []   # normal successors
        self.pred = []
        self.esucc = []  # exceptional successors
        self.epred = []
        self.withs = ()  # enclosing ast.With statements (outermost first)
        self.trys = ()   # enclosing (ast.Try, part) pairs, part in body/handler/orelse/finalbody
        self.loops = ()
        self.label = None  # for branch nodes: True / False; for 'for' pseudo nodes: 'iter' / 'done'
        self.test = None   # for test and branch nodes: the ast test expression
        self.copy_of = None

    @property
    def lineno(self):
        s = self.stmt
        if self.kind in ('branch',) and self.test is not None:
            return getattr(self.test, 'lineno', 0)
        return getattr(s, 'lineno', 0) if s is not None else 0

    def exprs(self):
        """AST pieces evaluated at this node."""
        s = self.stmt
        k = self.kind
        if k == 'test':
            return [self.test]
        if k == 'for':
            return [s.iter, s.target]
        if k == 'with':
            out = []
            for it in s.items:
                out.append(it.context_expr)
                if it.optional_vars is not None:
                    out.append(it.optional_vars)
            return out
        if k == 'except':
            return [s.type] if s.type is not None else []
        if k in ('stmt', 'return', 'raisestmt'):
            return [s]
        return []

    def walk(self):
        """All AST nodes evaluated at this node (not descending into nested defs)."""
        for e in self.exprs():
            if e is None:
                continue
            yield e
            todo = list(ast.iter_child_nodes(e))
            while todo:
                n = todo.pop()
                yield n
                if isinstance(n, (ast.FunctionDef, ast.AsyncFunctionDef, ast.ClassDef)):
                    continue
                todo.extend(ast.iter_child_nodes(n))

    def calls(self):
        return [n for n in self.walk() if isinstance(n, ast.Call)]

    def text(self):
        if self.kind == 'branch':
            return f'[{self.label}] {ast.unparse(self.test)}'
        if self.kind == 'test':
            return f'test {ast.unparse(self.test)}'
        if self.kind == 'for':
            return f'for {ast.unparse(self.stmt.target)} in {ast.unparse(self.stmt.iter)}'
        if self.kind == 'with':
            return 'with ' + ', '.join(ast.unparse(i.context_expr) for i in self.stmt.items)
        if self.kind == 'except':
            return 'except ' + (ast.unparse(self.stmt.type) if self.stmt.type is not None else '')
        if self.stmt is not None and self.kind in ('stmt', 'return', 'raisestmt'):
            return ast.unparse(self.stmt).split('\n')[0]
        return self.kind

    def __repr__(self):
        return f'<{self.id}:{self.kind}:{self.text()[:60]}@{self.lineno}>'


def call_name(call: ast.Call) -> str | None:
    f = call.func
    if isinstance(f, ast.Attribute):
        return f.attr
    if isinstance(f, ast.Name):
        return f.id
    return None


def is_catch_all(handler: ast.ExceptHandler) -> bool:
    t = handler.type
    if t is None:
        return True
    names = []
    if isinstance(t, ast.Tuple):
        names = [getattr(e, 'id', getattr(e, 'attr', None)) for e in t.elts]
    else:
        names = [getattr(t, 'id', getattr(t, 'attr', None))]
    return any(n in CATCH_ALL for n in names)


class CFG:
    def __init__(self, fn: ast.FunctionDef | ast.AsyncFunctionDef):
        self.fn = fn
        self.nodes: list[Node] = []
        self.entry = self._new('entry', None)
        self.exit = self._new('exit', None)
        self.raise_exit = self._new('raise', None)
        self._finally_stack = []  # list of (finalbody stmts, ctx at try)
        self.no_raise = set()
        ctx = {'withs': (), 'trys': (), 'loops': (), 'handlers': [self.raise_exit], 'loop': None}
        ends = self._block(fn.body, [self.entry], ctx)
        for e in ends:
            self._edge(e, self.exit)
        self._dom = None
        self._pdom = None
        self._facts_cache = {}
        self._stores = None
        self._rd_cache = {}
        a = fn.args
        self._params = {x.arg for x in a.posonlyargs + a.args + a.kwonlyargs} | \
            ({a.vararg.arg} if a.vararg else set()) | ({a.kwarg.arg} if a.kwarg else set())

    # ------------------------------------------------------------------ construction
    def _new(self, kind, stmt, ctx=None):
        n = Node(len(self.nodes), kind, stmt)
        if ctx is not None:
            n.withs = ctx['withs']
            n.trys = ctx['trys']
            n.loops = ctx['loops']
        self.nodes.append(n)
        return n

    def _edge(self, a, b):
        if b not in a.succ:
            a.succ.append(b)
            b.pred.append(a)

    def _eedge(self, a, b):
        if b not in a.esucc:
            a.esucc.append(b)
            b.epred.append(a)

    def _mk(self, kind, stmt, preds, ctx, may_raise=True):
        n = self._new(kind, stmt, ctx)
        for p in preds:
            self._edge(p, n)
        if may_raise:
            for h in ctx['handlers']:
                self._eedge(n, h)
        return n

    def _block(self, stmts, preds, ctx):
        for st in stmts:
            preds = self._stmt(st, preds, ctx)
        return preds

    def _branches(self, tnode, test, ctx):
        t = self._new('branch', tnode.stmt, ctx)
        t.label, t.test = True, test
        f = self._new('branch', tnode.stmt, ctx)
        f.label, f.test = False, test
        const = test.value if isinstance(test, ast.Constant) else None
        if not (isinstance(test, ast.Constant) and not const):
            self._edge(tnode, t)
        if not (isinstance(test, ast.Constant) and const):
            self._edge(tnode, f)
        return t, f

    def _stmt(self, st, preds, ctx):  # noqa: C901, PLR0912, PLR0915
        if isinstance(st, ast.If):
            tn = self._mk('test', st, preds, ctx)
            tn.test = st.test
            t, f = self._branches(tn, st.test, ctx)
            a = self._block(st.body, [t], ctx)
            b = self._block(st.orelse, [f], ctx) if st.orelse else [f]
            return a + b
        if isinstance(st, ast.While):
            tn = self._mk('test', st, preds, ctx)
            tn.test = st.test
            t, f = self._branches(tn, st.test, ctx)
            brk = []
            # the `while True: ..; break` wrapper that normalize.py puts around an inlined helper is not a loop of the program
            own = () if getattr(st, '_inline_wrapper', False) else (st,)
            lctx = dict(ctx, loop=(tn, brk, len(self._finally_stack)), loops=ctx['loops'] + own)
            body = self._block(st.body, [t], lctx)
            for e in body:
                self._edge(e, tn)
            els = self._block(st.orelse, [f], ctx) if st.orelse else [f]
            return els + brk
        if isinstance(st, (ast.For, ast.AsyncFor)):
            hn = self._mk('for', st, preds, ctx)
            it = self._new('branch', st, ctx)
            it.label, it.test = 'iter', st.iter
            dn = self._new('branch', st, ctx)
            dn.label, dn.test = 'done', st.iter
            self._edge(hn, it)
            self._edge(hn, dn)
            brk = []
            lctx = dict(ctx, loop=(hn, brk, len(self._finally_stack)), loops=ctx['loops'] + (st,))
            body = self._block(st.body, [it], lctx)
            for e in body:
                self._edge(e, hn)
            els = self._block(st.orelse, [dn], ctx) if st.orelse else [dn]
            return els + brk
        if isinstance(st, (ast.With, ast.AsyncWith)):
            wn = self._mk('with', st, preds, ctx)
            suppress = any(isinstance(i.context_expr, ast.Call) and call_name(i.context_expr) == 'suppress'
                           for i in st.items)
            xn = self._new('withexit', st, ctx)
            handlers = ctx['handlers'] + [xn] if suppress else ctx['handlers']
            wctx = dict(ctx, withs=ctx['withs'] + (st,), handlers=handlers)
            body = self._block(st.body, [wn], wctx)
            for e in body:
                self._edge(e, xn)
            if suppress:
                # exceptional entries into xn continue normally
                pass
            return [xn]
        if isinstance(st, ast.Try) or st.__class__.__name__ == 'TryStar':
            return self._try(st, preds, ctx)
        if isinstance(st, ast.Return):
            n = self._mk('return', st, preds, ctx)
            cur = [n]
            for finalbody, fctx in reversed(self._finally_stack):
                cur = self._block_copy(finalbody, cur, fctx)
            for c in cur:
                self._edge(c, self.exit)
            return []
        if isinstance(st, ast.Raise):
            n = self._mk('raisestmt', st, preds, ctx)
            return []
        if isinstance(st, ast.Break):
            n = self._mk('break', st, preds, ctx, may_raise=False)
            cur = [n]
            for finalbody, fctx in reversed(self._finally_stack[ctx['loop'][2]:]):
                cur = self._block_copy(finalbody, cur, fctx)
            ctx['loop'][1].extend(cur)
            return []
        if isinstance(st, ast.Continue):
            n = self._mk('continue', st, preds, ctx, may_raise=False)
            cur = [n]
            for finalbody, fctx in reversed(self._finally_stack[ctx['loop'][2]:]):
                cur = self._block_copy(finalbody, cur, fctx)
            for c in cur:
                self._edge(c, ctx['loop'][0])
            return []
        if isinstance(st, (ast.FunctionDef, ast.AsyncFunctionDef, ast.ClassDef)):
            n = self._mk('def', st, preds, ctx, may_raise=False)
            return [n]
        if isinstance(st, (ast.Pass, ast.Global, ast.Nonlocal, ast.Import, ast.ImportFrom)):
            n = self._mk('stmt', st, preds, ctx, may_raise=False)
            return [n]
        if isinstance(st, (ast.Expr, ast.Assign, ast.AugAssign, ast.AnnAssign, ast.Delete, ast.Assert)):
            n = self._mk('stmt', st, preds, ctx)
            return [n]
        raise AnalysisError(f'cfg: statement kind {st.__class__.__name__} at line {st.lineno} is not modelled')

    def _block_copy(self, stmts, preds, ctx):
        before = len(self.nodes)
        # a copy of a finally body is built outside of the try it belongs to
        saved = self._finally_stack
        self._finally_stack = [f for f in saved if f[0] is not stmts][:]
        # only the finally blocks *outside* of this one stay active
        idx = next((i for i, f in enumerate(saved) if f[0] is stmts), len(saved))
        self._finally_stack = saved[:idx]
        ends = self._block(stmts, preds, ctx)
        self._finally_stack = saved
        for n in self.nodes[before:]:
            n.copy_of = 'finally'
        return ends

    def _try(self, st, preds, ctx):
        outer_handlers = ctx['handlers']
        hnodes = []
        for h in st.handlers:
            hn = self._new('except', h, dict(ctx, trys=ctx['trys'] + ((st, 'handler'),)))
            hnodes.append(hn)
        catch_all = any(is_catch_all(h) for h in st.handlers)
        fin_exc_entry = None
        if st.finalbody:
            fin_exc_entry = self._new('finally-exc', st, ctx)
            after_handlers = [fin_exc_entry]
        else:
            after_handlers = outer_handlers
        body_handlers = hnodes + ([] if catch_all else after_handlers)
        if st.finalbody:
            self._finally_stack.append((st.finalbody, ctx))
        bctx = dict(ctx, handlers=body_handlers, trys=ctx['trys'] + ((st, 'body'),))
        body = self._block(st.body, preds, bctx)
        octx = dict(ctx, handlers=after_handlers, trys=ctx['trys'] + ((st, 'orelse'),))
        if st.orelse:
            body = self._block(st.orelse, body, octx)
        outs = list(body)
        hctx = dict(ctx, handlers=after_handlers, trys=ctx['trys'] + ((st, 'handler'),))
        for hn, h in zip(hnodes, st.handlers):
            outs += self._block(h.body, [hn], hctx)
        if st.finalbody:
            self._finally_stack.pop()
            fctx = dict(ctx, trys=ctx['trys'] + ((st, 'finalbody'),))
            outs = self._block(st.finalbody, outs, fctx)
            fe = self._block_copy(st.finalbody, [fin_exc_entry], fctx)
            for e in fe:
                for h in outer_handlers:
                    self._eedge(e, h)
        return outs

    # ------------------------------------------------------------------ queries
    # All path queries work on the pre/post expansion of the graph: a node n is (n, 0) "about to be
    # evaluated" and (n, 1) "completed normally".  (n,0)->(n,1); (n,0)->(h,0) for exceptional
    # successors h; (n,1)->(s,0) for normal successors s.  "Passing through n" means visiting (n,1).
    def _pp_succ(self, st, normal_only=False):
        n, phase = st
        if phase == 0:
            out = [(n, 1)]
            if not normal_only and n.id not in self.no_raise:
                out += [(h, 0) for h in n.esucc]
            return out
        return [(s, 0) for s in n.succ]

    def assume_logging_does_not_raise(self):
        """Mark statements that only log (logger.x(...), print) as non-raising for path queries."""
        for n in self.nodes:
            if n.kind == 'stmt' and isinstance(n.stmt, ast.Expr) and isinstance(n.stmt.value, ast.Call):
                txt = ast.unparse(n.stmt.value.func)
                if any(x in txt for x in ('_logger.', 'logger.', '_log.')) or txt == 'print':
                    self.no_raise.add(n.id)
            if n.kind == 'stmt' and isinstance(n.stmt, ast.Expr) and isinstance(n.stmt.value, ast.Constant):
                self.no_raise.add(n.id)
        self._dom = None

    def _pp_reach(self, starts, avoid=(), normal_only=False):
        """Set of (node id, phase) reachable from the start states without completing a node in avoid."""
        aids = {t.id for t in avoid}
        seen = set()
        todo = []
        for s in starts:
            k = (s[0].id, s[1])
            if k not in seen and not (s[1] == 1 and s[0].id in aids):
                seen.add(k)
                todo.append(s)
        while todo:
            st = todo.pop()
            for nx in self._pp_succ(st, normal_only):
                k = (nx[0].id, nx[1])
                if k in seen or (nx[1] == 1 and nx[0].id in aids):
                    continue
                seen.add(k)
                todo.append(nx)
        return seen

    @property
    def dom(self):
        """dom[n.id] = ids of nodes that are completed on every path from entry to the start of n (plus n)."""
        if self._dom is None:
            reach = self._pp_reach([(self.entry, 0)])
            full = {n.id for n in self.nodes}
            d_in = {n.id: set(full) for n in self.nodes}   # completed before (n,0)
            d_in[self.entry.id] = set()
            changed = True
            while changed:
                changed = False
                for n in self.nodes:
                    if n is self.entry or (n.id, 0) not in reach:
                        continue
                    sets = []
                    for p in n.pred:
                        if (p.id, 1) in reach:
                            sets.append(d_in[p.id] | {p.id})
                    for p in n.epred:
                        if (p.id, 0) in reach:
                            sets.append(d_in[p.id])
                    new = set.intersection(*sets) if sets else set()
                    if new != d_in[n.id]:
                        d_in[n.id] = new
                        changed = True
            self._dom = {}
            for n in self.nodes:
                if (n.id, 0) in reach:
                    self._dom[n.id] = d_in[n.id] | {n.id}
                else:
                    self._dom[n.id] = {n.id}
            self._reach = reach
        return self._dom

    def dominates(self, a: Node, b: Node) -> bool:
        """Every path from entry to the evaluation of b has completed a (or a is b)."""
        return a.id in self.dom[b.id]

    def reachable(self, n: Node) -> bool:
        self.dom  # noqa: B018
        return (n.id, 0) in self._reach

    def reaches(self, a: Node, b: Node, normal_only=False) -> bool:
        """b can be evaluated after a completed."""
        return (b.id, 0) in self._pp_reach([(a, 1)], normal_only=normal_only)

    def reach_after_exception_of(self, a: Node, avoid=()):
        """Nodes whose evaluation can start after a raised (a did not complete)."""
        r = self._pp_reach([(h, 0) for h in a.esucc], avoid=avoid)
        return [n for n in self.nodes if (n.id, 0) in r]

    def stmt_nodes(self, pred=None):
        return [n for n in self.nodes if n.stmt is not None and (pred is None or pred(n))]

    def real_nodes(self):
        return [n for n in self.nodes if n.kind not in ('branch', 'withexit', 'finally-exc', 'def',
                                                        'entry', 'exit', 'raise')]

    def nodes_calling(self, name: str):
        """(node, call) pairs for calls whose simple callee name is name."""
        out = []
        for n in self.real_nodes():
            for c in n.calls():
                if call_name(c) == name:
                    out.append((n, c))
        return out

    def nodes_where(self, pred):
        out = []
        for n in self.real_nodes():
            for a in n.walk():
                if pred(a):
                    out.append((n, a))
        return out

    def facts_at(self, n: Node):
        """Atomic conditions known to hold when n is evaluated: Facts (a list of (unparsed expr, polarity)).

        Every test is recorded twice when it mentions local aliases: as written, and with each alias replaced by the pure
        attribute chain it was bound to (origin_expr) - `x = self.a.b; if x is None` yields both `x is None` and
        `self.a.b is None`.  Membership tests on the result ignore the operand order of == / !=."""
        key = n.id
        cached = self._facts_cache.get(key)
        if cached is not None:
            return Facts(cached[0], cached[1])
        facts = Facts()
        for b in self.nodes:
            if b.kind == 'branch' and b.label in (True, False) and b is not n and self.dominates(b, n):
                _atoms(b.test, b.label, facts)
                resolved = self.origin_expr(b, b.test, tests=True)
                _atoms(resolved if resolved is not None else b.test, b.label, facts.resolved)
        self._facts_cache[key] = (list(facts), list(facts.resolved))
        return facts

    def facts_symbolic(self, n: Node):
        """facts_at(n) with every test written out symbolically (locals replaced by their defining expressions, parameters by
        $N): `x = tbl.get_one(h); if x is not None: raise` and `if tbl.get_one(h) is not None: raise` give the same fact."""
        out = []
        for b in self.nodes:
            if b.kind == 'branch' and b.label in (True, False) and b is not n and self.dominates(b, n):
                _atoms(self.symbolic(b, b.test), b.label, out)
        return out

    # ------------------------------------------------------------------ aliases
    def _rd(self, name):
        rd = self._rd_cache.get(name)
        if rd is None:
            rd = self.reaching_defs(name)
            self._rd_cache[name] = rd
        return rd

    def unique_def(self, n: Node, name: str):
        """The single plain assignment `name = <expr>` (or `a, name = x, y`) that reaches n on every path (dominates n)."""
        defs = self._rd(name).get(n.id, set())
        if len(defs) != 1:
            return None
        d = next(iter(defs))
        if d.kind != 'stmt' or d is n or self.def_value(d, name) is None:
            return None
        # (a parameter that is re-bound: its initial value cannot reach n because the one binding dominates n)
        if not self.dominates(d, n):
            return None
        return d

    @staticmethod
    def def_value(d: Node, name: str):
        """The expression bound to `name` by assignment node d (element-wise for tuple = tuple), else None."""
        st = d.stmt
        if isinstance(st, ast.AnnAssign):
            return st.value if isinstance(st.target, ast.Name) and st.target.id == name else None
        if not isinstance(st, ast.Assign) or len(st.targets) != 1:
            return None
        t = st.targets[0]
        if isinstance(t, ast.Name):
            return st.value if t.id == name else None
        if isinstance(t, (ast.Tuple, ast.List)) and isinstance(st.value, (ast.Tuple, ast.List)) and \
                len(t.elts) == len(st.value.elts) and not any(isinstance(x, ast.Starred) for x in t.elts + st.value.elts):
            hits = [v for x, v in zip(t.elts, st.value.elts) if isinstance(x, ast.Name) and x.id == name]
            # a, b = b, a style swaps read names that the same statement binds: not an alias
            bound = {x.id for x in t.elts if isinstance(x, ast.Name)}
            if len(hits) == 1 and not any(isinstance(y, ast.Name) and y.id in bound for v in st.value.elts for y in ast.walk(v)):
                return hits[0]
        elif isinstance(t, (ast.Tuple, ast.List)) and not isinstance(st.value, (ast.Tuple, ast.List)) and \
                not any(isinstance(x, ast.Starred) for x in t.elts):
            # a, b, c = f(x): name is element i of the value (written f(x)[i]; never a "pure chain", so only the symbolic
            # expansion follows it)
            idx = [i for i, x in enumerate(t.elts) if isinstance(x, ast.Name) and x.id == name]
            bound = {x.id for x in t.elts if isinstance(x, ast.Name)}
            if len(idx) == 1 and not any(isinstance(y, ast.Name) and y.id in bound for y in ast.walk(st.value)):
                return ast.Subscript(value=st.value, slice=ast.Constant(value=idx[0]), ctx=ast.Load())
        return None

    def canon_text(self, n: Node, expr, depth=4) -> str:
        """Source text of expr that does not depend on how locals and private parameters are called: parameters become $N,
        aliases of pure chains are replaced by the chain, loop variables by elem(<iterable>)."""
        return ast.unparse(self._canon(n, expr, depth, any_rhs=True))

    def symbolic(self, n: Node, expr, depth=8):
        """expr at n written out in terms of the parameters ($1, $2 ..): every local with one dominating definition is
        replaced by its defining expression (any expression, not only attribute chains), recursively; comprehension variables
        are renamed $c0, $c1 ...  Only meaningful for side-effect free code: it ignores when a sub-expression was evaluated."""
        return alpha(self._canon(n, expr, depth, any_rhs=True))

    def symbolic_text(self, n: Node, expr, depth=8) -> str:
        return ast.unparse(self.symbolic(n, expr, depth))

    def _canon(self, n, expr, depth, any_rhs=False):
        g = self
        params = [a.arg for a in self.fn.args.posonlyargs + self.fn.args.args + self.fn.args.kwonlyargs]

        class R(ast.NodeTransformer):
            def visit_Name(self, node):  # noqa: N802
                if not isinstance(node.ctx, ast.Load):
                    return node
                d = g.unique_def(n, node.id) if depth > 0 else None
                if node.id in params and d is None:
                    i = params.index(node.id)
                    return node if (i == 0 and node.id in ('self', 'cls')) else ast.Name(id=f'${i}', ctx=ast.Load())
                if depth <= 0:
                    return node
                if d is not None:
                    v = g.def_value(d, node.id)
                    if any_rhs or _pure_chain(v):
                        return g._canon(d, v, depth - 1, any_rhs)  # noqa: SLF001
                    return node
                defs = g._rd(node.id).get(n.id, set())  # noqa: SLF001
                if len(defs) == 1:
                    f = next(iter(defs))
                    if f.kind == 'for' and g.dominates(f, n):
                        it = g._canon(f, f.stmt.iter, depth - 1, any_rhs)  # noqa: SLF001
                        tgt = f.stmt.target
                        if isinstance(tgt, ast.Name):
                            return ast.Call(func=ast.Name(id='elem', ctx=ast.Load()), args=[it], keywords=[])
                        if isinstance(tgt, ast.Tuple):
                            for i, x in enumerate(tgt.elts):
                                if isinstance(x, ast.Name) and x.id == node.id:
                                    return ast.Subscript(value=ast.Call(func=ast.Name(id='elem', ctx=ast.Load()), args=[it],
                                                                        keywords=[]),
                                                         slice=ast.Constant(value=i), ctx=ast.Load())
                return node

            def visit_Lambda(self, node):  # noqa: N802
                return node
        return R().visit(clone(expr))

    def origin_expr(self, n: Node, expr, depth=4, tests=False):
        """expr with every local alias of a pure attribute chain replaced by that chain; None when nothing was replaced.

        Only `alias = name(.attr)*` bindings are followed (never calls or subscripts) and only when that binding is the one
        definition reaching n.  The result says where a value comes from, not when it was read: rules that care about the
        time of a read must look at the defining statement itself.
        tests=True also follows names bound once to a comparison / boolean combination of pure chains and constants
        (`changed = a.x != self.x`), provided nothing the comparison reads is assigned in this function."""
        local_names = {x.id for x in ast.walk(expr) if isinstance(x, ast.Name) and isinstance(x.ctx, ast.Load)}
        # names that stand at a boolean position of expr (the test itself, or an operand of not / and / or): only those may
        # be replaced by a comparison they are bound to
        bool_pos = set()
        todo = [expr]
        while todo:
            e = todo.pop()
            if isinstance(e, ast.Name):
                bool_pos.add(id(e))
            elif isinstance(e, ast.UnaryOp) and isinstance(e.op, ast.Not):
                todo.append(e.operand)
            elif isinstance(e, ast.BoolOp):
                todo.extend(e.values)
        mapping, test_mapping = {}, {}
        for name in local_names:
            d = self.unique_def(n, name)
            if d is None:
                continue
            v = self.def_value(d, name)
            if _pure_chain(v):
                if depth > 0:
                    v = self.origin_expr(d, v, depth - 1, tests) or v
                mapping[name] = v
            elif tests and _pure_test(v) and self._stable_between(d, n, v):
                if depth > 0:
                    v = self.origin_expr(d, v, depth - 1, tests) or v
                test_mapping[name] = v
            elif tests and isinstance(v, ast.Call) and isinstance(v.func, ast.Name) and v.func.id == 'bool' and len(v.args) == 1 \
                    and not v.keywords and _pure_chain(v.args[0]) and self._stable_between(d, n, v.args[0]):
                test_mapping[name] = v.args[0]   # `flag = bool(x)`: at a boolean position the flag is the truth value of x
        if not mapping and not test_mapping:
            return None

        class R(ast.NodeTransformer):
            def visit_Name(self, node):  # noqa: N802
                if isinstance(node.ctx, ast.Load) and node.id in mapping:
                    return ast.copy_location(clone(mapping[node.id]), node)
                if isinstance(node.ctx, ast.Load) and node.id in test_mapping and getattr(node, '_boolpos', False):
                    return ast.copy_location(clone(test_mapping[node.id]), node)
                return node
        c = clone(expr)
        # mark boolean positions in the clone (same traversal)
        todo = [c]
        hit = False
        while todo:
            e = todo.pop()
            if isinstance(e, ast.Name):
                e._boolpos = True  # noqa: SLF001
                hit = hit or e.id in test_mapping
            elif isinstance(e, ast.UnaryOp) and isinstance(e.op, ast.Not):
                todo.append(e.operand)
            elif isinstance(e, ast.BoolOp):
                todo.extend(e.values)
        if not mapping and not hit:
            return None
        return R().visit(c)

    def _stable_between(self, d: Node, n: Node, e) -> bool:
        """Does e evaluate to the same value at n as at d?  Local names: the same definitions reach both nodes (a loop
        variable is "assigned" by its loop but not between a statement of the body and a later one of the same iteration);
        attribute chains: nothing in the function stores to them."""
        for x in ast.walk(e):
            if isinstance(x, ast.Name) and isinstance(x.ctx, ast.Load) and x.id != 'self':
                rd = self._rd(x.id)
                if rd.get(d.id, set()) != rd.get(n.id, set()):
                    return False
        if self._stores is None:
            self._assigned_in_function(ast.Constant(value=None))
        attrs = {ast.unparse(x) for x in ast.walk(e) if isinstance(x, ast.Attribute)}
        if not (attrs & self._stores):
            return True
        # a store to one of the attributes only matters when it can run after d and before n (without d running again:
        # then the name is bound afresh)
        if d is n:
            return True
        for s in self.real_nodes():
            st = s.stmt
            if s.kind != 'stmt' or not isinstance(st, (ast.Assign, ast.AugAssign, ast.AnnAssign, ast.Delete)):
                continue
            tg = st.targets if isinstance(st, (ast.Assign, ast.Delete)) else [st.target]
            hit = any(isinstance(x, ast.Attribute) and isinstance(x.ctx, (ast.Store, ast.Del)) and ast.unparse(x) in attrs
                      for t in tg for x in ast.walk(t))
            if hit and s is not d and self.path_exists(d, s, avoid=[d]) and self.path_exists(s, n, avoid=[d]):
                return False
        return True

    def _assigned_in_function(self, e) -> bool:
        """Is any name / attribute chain read by e a store target somewhere in this function?"""
        if self._stores is None:
            self._stores = set()
            for x in ast.walk(self.fn):
                if isinstance(x, (ast.Name, ast.Attribute)) and isinstance(x.ctx, (ast.Store, ast.Del)):
                    self._stores.add(ast.unparse(x))
        reads = {ast.unparse(x) for x in ast.walk(e) if isinstance(x, (ast.Name, ast.Attribute))}
        return bool(reads & self._stores)

    def origin_text(self, n: Node, expr) -> str:
        r = self.origin_expr(n, expr)
        return ast.unparse(r if r is not None else expr)

    def holder(self, a):
        """The CFG node that evaluates ast node a."""
        for n in self.real_nodes():
            for x in n.walk():
                if x is a:
                    return n
        return None

    def value_cases(self, n: Node, expr, depth=3):
        """Enumerate what expr can evaluate to at n: list of (Facts under which, leaf expression with aliases resolved).

        Follows conditional expressions, `a or b`, and local names through all their reaching plain assignments (each with
        the facts that hold at that assignment).  The facts of n itself are included in every case."""
        base = self.facts_at(n)
        out = []
        for conds, leaf in self._cases(n, expr, depth):
            f = Facts(base, base.resolved)
            for c in conds:
                f.add(c)
            out.append((f, leaf))
        return out

    def _plain_defs(self, n, name):
        if name in self._params:
            return None
        defs = self._rd(name).get(n.id, set())
        plain = [d for d in defs if d.kind == 'stmt' and d is not n and self.def_value(d, name) is not None]
        if not defs or len(plain) != len(defs):
            return None
        return sorted(plain, key=lambda x: x.id)

    def _cases(self, n, expr, depth):  # noqa: C901
        # 0. plain aliases first (x = y, a, b = p, q): what is left are names bound to real expressions
        expr = self.origin_expr(n, expr) or expr
        # 1. split on local names that have several definitions / a conditional definition: one case per definition, the
        #    definition substituted everywhere in expr so that tests and values stay correlated
        if depth > 0:
            for x in ast.walk(expr):
                if not (isinstance(x, ast.Name) and isinstance(x.ctx, ast.Load)):
                    continue
                defs = self._plain_defs(n, x.id)
                if defs is None:
                    continue
                if len(defs) == 1 and _pure_chain(self.def_value(defs[0], x.id)) and self.dominates(defs[0], n):
                    continue  # a plain alias: origin_expr deals with it
                res = []
                for d in defs:
                    dv = self.def_value(d, x.id)
                    val = self.origin_expr(d, dv) or dv
                    name = x.id

                    class R(ast.NodeTransformer):
                        def visit_Name(self, node, name=name, val=val):  # noqa: N802
                            if isinstance(node.ctx, ast.Load) and node.id == name:
                                return ast.copy_location(clone(val), node)
                            return node
                    e2 = R().visit(clone(expr))
                    fa = self.facts_at(d)
                    fd = list(fa) + [y for y in fa.resolved if not list.__contains__(fa, y)]
                    for c2, leaf in self._cases(n, e2, depth - 1):
                        res.append((fd + c2, leaf))
                return res
        # 2. structure
        if isinstance(expr, ast.IfExp):
            const = _const_truth(expr.test)
            res = []
            for pol, branch in ((True, expr.body), (False, expr.orelse)):
                if const is not None and const != pol:
                    continue
                conds = []
                if const is None:
                    _atoms(expr.test, pol, conds)
                    r = self.origin_expr(n, expr.test)
                    if r is not None:
                        _atoms(r, pol, conds)
                for c2, leaf in self._cases(n, branch, depth):
                    res.append((conds + c2, leaf))
            return res
        if isinstance(expr, ast.BoolOp) and isinstance(expr.op, ast.Or) and len(expr.values) == 2:
            a, b = expr.values
            ca, cb = [], []
            _atoms(a, True, ca)
            _atoms(a, False, cb)
            return [(ca + c2, leaf) for c2, leaf in self._cases(n, a, depth)] + \
                   [(cb + c2, leaf) for c2, leaf in self._cases(n, b, depth)]
        r = self.origin_expr(n, expr)
        return [([], r if r is not None else expr)]

    def guarded_by(self, n: Node, expr_text: str, polarity: bool) -> bool:
        return (expr_text, polarity) in self.facts_at(n)

    def must_pass(self, a: Node, targets: list[Node]) -> bool:
        """Every normal path from the completion of a to the normal exit completes one of targets."""
        if a in targets:
            return True
        r = self._pp_reach([(a, 1)], avoid=targets, normal_only=True)
        return (self.exit.id, 0) not in r

    def path_exists(self, a: Node, b: Node, avoid=(), normal_only=False, from_exception=False) -> bool:
        """Can b be evaluated after a completed (or, from_exception: after a raised) avoiding `avoid`?"""
        starts = [(h, 0) for h in a.esucc] if from_exception else [(a, 1)]
        return (b.id, 0) in self._pp_reach(starts, avoid=avoid, normal_only=normal_only)

    def path_exists_const(self, a: Node, b: Node) -> bool:
        """Like path_exists(a, b), but branches that test a local whose value is a known constant on the way are followed only
        along the edge that constant selects.  Known constant: every definition of the local that reaches a binds the same
        constant (None / bool / number / string) and no node on the way binds it again.  Decides "b cannot follow a" for
        single-exit code that carries the decision in a result variable (`res = None ... if res is not None: publish`)."""
        env = {}
        names = {x.id for n in self.nodes if n.kind == 'branch' and n.test is not None for x in ast.walk(n.test)
                 if isinstance(x, ast.Name)}
        for nm in names:
            if nm in self._params:
                continue
            defs = self._rd(nm).get(a.id, set())
            vals = []
            for d in defs:
                v = self.def_value(d, nm) if d.kind == 'stmt' else None
                if not isinstance(v, ast.Constant):
                    vals = None
                    break
                vals.append(repr(v.value))
            if vals and len(set(vals)) == 1 and a not in defs:
                env[nm] = next(self.def_value(d, nm).value for d in defs)

        def binds(n):
            out = set()
            st = n.stmt
            if st is None or n.kind == 'branch':
                return out
            tg = []
            if n.kind == 'stmt' and isinstance(st, ast.Assign):
                tg = st.targets
            elif n.kind == 'stmt' and isinstance(st, (ast.AugAssign, ast.AnnAssign)):
                tg = [st.target]
            elif n.kind == 'for':
                tg = [st.target]
            elif n.kind == 'with':
                tg = [i.optional_vars for i in st.items if i.optional_vars is not None]
            for t in tg:
                for x in ast.walk(t):
                    if isinstance(x, ast.Name) and isinstance(x.ctx, ast.Store):
                        out.add(x.id)
            for x in n.walk():
                if isinstance(x, ast.NamedExpr) and isinstance(x.target, ast.Name):
                    out.add(x.target.id)
            return out

        def outcome(test, known):
            if isinstance(test, ast.Name) and test.id in known:
                return bool(known[test.id])
            if isinstance(test, ast.UnaryOp) and isinstance(test.op, ast.Not):
                r = outcome(test.operand, known)
                return None if r is None else not r
            if isinstance(test, ast.Compare) and len(test.ops) == 1 and isinstance(test.left, ast.Name) and \
                    test.left.id in known and isinstance(test.comparators[0], ast.Constant):
                l, r = known[test.left.id], test.comparators[0].value
                op = test.ops[0]
                if isinstance(op, ast.Is):
                    return l is r
                if isinstance(op, ast.IsNot):
                    return l is not r
                if isinstance(op, ast.Eq):
                    return l == r
                if isinstance(op, ast.NotEq):
                    return l != r
            return None
        start = (a.id, frozenset(env))
        seen = {start}
        todo = [(a, frozenset(env))]
        first = True
        while todo:
            n, known = todo.pop()
            if not first:
                known = frozenset(known - binds(n))
            first = False
            for s_ in list(n.succ) + list(n.esucc):
                if s_.kind == 'branch' and s_.label in (True, False) and s_.test is not None:
                    r = outcome(s_.test, {k: env[k] for k in known})
                    if r is not None and r != s_.label:
                        continue
                if s_ is b:
                    return True
                k = (s_.id, known)
                if k not in seen:
                    seen.add(k)
                    todo.append((s_, known))
        return False

    def reaching_defs(self, name: str):
        """node id -> set of nodes whose binding of local `name` may reach the evaluation of that node."""
        def binds(n):
            st = n.stmt
            tg = []
            if n.kind == 'stmt' and isinstance(st, ast.Assign):
                tg = st.targets
            elif n.kind == 'stmt' and isinstance(st, (ast.AugAssign, ast.AnnAssign)):
                tg = [st.target]
            elif n.kind == 'for':
                tg = [st.target]
            elif n.kind == 'with':
                tg = [i.optional_vars for i in st.items if i.optional_vars is not None]
            for t in tg:
                for x in ast.walk(t):
                    if isinstance(x, ast.Name) and x.id == name and isinstance(x.ctx, ast.Store):
                        return True
            return False
        defs = {n.id for n in self.nodes if binds(n)}
        d_in = {n.id: set() for n in self.nodes}
        d_out = {n.id: set() for n in self.nodes}
        changed = True
        while changed:
            changed = False
            for n in self.nodes:
                new_in = set()
                for p in n.pred:
                    new_in |= d_out[p.id]
                for p in n.epred:
                    new_in |= d_in[p.id] | d_out[p.id]
                new_out = {n.id} if n.id in defs else new_in
                if new_in != d_in[n.id] or new_out != d_out[n.id]:
                    d_in[n.id], d_out[n.id] = new_in, new_out
                    changed = True
        return {nid: {self.nodes[i] for i in ids} for nid, ids in d_in.items()}

    def held_withs(self, n: Node, suffix: str | None = None):
        """Enclosing with statements (and matching item text) of node n whose item text ends with suffix."""
        out = []
        for w in n.withs:
            for it in w.items:
                txt = ast.unparse(it.context_expr)
                if suffix is None or txt.endswith(suffix):
                    out.append((w, txt))
        return out


def alpha(e):
    """Rename comprehension variables to $c0, $c1 .. in order of appearance (returns a new tree)."""
    e = clone(e)
    counter = [0]

    def visit(node, env):
        if isinstance(node, (ast.ListComp, ast.SetComp, ast.GeneratorExp, ast.DictComp)):
            env = dict(env)
            for gen in node.generators:
                visit(gen.iter, env)
                for t in ast.walk(gen.target):
                    if isinstance(t, ast.Name):
                        env[t.id] = f'$c{counter[0]}'
                        counter[0] += 1
                visit(gen.target, env)
                for c in gen.ifs:
                    visit(c, env)
            for f in ('elt', 'key', 'value'):
                if hasattr(node, f):
                    visit(getattr(node, f), env)
            return
        if isinstance(node, ast.Name) and node.id in env:
            node.id = env[node.id]
        for c in ast.iter_child_nodes(node):
            visit(c, env)
    visit(e, {})
    return e


def _const_truth(e):
    """Truth value of a constant test (None/True/False/numbers/strings), else None."""
    if isinstance(e, ast.Constant):
        return bool(e.value)
    return None


def _pure_test(e) -> bool:
    """Comparison / not / and / or over pure chains and constants; a boolean constant (result flag)."""
    if isinstance(e, ast.Constant) and isinstance(e.value, bool):
        return True
    if isinstance(e, ast.UnaryOp) and isinstance(e.op, ast.Not):
        return _pure_test(e.operand)
    if isinstance(e, ast.BoolOp):
        return all(_pure_test(v) or _pure_chain(v) for v in e.values)
    if isinstance(e, ast.Compare):
        return all(_pure_chain(x) or isinstance(x, ast.Constant) for x in [e.left, *e.comparators])
    return False


def _pure_chain(e) -> bool:
    while isinstance(e, ast.Attribute):
        e = e.value
    return isinstance(e, ast.Name)


def canon_compare(e: ast.Compare):
    """-> (canonical positive atom text, negated?) of a single-operator comparison.

    `!=`, `is not`, `not in` are the negations of `==`, `is`, `in`; the operands of == are sorted; order comparisons are
    brought to `<` / `<=` with textually sorted operands (`a > b` is not(a <= b), `b >= a` is a <= b)."""
    op = e.ops[0]
    l, r = ast.unparse(e.left), ast.unparse(e.comparators[0])
    if isinstance(op, (ast.Eq, ast.NotEq)):
        l, r = sorted([l, r])
        return f'{l} == {r}', isinstance(op, ast.NotEq)
    if isinstance(op, (ast.Is, ast.IsNot)):
        return f'{l} is {r}', isinstance(op, ast.IsNot)
    if isinstance(op, (ast.In, ast.NotIn)):
        return f'{l} in {r}', isinstance(op, ast.NotIn)
    sym = {ast.Lt: '<', ast.LtE: '<=', ast.Gt: '>', ast.GtE: '>='}.get(type(op))
    if sym is None:
        return ast.unparse(e), False
    if l > r:
        l, r = r, l
        sym = {'<': '>', '<=': '>=', '>': '<', '>=': '<='}[sym]
    if sym == '>':
        return f'{l} <= {r}', True
    if sym == '>=':
        return f'{l} < {r}', True
    return f'{l} {sym} {r}', False


def canon_lit(txt: str, pol: bool):
    """Canonical (atom text, polarity) of a literal given as source text."""
    try:
        e = ast.parse(txt, mode='eval').body
    except SyntaxError:
        return txt, pol
    while isinstance(e, ast.UnaryOp) and isinstance(e.op, ast.Not):
        e, pol = e.operand, not pol
    if isinstance(e, ast.Compare) and len(e.ops) == 1:
        t, neg = canon_compare(e)
        return t, (not pol) if neg else pol
    return ast.unparse(e), pol


def inline_facts(a) -> list:
    """Literals that hold when sub-expression a is evaluated because of where it stands inside its statement: earlier operands
    of an and / or chain, the test of a conditional expression, the filters of an enclosing comprehension."""
    out = []
    cur, child = getattr(a, '_parent', None), a
    while cur is not None and not isinstance(cur, ast.stmt):
        if isinstance(cur, ast.BoolOp):
            idx = next((i for i, v in enumerate(cur.values) if v is child), None)
            if idx:
                for v in cur.values[:idx]:
                    _atoms(v, isinstance(cur.op, ast.And), out)
        if isinstance(cur, (ast.ListComp, ast.GeneratorExp, ast.SetComp, ast.DictComp)):
            for gen in cur.generators:
                if child is not gen.iter and not any(child is x for x in ast.walk(gen.iter)):
                    for cond in gen.ifs:
                        if child is not cond:
                            _atoms(cond, True, out)
        if isinstance(cur, ast.IfExp) and child is not cur.test:
            _atoms(cur.test, child is cur.body, out)
        child, cur = cur, getattr(cur, '_parent', None)
    return out


def truth_under(e, facts):
    """Three-valued truth of expression e given a set of literals (Facts / list of (text, polarity)): True, False or None."""
    raw = list(list.__iter__(facts)) + list(getattr(facts, 'resolved', []))
    lits = {canon_lit(t, p) for t, p in raw}

    def ev(x):
        if isinstance(x, ast.Constant):
            return bool(x.value)
        if isinstance(x, ast.UnaryOp) and isinstance(x.op, ast.Not):
            r = ev(x.operand)
            return None if r is None else not r
        if isinstance(x, ast.BoolOp):
            rs = [ev(v) for v in x.values]
            if isinstance(x.op, ast.And):
                if any(r is False for r in rs):
                    return False
                return True if all(r is True for r in rs) else None
            if any(r is True for r in rs):
                return True
            return False if all(r is False for r in rs) else None
        t, p = canon_lit(ast.unparse(x), True)
        if (t, p) in lits:
            return True
        if (t, not p) in lits:
            return False
        return None
    return ev(e)


def canon_atom(txt: str) -> str:
    """Canonical text of an atom (polarity dropped - use canon_lit when it matters)."""
    return canon_lit(txt, True)[0]


class Facts(list):
    """list of (atom text, polarity) as written; `.resolved` is the same list with local aliases replaced by their origin.

    `in` succeeds for either form and ignores the operand order of ==."""

    def __init__(self, raw=(), resolved=None):
        super().__init__(raw)
        self.resolved = list(resolved) if resolved is not None else []

    def _canon(self):
        return {canon_lit(t, p) for t, p in list(list.__iter__(self)) + self.resolved}

    def __contains__(self, item):
        if not (isinstance(item, tuple) and len(item) == 2 and isinstance(item[0], str)):
            return list.__contains__(self, item)
        return list.__contains__(self, item) or canon_lit(item[0], item[1]) in self._canon()

    def both(self):
        """every fact as written and with local aliases (incl. named conditions) written out, without duplicates"""
        out = list(list.__iter__(self))
        return out + [r for r in self.resolved if r not in out]

    def add(self, atom, resolved_atom=None):
        if not list.__contains__(self, atom):
            self.append(atom)
        r = resolved_atom or atom
        if r not in self.resolved:
            self.resolved.append(r)


def _atoms(test, polarity, out):
    if isinstance(test, ast.UnaryOp) and isinstance(test.op, ast.Not):
        _atoms(test.operand, not polarity, out)
        return
    if isinstance(test, ast.BoolOp):
        if (isinstance(test.op, ast.And) and polarity) or (isinstance(test.op, ast.Or) and not polarity):
            for v in test.values:
                _atoms(v, polarity, out)
            return
        out.append((ast.unparse(test), polarity))
        return
    if isinstance(test, ast.Compare) and len(test.ops) == 1:
        op = test.ops[0]
        # (a, b) == (c, d) known true (or (a, b) != (c, d) known false): the element-wise equalities hold
        lt, rt = test.left, test.comparators[0]
        if isinstance(lt, ast.Tuple) and isinstance(rt, ast.Tuple) and len(lt.elts) == len(rt.elts) and lt.elts and \
                ((isinstance(op, ast.Eq) and polarity) or (isinstance(op, ast.NotEq) and not polarity)):
            for a, b in zip(lt.elts, rt.elts):
                _atoms(ast.Compare(left=a, ops=[ast.Eq()], comparators=[b]), True, out)
            return
        l, r = ast.unparse(test.left), ast.unparse(test.comparators[0])
        neg = {ast.IsNot: 'is', ast.NotEq: '==', ast.NotIn: 'in'}
        for k, v in neg.items():
            if isinstance(op, k):
                out.append((f'{l} {v} {r}', not polarity))
                return
    out.append((ast.unparse(test), polarity))


_cfg_cache = {}
_expanded_cache = {}


def _clone_with(node, repl):
    """clone() that swaps the nodes listed in repl (id -> expression) for clones of their replacement."""
    if isinstance(node, list):
        return [_clone_with(x, repl) for x in node]
    if not isinstance(node, ast.AST):
        return node
    r = repl.get(id(node))
    if r is not None:
        return ast.copy_location(clone(r), node)
    new = type(node)()
    for k, v in node.__dict__.items():
        if k == '_parent':
            continue
        setattr(new, k, _clone_with(v, repl))
    return new


def expand_aliases(fi):
    """A view of function fi in which every use of a local alias of a pure attribute chain (`states = self._mdib.states`,
    `old, new = item.old, item.new`) is replaced by that chain - provided the alias has exactly one definition reaching the
    use on every path.  For rules that ask WHAT is accessed (which table, which field) and not WHEN: the read of an aliased
    attribute happens at the alias definition, which stays in the view as it is."""
    key = id(fi.node)
    if key in _expanded_cache:
        return _expanded_cache[key]
    g = cfg_of(fi)
    repl = {}
    for n in g.real_nodes():
        for a in n.walk():
            if isinstance(a, ast.Name) and isinstance(a.ctx, ast.Load) and a.id not in g._params:  # noqa: SLF001
                d = g.unique_def(n, a.id)
                if d is None:
                    continue
                v = g.def_value(d, a.id)
                if not _pure_chain(v):
                    continue
                full = g.origin_expr(d, v) or v
                # an alias of a plain local / parameter (x = y) is left alone unless it leads to an attribute chain
                if isinstance(full, ast.Name):
                    continue
                repl[id(a)] = full
    if not repl:
        _expanded_cache[key] = fi
        return fi
    node = _clone_with(fi.node, repl)
    ast.fix_missing_locations(node)
    for x in ast.walk(node):
        for child in ast.iter_child_nodes(x):
            child._parent = x  # noqa: SLF001
    node._parent = getattr(fi.node, '_parent', None)  # noqa: SLF001
    new = type(fi)(fi.qual, fi.module, node, fi.cls)
    new.expanded_from = fi
    _expanded_cache[key] = new
    _expanded_cache[id(node)] = new
    return new


def first_else_second(g, n, expr, first, second, sites=None) -> bool:
    """expr at n is `first` when first is given (truthy / not None) and `second` otherwise - whether written `first or second`,
    as a conditional expression, as if/else on a local or through a helper that was expanded.
    sites: [(node, expr), ..] when the value is delivered by several statements (one per branch of an if/else)."""
    seen = set()
    for sn, se in (sites if sites is not None else [(n, expr)]):
        for facts, leaf in g.value_cases(sn, se):
            txt = ast.unparse(leaf)
            if txt == first and ((first, True) in facts or (f'{first} is None', False) in facts):
                seen.add('first')
            elif txt == second and ((first, False) in facts or (f'{first} is None', True) in facts):
                seen.add('second')
            else:
                return False
    return seen == {'first', 'second'}


_fused_cache: dict = {}


def fuse_filters(fi):
    """A view of fi in which `xs = [v for v in IT if C]` ... `for w in xs: BODY` (xs bound once, used only as that loop's
    iterable, the comprehension an identity map) reads `for w in IT: if C[v:=w]: BODY`.  For rules that ask WHICH elements a
    loop acts on and under which condition; it ignores that the selection is complete before the first BODY runs, so it is not
    for rules about the order of effects."""
    key = id(fi.node)
    if key in _fused_cache:
        return _fused_cache[key]
    node = clone(fi.node)
    changed = False
    assigns = [n for n in ast.walk(node) if isinstance(n, ast.Assign) and len(n.targets) == 1 and isinstance(n.targets[0], ast.Name)]
    for a in assigns:
        comp = a.value
        if isinstance(comp, ast.Call) and isinstance(comp.func, ast.Name) and comp.func.id in ('list', 'tuple') and \
                len(comp.args) == 1 and not comp.keywords:
            comp = comp.args[0]
        if not (isinstance(comp, (ast.ListComp, ast.GeneratorExp)) and len(comp.generators) == 1 and comp.generators[0].ifs and
                isinstance(comp.generators[0].target, ast.Name) and isinstance(comp.elt, ast.Name) and
                comp.elt.id == comp.generators[0].target.id and not comp.generators[0].is_async):
            continue
        xs = a.targets[0].id
        stores = [n for n in ast.walk(node) if isinstance(n, ast.Name) and n.id == xs and not isinstance(n.ctx, ast.Load)]
        loads = [n for n in ast.walk(node) if isinstance(n, ast.Name) and n.id == xs and isinstance(n.ctx, ast.Load)]
        loops = [n for n in ast.walk(node) if isinstance(n, ast.For) and isinstance(n.iter, ast.Name) and n.iter.id == xs
                 and isinstance(n.target, ast.Name)]
        if len(stores) != 1 or len(loads) != 1 or len(loops) != 1 or loops[0].orelse:
            continue
        loop, gen = loops[0], comp.generators[0]
        v, w = gen.target.id, loop.target.id

        class Ren(ast.NodeTransformer):
            def visit_Name(self, n):  # noqa: N802
                return ast.copy_location(ast.Name(id=w, ctx=n.ctx), n) if n.id == v else n
        conds = [Ren().visit(clone(c)) for c in gen.ifs]
        test = conds[0] if len(conds) == 1 else ast.BoolOp(op=ast.And(), values=conds)
        loop.iter = gen.iter
        loop.body = [ast.copy_location(ast.If(test=test, body=loop.body, orelse=[]), loop)]
        # drop the selection statement
        for parent in ast.walk(node):
            for fld in ('body', 'orelse', 'finalbody'):
                lst = getattr(parent, fld, None)
                if isinstance(lst, list) and a in lst:
                    lst[lst.index(a)] = ast.copy_location(ast.Pass(), a)
        changed = True
    if not changed:
        _fused_cache[key] = fi
        return fi
    ast.fix_missing_locations(node)
    for x in ast.walk(node):
        for child in ast.iter_child_nodes(x):
            child._parent = x  # noqa: SLF001
    node._parent = getattr(fi.node, '_parent', None)  # noqa: SLF001
    new = type(fi)(fi.qual, fi.module, node, fi.cls)
    new.expanded_from = fi
    _fused_cache[key] = new
    return new


def cfg_of(fi) -> CFG:
    key = id(fi.node)
    g = _cfg_cache.get(key)
    if g is None:
        g = CFG(fi.node)
        _cfg_cache[key] = g
    return g
