"""Flow-insensitive may-taint of "table resident" values inside one function.

A value is *resident* when it is (or is a collection of) an object stored in one of the MDIB tables:
the result of an index lookup `<mdib>.descriptions|states|context_states.<index>.get_one/get/[...]`,
`<table>.objects`, or anything derived from such a value by iteration, subscripting, dict/list
access or aliasing.  `x.mk_copy(...)`, `copy.deepcopy(x)` and `xml_utils.copy_*` cut the taint.
"""
from __future__ import annotations

import ast
import re

from .cfg import call_name
from .util import local_assignments

TABLES = ('descriptions', 'states', 'context_states')
_SRC = re.compile(r'(?:^|\.)_?mdib\.(descriptions|states|context_states)\b')
SANITIZERS = {'mk_copy', 'deepcopy'}
PASS_THROUGH_CALLS = {'list', 'tuple', 'sorted', 'reversed', 'set', 'dict', '__iter_elem__', 'cast', 'next', 'iter'}
PASS_THROUGH_METHODS = {'get', 'get_one', 'values', 'items', 'copy', 'pop', '__getitem__'}


_SRC_SELF = re.compile(r'^self\.(descriptions|states|context_states)\b')
_self_is_mdib = [False]


def is_table_expr(e) -> bool:
    try:
        txt = ast.unparse(e)
    except Exception:  # noqa: BLE001
        return False
    return bool(_SRC.search(txt)) or (_self_is_mdib[0] and bool(_SRC_SELF.search(txt)))


class Resident:
    def __init__(self, fn, extra_sources=None, self_is_mdib=False):
        self.fn = fn
        self.self_is_mdib = self_is_mdib
        _self_is_mdib[0] = self_is_mdib
        self.assigns = local_assignments(fn)
        self.extra = extra_sources or (lambda e: False)
        self.tainted: set[str] = set()
        self.table_aliases: set[str] = set()
        changed = True
        while changed:
            changed = False
            for name, vals in self.assigns.items():
                if name not in self.table_aliases and vals and all(self._is_table_value(v) for v in vals):
                    self.table_aliases.add(name)
                    changed = True
        # a loop variable over a tuple of tables (`for table in (self.states, self.context_states):`) names a table
        for lp in ast.walk(fn):
            if isinstance(lp, ast.For) and isinstance(lp.target, ast.Name) and isinstance(lp.iter, (ast.Tuple, ast.List)) and \
                    lp.iter.elts and all(self._is_table_value(e) for e in lp.iter.elts):
                self.table_aliases.add(lp.target.id)
        changed = True
        while changed:
            changed = False
            for name, vals in self.assigns.items():
                if name in self.tainted:
                    continue
                if any(self.is_resident(v) for v in vals):
                    self.tainted.add(name)
                    changed = True

    def _is_table_value(self, v) -> bool:
        _self_is_mdib[0] = self.self_is_mdib
        if isinstance(v, ast.IfExp):
            return self._is_table_value(v.body) and self._is_table_value(v.orelse)
        if isinstance(v, ast.Name):
            return v.id in self.table_aliases  # alias of an alias / closure variable of the enclosing function
        if isinstance(v, ast.Call) and isinstance(v.func, ast.Name):
            # a local helper function that returns one of the tables
            for d in ast.walk(self.fn):
                if isinstance(d, ast.FunctionDef) and d.name == v.func.id and d is not self.fn:
                    rets = [r.value for r in ast.walk(d) if isinstance(r, ast.Return) and r.value is not None]
                    return bool(rets) and all(self._is_table_value(r) for r in rets)
            return False
        if isinstance(v, ast.Attribute) and v.attr in TABLES and is_table_expr(v):
            return True
        if isinstance(v, ast.Attribute):   # an index of an aliased table: `idx = table_alias.handle`
            root = v
            while isinstance(root, ast.Attribute):
                root = root.value
            return isinstance(root, ast.Name) and root.id in self.table_aliases
        return False

    def is_table(self, e) -> bool:
        """e denotes an MDIB table or one of its indices (directly or through a local alias)."""
        _self_is_mdib[0] = self.self_is_mdib
        if is_table_expr(e):
            return True
        root = e
        while isinstance(root, ast.Attribute):
            root = root.value
        return isinstance(root, ast.Name) and root.id in self.table_aliases

    def is_resident(self, e) -> bool:  # noqa: C901, PLR0911, PLR0912
        _self_is_mdib[0] = self.self_is_mdib
        if e is None:
            return False
        if self.extra(e):
            return True
        if isinstance(e, ast.Name):
            return e.id in self.tainted
        if isinstance(e, ast.Call):
            nm = call_name(e)
            if nm in SANITIZERS or (nm or '').startswith('copy_'):
                return False
            if isinstance(e.func, ast.Attribute):
                if nm == 'copy' and isinstance(e.func.value, ast.Name) and e.func.value.id == 'copy':
                    return any(self.is_resident(a) for a in e.args)  # copy.copy(x): one level only
                if nm in PASS_THROUGH_METHODS:
                    if self.is_table(e.func.value) or self.is_resident(e.func.value):
                        return True
                    return False
                return False
            if nm in PASS_THROUGH_CALLS:
                if nm == 'cast' and len(e.args) == 2:
                    return self.is_resident(e.args[1])
                return any(self.is_resident(a) for a in e.args)
            return False
        if isinstance(e, ast.Attribute):
            if e.attr == 'objects' and self.is_table(e.value):
                return True
            if e.attr == 'old' and isinstance(e.value, ast.Name) and 'item' in e.value.id:
                return True
            return False
        if isinstance(e, ast.Subscript):
            if self.is_table(e.value):
                return True
            return self.is_resident(e.value)
        if isinstance(e, (ast.IfExp,)):
            return self.is_resident(e.body) or self.is_resident(e.orelse)
        if isinstance(e, ast.BoolOp):
            return any(self.is_resident(v) for v in e.values)
        if isinstance(e, (ast.List, ast.Tuple, ast.Set)):
            return any(self.is_resident(v) for v in e.elts)
        if isinstance(e, (ast.ListComp, ast.SetComp, ast.GeneratorExp)):
            return self.is_resident(e.elt)
        if isinstance(e, ast.DictComp):
            return self.is_resident(e.value)
        if isinstance(e, ast.Dict):
            return any(self.is_resident(v) for v in e.values)
        if isinstance(e, ast.Starred):
            return self.is_resident(e.value)
        if isinstance(e, ast.NamedExpr):
            return self.is_resident(e.value)
        return False
