"""Flow-insensitive data dependence inside one function: what may the value of an expression be computed from?

`Deps(fn).sources(expr)` is the set of atomic sources reachable from expr through local assignments, loop targets,
comprehensions and container mutations (`x.append(v)`, `x.extend(v)`, `x.add(v)`, `x.update(v)`, `x[k] = v`,
`x[k].append(v)` all make x depend on k and v - and on the tests of the if / while
statements the mutation sits in):

    param:<name>        a parameter of fn
    name:<id>           a free / global name
    self.<a>.<b>        an attribute chain rooted at self (every prefix is listed too)
    attr:<name>         some attribute of that name is read on the way
    call:<name>         some function / method of that name is called on the way
    kind:<NodeType>     a set / dict construction (SetComp, Set, DictComp, Dict) is on the way
    cmp:<op>            a comparison with that operator is on the way (e.g. a comprehension filter)

A may-analysis: it over-approximates.  Rules use it for "the result depends on ..." obligations, where the loop / comprehension
/ accumulate-in-a-list spellings of one computation must all give the same answer.
"""
from __future__ import annotations

import ast

from .repo import walk_no_nested
from .util import func_params, local_assignments

MUTATORS = {'append', 'extend', 'add', 'update', 'insert', 'appendleft', 'setdefault', 'put'}


class Deps:
    def __init__(self, fn, resolver=None):
        """resolver(name) -> FunctionDef of the method `self.<name>` / module function `<name>` (or None): calls to such
        functions contribute the sources of what they return, with the callee's parameters replaced by the sources of the
        arguments (one summary per callee, no recursion into recursive calls)."""
        self.fn = fn
        self.resolver = resolver
        self._summaries = {}
        self.params = set(func_params(fn))
        self.binds = {k: list(v) for k, v in local_assignments(fn).items()}
        for n in walk_no_nested(fn):
            if isinstance(n, ast.Call) and isinstance(n.func, ast.Attribute) and n.func.attr in MUTATORS:
                root, keys = self._container(n.func.value)
                if root is not None:
                    self.binds.setdefault(root, []).extend(list(n.args) + [k.value for k in n.keywords] + keys +
                                                           self._controlling_tests(n))
            elif isinstance(n, (ast.Assign, ast.AugAssign)):
                targets = n.targets if isinstance(n, ast.Assign) else [n.target]
                for t in targets:
                    if isinstance(t, ast.Subscript):
                        root, keys = self._container(t)
                        if root is not None:
                            self.binds.setdefault(root, []).extend([n.value] + keys + self._controlling_tests(n))
        # a constant chosen by a branch (`if c: x = '+' else: x = '-'`, the statement form of a conditional expression) carries
        # the information of the test
        for n in walk_no_nested(fn):
            if isinstance(n, ast.Assign) and len(n.targets) == 1 and isinstance(n.targets[0], ast.Name) and \
                    isinstance(n.value, ast.Constant):
                tests = self._controlling_tests(n)
                if tests:
                    self.binds.setdefault(n.targets[0].id, []).extend(tests)
        self._memo = {}

    def _controlling_tests(self, node):
        """Tests of the if / while statements around a container mutation: what ends up in the container depends on them
        (`if h in removed: keys.append(k)` makes keys depend on removed)."""
        out = []
        cur = getattr(node, '_parent', None)
        while cur is not None and cur is not self.fn:
            if isinstance(cur, (ast.If, ast.While)):
                out.append(cur.test)
            cur = getattr(cur, '_parent', None)
        return out

    @staticmethod
    def _container(e):
        """x / x[k] / x[k][j] -> ('x', [k, j])"""
        keys = []
        while isinstance(e, ast.Subscript):
            keys.append(e.slice)
            e = e.value
        if isinstance(e, ast.Name):
            return e.id, keys
        return None, []

    def sources(self, expr) -> set[str]:
        out = set()
        self._walk(expr, out, set())
        return out

    def _walk(self, expr, out, seen):
        for n in ast.walk(expr):
            if isinstance(n, ast.Name):
                if n.id in self.params and n.id not in ('self', 'cls'):
                    out.add(f'param:{n.id}')
                if n.id in self.binds:
                    if n.id in seen:
                        continue
                    seen.add(n.id)
                    for v in self.binds[n.id]:
                        self._walk(v, out, seen)
                elif n.id not in self.params:
                    out.add(f'name:{n.id}')
            elif isinstance(n, ast.Attribute):
                out.add(f'attr:{n.attr}')
                parts = []
                e = n
                while isinstance(e, ast.Attribute):
                    parts.append(e.attr)
                    e = e.value
                if isinstance(e, ast.Name) and e.id == 'self':
                    out.add('self.' + '.'.join(reversed(parts)))
            elif isinstance(n, ast.Call):
                f = n.func
                nm = f.attr if isinstance(f, ast.Attribute) else f.id if isinstance(f, ast.Name) else None
                if nm:
                    out.add(f'call:{nm}')
                    self._through_callee(n, nm, out, seen)
            elif isinstance(n, (ast.SetComp, ast.Set, ast.DictComp, ast.Dict)):
                out.add(f'kind:{type(n).__name__}')
            elif isinstance(n, ast.Compare):
                for op in n.ops:
                    out.add(f'cmp:{type(op).__name__}')

    def callee(self, call):
        """(FunctionDef, {param: argument expr}) for a call that the resolver knows, else (None, None)."""
        if self.resolver is None:
            return None, None
        f = call.func
        if isinstance(f, ast.Attribute) and isinstance(f.value, ast.Name) and f.value.id in ('self', 'cls'):
            fn = self.resolver(f.attr)
            skip = 1
        elif isinstance(f, ast.Name):
            fn = self.resolver(f.id)
            skip = 0
        else:
            return None, None
        if fn is None or fn is self.fn:
            return None, None
        params = [a.arg for a in fn.args.args]
        if skip and any(isinstance(d, ast.Name) and d.id == 'staticmethod' for d in fn.decorator_list):
            skip = 0
        params = params[skip:]
        amap = dict(zip(params, call.args))
        for kw in call.keywords:
            if kw.arg in params:
                amap[kw.arg] = kw.value
        return fn, amap

    def _through_callee(self, call, nm, out, seen):
        fn, amap = self.callee(call)
        if fn is None:
            return
        if nm not in self._summaries:
            self._summaries[nm] = set()   # recursion guard
            sub = Deps(fn, self.resolver)
            sub._summaries = self._summaries
            summ = set()
            for r in walk_no_nested(fn):
                if isinstance(r, ast.Return) and r.value is not None:
                    summ |= sub.sources(r.value)
            self._summaries[nm] = summ
        for src in self._summaries[nm]:
            if src.startswith('param:') and src[6:] in amap:
                self._walk(amap[src[6:]], out, seen)
            elif not src.startswith('param:'):
                out.add(src)

    def reach(self, expr) -> list:
        """expr and every expression bound (transitively) to a local it mentions - the ASTs behind sources()."""
        out, seen, todo = [], set(), [expr]
        while todo:
            e = todo.pop()
            out.append(e)
            for n in ast.walk(e):
                if isinstance(n, ast.Name) and n.id in self.binds and n.id not in seen:
                    seen.add(n.id)
                    todo.extend(self.binds[n.id])
        return out

    def depends(self, expr, *wanted) -> bool:
        s = self.sources(expr)
        return all(w in s for w in wanted)
