"""May-analysis of one local variable over a small enumerated abstract domain, with branch refinement.

The rule supplies
  * `values`: the abstract values (strings),
  * `assign(stmt_value_expr) -> set of values | None`: what an assignment `var = expr` produces (None: any value),
  * `atom(value, atom_text) -> True | False | None`: the truth of an atomic test for a variable holding that abstract value
    (None: not determined), atom_text being canonical text with the variable written as `$v`.

state(n) = the abstract values `var` may hold when n is evaluated.  Branch pseudo nodes keep a value only when their test can
have that outcome for it (three-valued and/or/not, Python short-circuit order does not matter for "can have").  Because the
refinement is semantic, `if a and b: v = None` / `if not (a and b): return v` / nested ifs / guard clauses give the same
states.
"""
from __future__ import annotations

import ast

from .cfg import CFG, canon_atom


def _subst_var(e, var):
    class R(ast.NodeTransformer):
        def visit_Name(self, n):  # noqa: N802
            return ast.copy_location(ast.Name(id='$v', ctx=n.ctx), n) if n.id == var else n
    from .errors import clone
    return R().visit(clone(e))


def tri(test, var, value, atom):
    """Three-valued truth of test for `var` holding abstract value `value`."""
    if isinstance(test, ast.UnaryOp) and isinstance(test.op, ast.Not):
        r = tri(test.operand, var, value, atom)
        return None if r is None else not r
    if isinstance(test, ast.BoolOp):
        rs = [tri(v, var, value, atom) for v in test.values]
        if isinstance(test.op, ast.And):
            # a definitely false operand makes the conjunction false whether or not evaluation gets that far
            if any(r is False for r in rs):
                return False
            return True if all(r is True for r in rs) else None
        if any(r is True for r in rs):
            return True
        return False if all(r is False for r in rs) else None
    if isinstance(test, ast.Compare) and len(test.ops) == 1:
        from .cfg import canon_compare
        t, negated = canon_compare(_subst_var(test, var))
        r = atom(value, t)
        return None if r is None else (not r if negated else r)
    if isinstance(test, ast.Constant):
        return bool(test.value)
    return atom(value, canon_atom(ast.unparse(_subst_var(test, var))))


def analyse(g: CFG, var: str, values, assign, atom, initial=None):
    """-> {node id: set of abstract values var may hold on entry to the node}."""
    top = set(values)
    state = {n.id: set() for n in g.nodes}
    outs = {n.id: set() for n in g.nodes}
    reached = {g.entry.id}
    outs[g.entry.id] = set(initial) if initial is not None else set(top)
    changed = True
    rounds = 0
    while changed and rounds < 200:
        changed = False
        rounds += 1
        for n in g.nodes:
            if n is g.entry:
                continue
            preds = [p for p in list(n.pred) + list(n.epred) if p.id in reached]
            if not preds:
                continue
            s = set()
            for p in n.pred:
                if p.id in reached:
                    s |= outs[p.id]
            for p in n.epred:
                if p.id in reached:
                    s |= state[p.id] | outs[p.id]
            out = set(s)
            if n.kind == 'branch' and n.label in (True, False):
                out = {v for v in s if tri(n.test, var, v, atom) in (n.label, None)}
            elif n.kind == 'stmt' and isinstance(n.stmt, (ast.Assign, ast.AnnAssign)):
                tg = n.stmt.targets if isinstance(n.stmt, ast.Assign) else [n.stmt.target]
                if any(isinstance(t, ast.Name) and t.id == var for t in tg) and n.stmt.value is not None:
                    r = assign(n.stmt.value)
                    out = set(top) if r is None else set(r)
                elif any(isinstance(x, ast.Name) and x.id == var and isinstance(x.ctx, ast.Store)
                         for t in tg for x in ast.walk(t)):
                    out = set(top)
            elif n.kind in ('for', 'with') and any(isinstance(x, ast.Name) and x.id == var and isinstance(x.ctx, ast.Store)
                                                    for x in n.walk()):
                out = set(top)
            if n.id not in reached or s != state[n.id] or out != outs[n.id]:
                reached.add(n.id)
                state[n.id], outs[n.id] = s, out
                changed = True
    return state
