"""Small AST helpers shared by the rules."""
from __future__ import annotations

import ast

from .cfg import call_name
from .repo import walk_no_nested


def dotted(e) -> str | None:
    """'a.b.c' for Name/Attribute chains, else None."""
    parts = []
    while isinstance(e, ast.Attribute):
        parts.append(e.attr)
        e = e.value
    if isinstance(e, ast.Name):
        parts.append(e.id)
        return '.'.join(reversed(parts))
    return None


def unparse(e) -> str:
    return ast.unparse(e) if e is not None else ''


def xsrc(fi) -> str:
    """Source text of function fi with local aliases of attribute chains written out (cfg.expand_aliases): text patterns that
    name attributes / parameters keep matching when a maintainer introduces or removes such aliases."""
    from .cfg import expand_aliases
    return ast.unparse(expand_aliases(fi).node)


def calls_in(node, name=None):
    out = []
    for n in ast.walk(node):
        if isinstance(n, ast.Call) and (name is None or call_name(n) == name):
            out.append(n)
    return out


def local_assignments(fn) -> dict[str, list[ast.expr]]:
    """name -> list of value expressions assigned to it anywhere in fn (flow-insensitive).

    Tuple targets map every element name to ('unpack', index, value) pseudo nodes via ast.Subscript.
    """
    out: dict[str, list] = {}
    for n in walk_no_nested(fn):
        targets = []
        value = None
        if isinstance(n, ast.Assign):
            targets, value = n.targets, n.value
        elif isinstance(n, ast.AnnAssign) and n.value is not None:
            targets, value = [n.target], n.value
        elif isinstance(n, ast.AugAssign):
            targets, value = [n.target], n
        elif isinstance(n, (ast.For, ast.AsyncFor)):
            targets, value = [n.target], ast.Call(func=ast.Name(id='__iter_elem__', ctx=ast.Load()),
                                                  args=[n.iter], keywords=[])
        elif isinstance(n, ast.NamedExpr):
            targets, value = [n.target], n.value
        elif isinstance(n, (ast.With, ast.AsyncWith)):
            for it in n.items:
                if it.optional_vars is not None:
                    _bind(out, it.optional_vars, it.context_expr)
            continue
        elif isinstance(n, ast.comprehension):
            targets, value = [n.target], ast.Call(func=ast.Name(id='__iter_elem__', ctx=ast.Load()),
                                                  args=[n.iter], keywords=[])
        for t in targets:
            _bind(out, t, value)
    return out


def _bind(out, target, value):
    if isinstance(target, ast.Name):
        out.setdefault(target.id, []).append(value)
    elif isinstance(target, (ast.Tuple, ast.List)):
        for i, elt in enumerate(target.elts):
            if isinstance(value, (ast.Tuple, ast.List)) and len(value.elts) == len(target.elts):
                _bind(out, elt, value.elts[i])
            else:
                sub = ast.Subscript(value=value, slice=ast.Constant(value=i), ctx=ast.Load())
                _bind(out, elt, sub)
    elif isinstance(target, ast.Starred):
        _bind(out, target.value, value)


def roots(expr, assigns, depth=8, _seen=None) -> list[ast.expr]:
    """Expressions that expr may evaluate to after following local names (flow-insensitive may-analysis).

    Follows Name -> assigned values, IfExp, BoolOp; everything else is a root.
    """
    if _seen is None:
        _seen = set()
    out = []
    if isinstance(expr, ast.Name) and expr.id in assigns and depth > 0:
        if expr.id in _seen:
            return []
        _seen = _seen | {expr.id}
        for v in assigns[expr.id]:
            out.extend(roots(v, assigns, depth - 1, _seen))
        return out
    if isinstance(expr, ast.IfExp):
        return roots(expr.body, assigns, depth, _seen) + roots(expr.orelse, assigns, depth, _seen)
    if isinstance(expr, ast.BoolOp):
        for v in expr.values:
            out.extend(roots(v, assigns, depth, _seen))
        return out
    return [expr]


def names_in(expr) -> set[str]:
    return {n.id for n in ast.walk(expr) if isinstance(n, ast.Name)}


def depends_on(expr, assigns, name, depth=10) -> bool:
    """May the value of expr be data-dependent on local name `name` (transitively through assignments)?"""
    seen = set()
    todo = [expr]
    while todo and depth:
        e = todo.pop()
        for nm in names_in(e):
            if nm == name:
                return True
            if nm in seen:
                continue
            seen.add(nm)
            todo.extend(assigns.get(nm, []))
    return False


def func_params(fn) -> list[str]:
    a = fn.args
    return [x.arg for x in a.posonlyargs + a.args + a.kwonlyargs] + \
        ([a.vararg.arg] if a.vararg else []) + ([a.kwarg.arg] if a.kwarg else [])


def stores(fn):
    """(target expr, stmt) for every attribute/subscript/name store in fn (not nested defs)."""
    out = []
    for n in walk_no_nested(fn):
        if isinstance(n, ast.Assign):
            for t in n.targets:
                out.extend((x, n) for x in _flat(t))
        elif isinstance(n, (ast.AugAssign, ast.AnnAssign)):
            out.extend((x, n) for x in _flat(n.target))
    return out


def _flat(t):
    if isinstance(t, (ast.Tuple, ast.List)):
        for e in t.elts:
            yield from _flat(e)
    else:
        yield t


def registrations(repo):
    """register_post_handler(DispatchKey(actions.X, msg_names.Y), self.h) -> (cls, fi, X, Y, handler name)."""
    out = []
    for fi in repo.funcs.values():
        for c in calls_in(fi.node, 'register_post_handler'):
            if len(c.args) != 2 or not isinstance(c.args[0], ast.Call):
                continue
            key = c.args[0]
            if call_name(key) != 'DispatchKey' or len(key.args) < 1:
                continue
            action = key.args[0].attr if isinstance(key.args[0], ast.Attribute) else unparse(key.args[0])
            msg = None
            if len(key.args) > 1:
                msg = key.args[1].attr if isinstance(key.args[1], ast.Attribute) else unparse(key.args[1])
            h = c.args[1]
            hname = h.attr if isinstance(h, ast.Attribute) else unparse(h)
            out.append((fi.cls, fi, action, msg, hname, c))
    return out


def self_calls(fn):
    """Names of methods called as self.m(...) in fn."""
    out = []
    for c in calls_in(fn):
        f = c.func
        if isinstance(f, ast.Attribute) and isinstance(f.value, ast.Name) and f.value.id in ('self', 'cls'):
            out.append((f.attr, c))
    return out


def const_value(e):
    if isinstance(e, ast.Constant):
        return e.value
    if isinstance(e, ast.UnaryOp) and isinstance(e.op, ast.USub) and isinstance(e.operand, ast.Constant):
        return -e.operand.value
    return None


def const_str(module_tree, expr, depth=0):
    """The string a module-level expression evaluates to when it is built from literals, f-strings over module-level string
    constants and members of str-valued enum / constant classes of the module; None when it cannot be folded."""
    if depth > 12:
        return None
    if isinstance(expr, ast.Constant) and isinstance(expr.value, str):
        return expr.value
    if isinstance(expr, ast.JoinedStr):
        out = []
        for v in expr.values:
            s = const_str(module_tree, v.value if isinstance(v, ast.FormattedValue) else v, depth + 1)
            if s is None or (isinstance(v, ast.FormattedValue) and (v.format_spec is not None or v.conversion != -1)):
                return None
            out.append(s)
        return ''.join(out)
    if isinstance(expr, ast.BinOp) and isinstance(expr.op, ast.Add):
        a, b = const_str(module_tree, expr.left, depth + 1), const_str(module_tree, expr.right, depth + 1)
        return None if a is None or b is None else a + b
    if isinstance(expr, ast.Name):
        vals = [st.value for st in module_tree.body if isinstance(st, ast.Assign) and len(st.targets) == 1 and
                isinstance(st.targets[0], ast.Name) and st.targets[0].id == expr.id]
        vals += [st.value for st in module_tree.body if isinstance(st, ast.AnnAssign) and isinstance(st.target, ast.Name) and
                 st.target.id == expr.id and st.value is not None]
        return const_str(module_tree, vals[0], depth + 1) if len(vals) == 1 else None
    if isinstance(expr, ast.Attribute) and isinstance(expr.value, ast.Name):
        for st in module_tree.body:
            if isinstance(st, ast.ClassDef) and st.name == expr.value.id:
                vals = [x.value for x in st.body if isinstance(x, ast.Assign) and len(x.targets) == 1 and
                        isinstance(x.targets[0], ast.Name) and x.targets[0].id == expr.attr]
                return const_str(module_tree, vals[0], depth + 1) if len(vals) == 1 else None
    if isinstance(expr, ast.Call) and isinstance(expr.func, ast.Attribute) and expr.func.attr == 'compile' and expr.args:
        return const_str(module_tree, expr.args[0], depth + 1)
    return None
