"""Syntax-directed translation of small predicate functions into a canonical quantified formula.

Recognised statement idioms (all mean the same and normalise to the same formula):
    for x in xs:                      if not all(P(x) for x in xs):       return all(P(x) for x in xs) and ...
        if not P(x): return False         return False
    if xs is not None: <block>        ->  (xs is None) or <block formula>
Formulas are nested tuples: ('and', f1, f2, ..), ('or', ..), ('not', f), ('forall', iter, body), ('exists', iter, body),
('atom', text), ('const', True/False).  Bound variables are alpha-renamed to $0, $1 .. so loop variable names do not matter.
Anything outside the recognised subset raises AnalysisError (fail closed, never a guess).
"""
from __future__ import annotations

import ast

from .errors import AnalysisError


def _subst(e: ast.AST, mapping: dict) -> ast.AST:
    """Replace names by other names (str) or by expressions (ast) - used for bound variables and local aliases."""
    from .errors import clone

    class R(ast.NodeTransformer):
        def visit_Name(self, n):  # noqa: N802
            m = mapping.get(n.id)
            if m is None:
                return n
            if isinstance(m, str):
                return ast.copy_location(ast.Name(id=m, ctx=n.ctx), n)
            return clone(m)
    return R().visit(clone(e))


def _rename(e: ast.AST, mapping: dict) -> str:
    return ast.unparse(_subst(e, mapping))


def _strip_walrus(e, env):
    """(x := E) -> E, remembering x = E for what is evaluated afterwards."""
    found = {}

    class W(ast.NodeTransformer):
        def visit_NamedExpr(self, n):  # noqa: N802
            v = self.visit(n.value)
            if isinstance(n.target, ast.Name):
                found[n.target.id] = _subst(v, env)
            return v
    from .errors import clone
    e2 = W().visit(clone(e))
    if not found:
        return e, env
    return e2, dict(env, **found)


RESOLVER = [None]   # optional: name -> FunctionDef of a module-level predicate whose formula replaces a call to it


def expr_formula(e, env=None, depth=0):  # noqa: C901, PLR0911
    env = env or {}
    if isinstance(e, ast.Name) and '#f:' + e.id in env:
        return env['#f:' + e.id]    # a result flag computed by a loop (see block_formula)
    if isinstance(e, ast.Name) and isinstance(env.get(e.id), ast.AST) and not isinstance(env[e.id], ast.Name):
        return expr_formula(env[e.id], {k: v for k, v in env.items() if k.startswith('#f:')}, depth)   # already written out
    if isinstance(e, ast.Call) and isinstance(e.func, ast.Name) and RESOLVER[0] is not None and not e.keywords:
        callee = RESOLVER[0](e.func.id)
        if callee is not None and len(callee.args.args) == len(e.args) and not callee.args.vararg and not callee.args.kwarg:
            # the callee's formula with its parameters replaced by the (already renamed) arguments
            env2 = {a.arg: _subst(v, env) for a, v in zip(callee.args.args, e.args)}
            body = [s for s in callee.body if not (isinstance(s, ast.Expr) and isinstance(s.value, ast.Constant))]
            try:
                return block_formula(body, env2, depth)
            except AnalysisError:
                pass   # not a predicate in the recognised subset: stays an opaque atom
    if isinstance(e, ast.BoolOp) and any(isinstance(x, ast.NamedExpr) for x in ast.walk(e)):
        parts = []
        for v in e.values:
            v2, env = _strip_walrus(v, env)
            parts.append(expr_formula(v2, env, depth))
        return mk('and' if isinstance(e.op, ast.And) else 'or', parts)
    if isinstance(e, ast.Compare) and any(isinstance(x, ast.NamedExpr) for x in ast.walk(e)):
        e, env = _strip_walrus(e, env)
    if isinstance(e, ast.Constant) and isinstance(e.value, bool):
        return ('const', e.value)
    if isinstance(e, ast.UnaryOp) and isinstance(e.op, ast.Not):
        return neg(expr_formula(e.operand, env, depth))
    if isinstance(e, ast.BoolOp):
        parts = [expr_formula(v, env, depth) for v in e.values]
        return mk('and' if isinstance(e.op, ast.And) else 'or', parts)
    if isinstance(e, ast.Call) and isinstance(e.func, ast.Name) and e.func.id in ('all', 'any') and len(e.args) == 1 \
            and isinstance(e.args[0], (ast.GeneratorExp, ast.ListComp)) and len(e.args[0].generators) == 1:
        gen = e.args[0].generators[0]
        inner = env.get(gen.iter.id) if isinstance(gen.iter, ast.Name) else gen.iter
        if isinstance(inner, (ast.GeneratorExp, ast.ListComp)) and len(inner.generators) == 1 and \
                isinstance(inner.generators[0].target, ast.Name):
            # quantification over a filtered / mapped sequence: Q y in (E(x) for x in XS if C(x)): P(y)
            #   any -> exists x in XS: C(x) and P(E(x))        all -> forall x in XS: not C(x) or P(E(x))
            ig = inner.generators[0]
            var = f'${depth}'
            env_in = dict(env, **{ig.target.id: var})
            conds = []
            for c in ig.ifs:
                c2, env_in = _strip_walrus(c, env_in)
                conds.append(expr_formula(c2, env_in, depth + 1))
            elt = _subst(inner.elt, env_in)
            env2 = dict(env_in)
            if isinstance(gen.target, ast.Name):
                env2[gen.target.id] = elt
            elif isinstance(gen.target, ast.Tuple) and isinstance(elt, ast.Tuple) and len(elt.elts) == len(gen.target.elts) \
                    and all(isinstance(t, ast.Name) for t in gen.target.elts):
                for t, v in zip(gen.target.elts, elt.elts):
                    env2[t.id] = v
            else:
                raise AnalysisError(f'boolform: unsupported comprehension target in {ast.unparse(e)}')
            body = expr_formula(e.args[0].elt, env2, depth + 1)
            for cond in gen.ifs:
                c = expr_formula(cond, env2, depth + 1)
                conds.append(c)
            for c in conds:
                body = mk('or', [neg(c), body]) if e.func.id == 'all' else mk('and', [c, body])
            return ('forall' if e.func.id == 'all' else 'exists', _rename(ig.iter, env), body)
        if not isinstance(gen.target, ast.Name):
            raise AnalysisError(f'boolform: unsupported comprehension target in {ast.unparse(e)}')
        var = f'${depth}'
        env2 = dict(env, **{gen.target.id: var})
        body = expr_formula(e.args[0].elt, env2, depth + 1)
        for cond in gen.ifs:
            c = expr_formula(cond, env2, depth + 1)
            body = mk('or', [neg(c), body]) if e.func.id == 'all' else mk('and', [c, body])
        return ('forall' if e.func.id == 'all' else 'exists', _rename(gen.iter, env), body)
    if isinstance(e, ast.Compare) and len(e.ops) == 1:
        # canonical atoms (same scheme as cfg.canon_compare): !=, is not, not in are negations; operands of == sorted;
        # order comparisons brought to < / <= with sorted operands
        from .cfg import canon_compare
        t, negated = canon_compare(_subst(e, env))
        return neg(('atom', t)) if negated else ('atom', t)
    return ('atom', _rename(e, env))


def neg(f):
    if f[0] == 'const':
        return ('const', not f[1])
    if f[0] == 'not':
        return f[1]
    if f[0] == 'and':
        return mk('or', [neg(x) for x in f[1:]])
    if f[0] == 'or':
        return mk('and', [neg(x) for x in f[1:]])
    if f[0] == 'forall':
        return ('exists', f[1], neg(f[2]))
    if f[0] == 'exists':
        return ('forall', f[1], neg(f[2]))
    return ('not', f)


def mk(op, parts):
    flat = []
    for p in parts:
        if p[0] == op:
            flat.extend(p[1:])
        else:
            flat.append(p)
    absorbing = ('const', op == 'or')
    neutral = ('const', op == 'and')
    if absorbing in flat:
        return absorbing
    flat = [p for p in flat if p != neutral]
    uniq = []
    for p in flat:
        if p not in uniq:
            uniq.append(p)
    if not uniq:
        return neutral
    if len(uniq) == 1:
        return uniq[0]
    return (op, *sorted(uniq, key=repr))


def block_formula(stmts, env=None, depth=0):  # noqa: C901
    """Formula for "this block returns True" assuming the block always returns a bool."""
    env = env or {}
    if not stmts:
        raise AnalysisError('boolform: block falls off the end without a return')
    st, rest = stmts[0], stmts[1:]
    if isinstance(st, ast.Expr) and isinstance(st.value, ast.Constant):
        return block_formula(rest, env, depth)
    if isinstance(st, ast.Return):
        if st.value is None:
            raise AnalysisError('boolform: bare return')
        return expr_formula(st.value, env, depth)
    if isinstance(st, ast.If):
        c = expr_formula(st.test, env, depth)
        then = block_formula(list(st.body) if _always_returns(st.body) else list(st.body) + rest, env, depth)
        other = block_formula(list(st.orelse) if _always_returns(st.orelse) else list(st.orelse) + rest, env, depth)
        return mk('or', [mk('and', [c, then]), mk('and', [neg(c), other])])
    if isinstance(st, ast.Assign) and len(st.targets) == 1 and isinstance(st.targets[0], ast.Name):
        env2 = dict(env)
        env2.pop('#f:' + st.targets[0].id, None)
        if isinstance(st.value, ast.Name) and '#f:' + st.value.id in env:
            env2['#f:' + st.targets[0].id] = env['#f:' + st.value.id]
        env2[st.targets[0].id] = _subst(st.value, env)
        return block_formula(rest, env2, depth)
    if isinstance(st, ast.For) and isinstance(st.target, ast.Name) and not st.orelse and len(st.body) == 1 and \
            isinstance(st.body[0], ast.If) and not st.body[0].orelse and len(st.body[0].body) == 1 and \
            isinstance(st.body[0].body[0], ast.Return) and st.body[0].body[0].value is not None and \
            not isinstance(st.body[0].body[0].value, ast.Constant):
        # `for x in XS: if C(x): return E(x)` - the answer is E of the FIRST x with C, not a quantification over all of XS
        var = f'${depth}'
        env2 = dict(env, **{st.target.id: var})
        c = expr_formula(st.body[0].test, env2, depth + 1)
        v = expr_formula(st.body[0].body[0].value, env2, depth + 1)
        tail = block_formula(rest, env, depth)
        it = _rename(st.iter, env)
        return mk('or', [('first', it, c, v), mk('and', [('forall', it, neg(c)), tail])])
    if isinstance(st, ast.For) and isinstance(st.target, ast.Name) and not st.orelse:
        var = f'${depth}'
        env2 = dict(env, **{st.target.id: var})
        cond, ret = _early(list(st.body), env2, depth + 1)
        it = _rename(st.iter, env)
        if isinstance(ret, tuple):
            # `flag = INIT ... for x in XS: if C(x): flag = not INIT; break` - the single-exit spelling of an early return:
            # afterwards flag is `forall x: not C` (INIT True) / `exists x: C` (INIT False)
            _tag, name, value = ret
            init = env.get(name)
            if not (isinstance(init, ast.Constant) and isinstance(init.value, bool) and init.value != value) or \
                    '#f:' + name in env:
                raise AnalysisError(f'boolform: flag {name} is not initialised with the opposite constant before the loop')
            env3 = dict(env)
            env3['#f:' + name] = ('forall', it, neg(cond)) if value is False else ('exists', it, cond)
            return block_formula(rest, env3, depth)
        tail = block_formula(rest, env, depth)
        if ret is False:   # some element with cond -> False ; else continue
            return mk('and', [('forall', it, neg(cond)), tail])
        return mk('or', [('exists', it, cond), tail])
    raise AnalysisError(f'boolform: statement not modelled: {ast.unparse(st)[:80]}')


def _early(stmts, env, depth):
    """(condition under which the loop body returns early, the constant it returns); body must not do anything else."""
    env = dict(env)
    conds = []
    ret = None
    for st in stmts:
        if isinstance(st, ast.Assign) and len(st.targets) == 1 and isinstance(st.targets[0], ast.Name):
            env[st.targets[0].id] = _subst(st.value, env)
            continue
        if isinstance(st, ast.Expr) and isinstance(st.value, ast.Constant):
            continue
        if isinstance(st, ast.If) and not st.orelse:
            c = expr_formula(st.test, env, depth)
            if len(st.body) == 1 and isinstance(st.body[0], ast.Return) and isinstance(st.body[0].value, ast.Constant) \
                    and isinstance(st.body[0].value.value, bool):
                r = st.body[0].value.value
                inner = ('const', True)
            elif len(st.body) == 2 and isinstance(st.body[1], ast.Break) and isinstance(st.body[0], ast.Assign) and \
                    len(st.body[0].targets) == 1 and isinstance(st.body[0].targets[0], ast.Name) and \
                    isinstance(st.body[0].value, ast.Constant) and isinstance(st.body[0].value.value, bool):
                r = ('flag', st.body[0].targets[0].id, st.body[0].value.value)
                inner = ('const', True)
            else:
                inner, r = _early(list(st.body), env, depth)
            if ret is not None and r != ret:
                raise AnalysisError('boolform: loop returns both True and False early')
            ret = r
            conds.append(mk('and', [c, inner]))
            continue
        raise AnalysisError(f'boolform: loop body statement not modelled: {ast.unparse(st)[:80]}')
    if ret is None:
        raise AnalysisError('boolform: loop body never returns')
    return mk('or', conds), ret


def _always_returns(stmts):
    return bool(stmts) and isinstance(stmts[-1], ast.Return)


def simplify(f):
    """Light simplification: (c and X) or (not c and (Y)) where X == Y-with-extra ... keep canonical order only."""
    if f[0] in ('and', 'or'):
        return mk(f[0], [simplify(x) for x in f[1:]])
    if f[0] in ('forall', 'exists'):
        return (f[0], f[1], simplify(f[2]))
    if f[0] == 'not':
        return neg(simplify(f[1]))
    return f


def equivalent(f1, f2, atoms_limit=12):
    """Propositional equivalence, treating quantified sub-formulas and atoms as opaque propositional variables."""
    import itertools

    def collect(f, acc):
        if f[0] in ('and', 'or'):
            for x in f[1:]:
                collect(x, acc)
        elif f[0] == 'not':
            collect(f[1], acc)
        elif f[0] != 'const':
            acc.add(f)
    atoms = set()
    collect(f1, atoms)
    collect(f2, atoms)
    atoms = sorted(atoms, key=repr)
    if len(atoms) > atoms_limit:
        raise AnalysisError('boolform: too many atoms for equivalence check')

    def ev(f, val):
        if f[0] == 'const':
            return f[1]
        if f[0] == 'and':
            return all(ev(x, val) for x in f[1:])
        if f[0] == 'or':
            return any(ev(x, val) for x in f[1:])
        if f[0] == 'not':
            return not ev(f[1], val)
        return val[f]
    for combo in itertools.product([False, True], repeat=len(atoms)):
        val = dict(zip(atoms, combo))
        if ev(f1, val) != ev(f2, val):
            return False, {repr(k)[:80]: v for k, v in val.items()}
    return True, None


def function_formula(fn, resolver=None):
    """resolver(name) -> FunctionDef | None: calls to such functions are replaced by the callee's own formula, so that it does
    not matter whether a predicate lives in a helper or is written out in the caller."""
    body = [s for s in fn.body if not (isinstance(s, ast.Expr) and isinstance(s.value, ast.Constant))]
    RESOLVER[0] = resolver
    try:
        return simplify(block_formula(body))
    finally:
        RESOLVER[0] = None
