"""May-raise analysis on externally controlled values (DESIGN.md appendix A.5).

raise_sites(fi) lists the constructs of a function that can raise on peer-controlled strings:
  * explicit `raise X(...)`
  * fixed-arity unpack of a `.split()` result                        -> ValueError
  * `int(s)` / `float(s)` / `Decimal(s)`                             -> ValueError (TypeError for None)
  * `seq[i]` with constant i on a split()/list result, no len guard  -> IndexError
  * `urlsplit/urlparse(s)`                                           -> ValueError (malformed netloc)
  * `d[k]` on a dict built from peer data                            -> KeyError
Each site carries the try-handlers that enclose it inside the function; `escapes(fi)` returns the
sites whose exception class is not caught there.  Builtin exception hierarchy via `builtins`.
"""
from __future__ import annotations

import ast
import builtins

from .cfg import call_name, cfg_of
from .repo import walk_no_nested
from .util import local_assignments, unparse


def _is_subclass(name, base, repo=None):
    if name == base:
        return True
    b1, b2 = getattr(builtins, name, None), getattr(builtins, base, None)
    if isinstance(b1, type) and isinstance(b2, type):
        return issubclass(b1, b2)
    if repo is not None:
        # repo exception classes: walk declared bases by simple name
        seen, todo = set(), [name]
        while todo:
            n = todo.pop()
            if n in seen:
                continue
            seen.add(n)
            if n == base:
                return True
            for q in repo.by_simple.get(n, []):
                for b in repo.classes[q].node.bases:
                    bn = getattr(b, 'id', getattr(b, 'attr', None))
                    if bn:
                        todo.append(bn)
                        bb = getattr(builtins, bn, None)
                        b2 = getattr(builtins, base, None)
                        if isinstance(bb, type) and isinstance(b2, type) and issubclass(bb, b2):
                            return True
    return False


def handler_names(h: ast.ExceptHandler):
    if h.type is None:
        return ['BaseException']
    elts = h.type.elts if isinstance(h.type, ast.Tuple) else [h.type]
    return [getattr(e, 'id', getattr(e, 'attr', None)) for e in elts]


def enclosing_catchers(node, stop):
    """Exception class names caught around node (inside function `stop`), innermost first.

    `with contextlib.suppress(A, B)` counts as a handler for A, B."""
    out = []
    child, cur = node, getattr(node, '_parent', None)
    while cur is not None and cur is not stop:
        if isinstance(cur, ast.Try) and any(child is s for s in cur.body):
            for h in cur.handlers:
                out.extend(handler_names(h))
        if isinstance(cur, (ast.With, ast.AsyncWith)) and any(child is s for s in cur.body):
            for it in cur.items:
                c = it.context_expr
                if isinstance(c, ast.Call) and call_name(c) == 'suppress':
                    out.extend(getattr(a, 'id', getattr(a, 'attr', None)) for a in c.args)
        child, cur = cur, getattr(cur, '_parent', None)
    return out


def raise_sites(fi):
    """[(exception class name, ast node, description)]"""
    fn = fi.node
    g = cfg_of(fi)
    assigns = local_assignments(fn)
    out = []

    def from_split(e):
        if isinstance(e, ast.Call) and call_name(e) in ('split', 'rsplit', 'partition', 'splitlines'):
            return True
        if isinstance(e, ast.Name):
            return any(from_split(v) for v in assigns.get(e.id, []) if not isinstance(v, ast.Name))
        return False

    for n in [x for st in fn.body for x in ast.walk(st)]:
        if isinstance(n, ast.Raise) and n.exc is not None:
            nm = call_name(n.exc) if isinstance(n.exc, ast.Call) else unparse(n.exc)
            out.append((nm, n, f'raise {nm}'))
        if isinstance(n, ast.Assign) and isinstance(n.targets[0], (ast.Tuple, ast.List)) and from_split(n.value):
            c = n.value
            exact = isinstance(c, ast.Call) and call_name(c) in ('partition',)
            # `first, *rest = s.split(sep)`: split() with a separator returns at least one element, the star takes the rest
            elts = n.targets[0].elts
            starred = sum(isinstance(t, ast.Starred) for t in elts)
            if starred == 1 and len(elts) == 2 and isinstance(c, ast.Call) and call_name(c) in ('split', 'rsplit') and c.args:
                exact = True
            if not exact:
                out.append(('ValueError', n, f'unpack of {unparse(n.value)} into {len(n.targets[0].elts)} names'))
        if isinstance(n, ast.Call) and isinstance(n.func, ast.Name) and n.func.id in ('int', 'float', 'Decimal') and n.args \
                and not isinstance(n.args[0], ast.Constant):
            out.append(('ValueError', n, f'{unparse(n)[:40]}'))
        if isinstance(n, ast.Call) and call_name(n) in ('urlsplit', 'urlparse'):
            out.append(('ValueError', n, f'{call_name(n)}() of a malformed url'))
        if isinstance(n, ast.Subscript) and isinstance(n.ctx, ast.Load) and isinstance(n.slice, ast.Constant) and \
                isinstance(n.slice.value, int) and from_split(n.value):
            idx = n.slice.value
            if idx in (0, -1):
                continue  # split() always returns at least one element
            holder = None
            for cn in g.real_nodes():
                if any(a is n for a in cn.walk()):
                    holder = cn
            guarded = False
            base = unparse(n.value)
            facts = list(g.facts_at(holder)) if holder is not None else []
            cur, child = getattr(n, '_parent', None), n
            while cur is not None and not isinstance(cur, ast.stmt):
                if isinstance(cur, ast.IfExp) and child is not cur.test:
                    from .cfg import _atoms
                    _atoms(cur.test, child is cur.body, facts)
                child, cur = cur, getattr(cur, '_parent', None)
            for txt, pol in facts:
                if f'len({base})' in txt and pol in (True, False):
                    guarded = True
            if not guarded:
                out.append(('IndexError', n, f'{unparse(n)} without a length check'))
    return out


def escapes(fi, repo=None):
    res = []
    for exc, node, what in raise_sites(fi):
        caught = enclosing_catchers(node, fi.node)
        if any(c and _is_subclass(exc, c, repo) for c in caught):
            continue
        res.append((exc, node, what))
    return res
