"""Tiny abstract evaluators over function ASTs (nothing of the repository is executed).

bool_table(fn, atoms): evaluates a function whose result depends only on the given boolean atoms
(expressions, matched by their unparsed text) under every valuation.  Supported statements: If, Return,
Expr (docstring / logging), Pass; expressions: BoolOp, Not, atoms, constants, IfExp.  Anything else
raises AnalysisError (fail closed).

order_eval(fn, env_cases): evaluates a function over symbolic integer cases given as dicts
name -> int for the free quantities (comparisons / arithmetic on them), returns the returned value.
Used for version-gate functions: the cases enumerate the orderings (<, =, +1, >+1).
"""
from __future__ import annotations

import ast
import itertools

from .errors import AnalysisError


class _Return(Exception):
    def __init__(self, value):
        self.value = value


def _is_logging(st):
    if isinstance(st, ast.Expr):
        if isinstance(st.value, ast.Constant):
            return True
        if isinstance(st.value, ast.Call):
            f = st.value.func
            txt = ast.unparse(f)
            return any(x in txt for x in ('logger.', '_logger.', 'log.', 'warnings.warn'))
    return False


def bool_table(fn, atoms: list[str]):
    """{valuation tuple: result} for all 2^k valuations of atoms."""
    def ev(e, val):
        txt = ast.unparse(e)
        if txt in val:
            return val[txt]
        if isinstance(e, ast.Constant):
            return e.value
        if isinstance(e, ast.UnaryOp) and isinstance(e.op, ast.Not):
            return not ev(e.operand, val)
        if isinstance(e, ast.BoolOp):
            if isinstance(e.op, ast.And):
                r = True
                for v in e.values:
                    r = ev(v, val)
                    if not r:
                        return r
                return r
            r = False
            for v in e.values:
                r = ev(v, val)
                if r:
                    return r
            return r
        if isinstance(e, ast.IfExp):
            return ev(e.body, val) if ev(e.test, val) else ev(e.orelse, val)
        raise AnalysisError(f'bool_table: expression {txt!r} is not an atom of {atoms}')

    def run(stmts, val):
        for st in stmts:
            if _is_logging(st) or isinstance(st, ast.Pass):
                continue
            if isinstance(st, ast.If):
                run(st.body if ev(st.test, val) else st.orelse, val)
            elif isinstance(st, ast.Return):
                raise _Return(ev(st.value, val) if st.value is not None else None)
            else:
                raise AnalysisError(f'bool_table: statement {ast.unparse(st)[:60]!r} is not modelled')

    out = {}
    for combo in itertools.product([False, True], repeat=len(atoms)):
        val = dict(zip(atoms, combo))
        try:
            run(fn.body, val)
            out[combo] = None
        except _Return as r:
            out[combo] = r.value
    return out


def int_eval(fn, env: dict[str, object], consts: dict[str, object] | None = None):
    """Evaluate a small function over concrete integers bound to expression texts (e.g. 'self.mdib_version').

    Supports If/Return/logging/Assign to locals; Compare, BinOp (+,-), BoolOp, Not, int(), names/attributes
    bound in env.  Fails closed on anything else."""
    consts = consts or {}

    def ev(e, loc):
        txt = ast.unparse(e)
        if txt in loc:
            return loc[txt]
        if txt in env:
            return env[txt]
        if txt in consts:
            return consts[txt]
        if isinstance(e, ast.Constant):
            return e.value
        if isinstance(e, ast.UnaryOp) and isinstance(e.op, ast.Not):
            return not ev(e.operand, loc)
        if isinstance(e, ast.UnaryOp) and isinstance(e.op, ast.USub):
            return -ev(e.operand, loc)
        if isinstance(e, ast.BoolOp):
            # Python semantics: the value of the deciding operand (`expires or maximum`), short-circuit
            val = None
            for v in e.values:
                val = ev(v, loc)
                if bool(val) != isinstance(e.op, ast.And):
                    return val
            return val
        if isinstance(e, ast.BinOp) and isinstance(e.op, (ast.Add, ast.Sub, ast.Mult, ast.FloorDiv, ast.Mod)):
            l, r = ev(e.left, loc), ev(e.right, loc)
            return {ast.Add: lambda: l + r, ast.Sub: lambda: l - r, ast.Mult: lambda: l * r, ast.FloorDiv: lambda: l // r,
                    ast.Mod: lambda: l % r}[type(e.op)]()
        if isinstance(e, ast.Compare):
            left = ev(e.left, loc)
            for op, c in zip(e.ops, e.comparators):
                right = ev(c, loc)
                if isinstance(op, (ast.In, ast.NotIn)):
                    ok = (left in right) if isinstance(op, ast.In) else (left not in right)
                elif isinstance(op, (ast.Is, ast.IsNot)):
                    ok = (left is right) if isinstance(op, ast.Is) else (left is not right)
                else:
                    ok = {ast.Lt: lambda: left < right, ast.LtE: lambda: left <= right, ast.Gt: lambda: left > right,
                          ast.GtE: lambda: left >= right, ast.Eq: lambda: left == right,
                          ast.NotEq: lambda: left != right}.get(type(op))
                    ok = ok() if ok is not None else None
                if ok is None:
                    raise AnalysisError(f'int_eval: comparison {txt!r} not modelled')
                if not ok:
                    return False
                left = right
            return True
        if isinstance(e, (ast.Tuple, ast.List, ast.Set)):
            return tuple(ev(x, loc) for x in e.elts)
        if isinstance(e, ast.Call) and isinstance(e.func, ast.Name) and e.func.id == 'int' and len(e.args) == 1:
            return int(ev(e.args[0], loc))
        if isinstance(e, ast.Call) and isinstance(e.func, ast.Name) and e.func.id == 'round' and len(e.args) in (1, 2):
            return round(ev(e.args[0], loc), *[ev(a, loc) for a in e.args[1:]])
        if isinstance(e, ast.Call) and isinstance(e.func, ast.Name) and e.func.id in ('float', 'abs') and len(e.args) == 1:
            return {'float': float, 'abs': abs}[e.func.id](ev(e.args[0], loc))
        if isinstance(e, ast.IfExp):
            return ev(e.body, loc) if ev(e.test, loc) else ev(e.orelse, loc)
        if isinstance(e, ast.Call) and isinstance(e.func, ast.Name) and e.func.id in ('min', 'max'):
            vals = [ev(a, loc) for a in e.args]
            return min(vals) if e.func.id == 'min' else max(vals)
        raise AnalysisError(f'int_eval: expression {txt!r} is not bound / not modelled')

    def run(stmts, loc):
        for st in stmts:
            if _is_logging(st) or isinstance(st, ast.Pass):
                continue
            if isinstance(st, ast.If):
                run(st.body if ev(st.test, loc) else st.orelse, loc)
            elif isinstance(st, ast.Return):
                raise _Return(ev(st.value, loc) if st.value is not None else None)
            elif isinstance(st, ast.Assign) and len(st.targets) == 1:
                loc[ast.unparse(st.targets[0])] = ev(st.value, loc)
            elif isinstance(st, ast.AnnAssign) and st.value is not None:
                loc[ast.unparse(st.target)] = ev(st.value, loc)
            elif isinstance(st, ast.AnnAssign):
                continue
            else:
                raise AnalysisError(f'int_eval: statement {ast.unparse(st)[:60]!r} is not modelled')
    loc = {}
    try:
        run(fn.body, loc)
    except _Return as r:
        return r.value, loc
    return None, loc
