"""Obligations, findings, known-findings matching, evidence writer."""
from __future__ import annotations

import ast
import hashlib
import json
import os
import pathlib
import time

from .errors import AnalysisError

VERIF = pathlib.Path(__file__).resolve().parents[2]
KNOWN_FILE = VERIF / 'known_findings.json'
if os.environ.get('SA_EVIDENCE_DIR'):
    EVIDENCE_DIR = pathlib.Path(os.environ['SA_EVIDENCE_DIR'])
elif os.environ.get('SA_REPO_ROOT') and os.environ['SA_REPO_ROOT'].rstrip('/') != '/repo':
    import tempfile
    EVIDENCE_DIR = pathlib.Path(tempfile.gettempdir()) / 'sa-scratch-evidence'
else:
    EVIDENCE_DIR = VERIF / 'evidence'


def norm(node_or_text) -> str:
    """Normalised statement text used in instance keys (no positions)."""
    if isinstance(node_or_text, ast.AST):
        txt = ast.unparse(node_or_text)
    else:
        txt = str(node_or_text)
    return ' '.join(txt.split())[:160]


class Obligation:
    __slots__ = ('rule', 'key', 'ok', 'what', 'file', 'line', 'witness')

    def __init__(self, rule, key, ok, what, file, line, witness):
        self.rule, self.key, self.ok, self.what = rule, key, ok, what
        self.file, self.line, self.witness = file, line, witness

    def as_dict(self):
        d = {'rule': self.rule, 'key': self.key, 'ok': self.ok, 'what': self.what}
        if self.file:
            d['at'] = f'{self.file}:{self.line}'
        if self.witness is not None:
            d['witness'] = self.witness
        return d


class Ctx:
    def __init__(self, prop: str, repo, tier: str):
        self.prop = prop
        self.repo = repo
        self.tier = tier
        self.obligations: list[Obligation] = []
        self.floors = []
        self.assumptions = []
        self.facts_used = []
        self.notes = []
        self.rules_applied = {}

    def rule(self, rule_id: str, text: str):
        self.rules_applied[rule_id] = text

    def ob(self, rule, construct, ok, what, fi=None, node=None, line=None, witness=None, where=None):
        """Record one obligation instance.

        construct: short normalised text identifying the instance inside its function (never a line number).
        """
        qual = where or (fi.qual if fi is not None else '')
        key = f'{rule}|{qual}|{norm(construct)}'
        file = self.repo.rel(fi.file) if fi is not None else None
        if line is None:
            if node is not None:
                line = getattr(node, 'lineno', None)
            if line is None and fi is not None:
                line = fi.node.lineno
        self.obligations.append(Obligation(rule, key, bool(ok), what, file, line, witness))
        return bool(ok)

    def floor(self, rule, found, minimum, what=''):
        self.floors.append({'rule': rule, 'found': found, 'minimum': minimum, 'what': what})
        if found < minimum:
            raise AnalysisError(f'{rule}: found {found} instances of "{what}", confirmed floor is {minimum} '
                                f'- the rule would pass vacuously')

    def borrow(self, prop_id: str, rule_ids, as_rule: str, contains=None, why: str = ''):
        """Run the rules of another property and take over the obligations of the given rule ids under `as_rule`: the behaviour
        behind this property rests on them too, so its own check reports them (DESIGN.md section 9, rounds 5 and 6).
        `contains`: only obligations whose key contains one of these texts.  Obligations recorded as known findings of the
        other property are not taken over (they are reported there).  Borrowed runs do not borrow again."""
        if getattr(self, '_borrowed_run', False):
            return 0
        import importlib
        cache = self.repo.__dict__.setdefault('_borrow_cache', {})
        if prop_id not in cache:
            sub = Ctx(prop_id, self.repo, self.tier)
            sub._borrowed_run = True  # noqa: SLF001
            importlib.import_module(f'rules.{prop_id.lower()}').run(sub)
            cache[prop_id] = sub
        sub = cache[prop_id]
        known = {k['key'] for k in load_known().get('known', []) if k.get('property') == prop_id}
        n = 0
        for o in sub.obligations:
            if o.rule not in rule_ids or o.key in known:
                continue
            if contains and not any(t in o.key for t in contains):
                continue
            n += 1
            key = as_rule + o.key[len(o.rule):]
            self.obligations.append(Obligation(as_rule, key, o.ok, o.what, o.file, o.line, o.witness))
        self.floor(as_rule, n, 1, f'obligations taken over from {prop_id} {sorted(rule_ids)} {contains or ""} {why}'.strip())
        return n

    def assume(self, text):
        if text not in self.assumptions:
            self.assumptions.append(text)

    def failed(self):
        return [o for o in self.obligations if not o.ok]


def load_known():
    if not KNOWN_FILE.exists():
        return {'known': [], 'fixed': []}
    return json.loads(KNOWN_FILE.read_text())


def finish(ctx: Ctx, t0: float, selftest=None, only_key=None, write_evidence=True) -> int:
    known = load_known()
    known_keys = {k['key']: k for k in known.get('known', []) if k.get('property') == ctx.prop}
    failed = ctx.failed()
    if only_key is not None:
        failed = [o for o in failed if o.key == only_key]
    violations = []
    printed_known = []
    for o in failed:
        loc = f'{o.file}:{o.line}' if o.file else ''
        if o.key in known_keys:
            print(f'KNOWN-FINDING: property={ctx.prop} {known_keys[o.key].get("what", o.what)} [{o.key}] {loc}')
            printed_known.append(o.key)
            continue
        violations.append(o)
    replay_dir = EVIDENCE_DIR / 'replay'
    for o in violations:
        replay_dir.mkdir(parents=True, exist_ok=True)
        h = hashlib.sha1(o.key.encode()).hexdigest()[:12]
        path = replay_dir / f'{ctx.prop}-{h}.json'
        path.write_text(json.dumps({'property': ctx.prop, **o.as_dict()}, indent=1))
        loc = f'{o.file}:{o.line}' if o.file else ''
        print(f'FINDING property={ctx.prop} rule={o.rule} at {loc}: {o.what} [{o.key}]')
        if o.witness is not None:
            print(f'  witness: {json.dumps(o.witness)[:600]}')
        print(f'VIOLATION property={ctx.prop} replay={path}')
    st_fail = 0
    if selftest is not None:
        st_fail = len(selftest.get('not_fired', [])) + len(selftest.get('false_alarm', []))
    if write_evidence and only_key is None:
        write_ev(ctx, t0, len(violations), printed_known, selftest)
    n_ok = sum(1 for o in ctx.obligations if o.ok)
    print(f'{ctx.prop} tier={ctx.tier}: {len(ctx.obligations)} obligations, {n_ok} discharged, '
          f'{len(printed_known)} known findings, {len(violations)} violations'
          + (f'; self-test {selftest["fired"]}/{selftest["applied"]} seeds detected, '
             f'{selftest["skipped"]} skipped, {len(selftest.get("false_alarm", []))} control alarms'
             if selftest else ''))
    if violations:
        return 1
    if selftest is not None and not st_fail:
        for s in selftest.get('skipped_list', []):
            print(f'NOTE self-test seed skipped (does not apply to this tree): {s}')
    if st_fail:
        for s in selftest.get('not_fired', []):
            print(f'ANALYSIS-ERROR self-test seed not detected: {s}')
        for s in selftest.get('skipped_list', []):
            print(f'NOTE self-test seed skipped (does not apply to this tree): {s}')
        for s in selftest.get('false_alarm', []):
            print(f'ANALYSIS-ERROR self-test control variant raised an alarm: {s}')
        return 2
    return 0


def write_ev(ctx, t0, n_viol, printed_known, selftest):
    EVIDENCE_DIR.mkdir(exist_ok=True)
    obs = ctx.obligations
    distinct = {o.key for o in obs if o.witness is not None}
    if os.environ.get('SA_DUMP_KEYS'):   # debugging aid: every obligation key of this run, one per line
        with open(os.environ['SA_DUMP_KEYS'], 'w') as fh:
            fh.write(''.join(f'{o.key}\t{o.ok}\n' for o in obs))
    samples = [o.as_dict() for o in obs[:3]] + [o.as_dict() for o in obs if not o.ok][:5]
    per_rule = {}
    for o in obs:
        r = per_rule.setdefault(o.rule, {'instances': 0, 'discharged': 0})
        r['instances'] += 1
        r['discharged'] += int(o.ok)
    cov = {
        'explanation': 'static analysis of the current /repo source (ast; CFG, dominators, lock regions, def-use, '
                       'declaration tables); decides the structural clauses named under rules, not the runtime '
                       'behaviour itself. ' + ' | '.join(f'{k}: {v}' for k, v in ctx.rules_applied.items()),
        'rule': 'one evaluation = one rule instance (obligation) discovered in the source on this run; distinct = '
                'distinct instance keys (rule|construct|normalised statement); non-trivial = the instance carries a '
                'witness (path, region, def-use chain, table row) computed from the code',
        'evaluations': len(obs),
        'distinct_nontrivial': len(distinct),
        'obligations': len(obs),
        'discharged': sum(1 for o in obs if o.ok),
        'samples': samples,
        'per_rule': per_rule,
        'floors': ctx.floors,
        'files_analysed': len(ctx.repo.files),
        'functions_analysed': len(ctx.repo.funcs),
        'classes_analysed': len(ctx.repo.classes),
        'source_digest': ctx.repo.digest(),
        'repo_root': str(ctx.repo.root),
        'known_findings_printed': printed_known,
        'library_facts_used': ctx.facts_used,
        'notes': ctx.notes,
        'exhaustive': False,
    }
    if selftest is not None:
        cov['selftest'] = selftest
    ev = {
        'property_id': ctx.prop,
        'tier': ctx.tier,
        'seed': int(os.environ.get('VERIF_SEED', '0') or 0),
        'level': 'other',
        'coverage': cov,
        'assumptions': ctx.assumptions,
        'wall_s': round(time.time() - t0, 3),
        'violations': n_viol,
    }
    (EVIDENCE_DIR / f'{ctx.prop}.json').write_text(json.dumps(ev, indent=1, default=str))
