class AnalysisError(Exception):
    """The analysis itself could not be carried out (anchor vanished, construct not modelled)."""


def clone(node):
    """Deep copy of an ast node / list of nodes that ignores the `_parent` back links (copy.deepcopy would copy the module)."""
    import ast
    if isinstance(node, list):
        return [clone(x) for x in node]
    if not isinstance(node, ast.AST):
        return node
    new = type(node)()
    for k, v in node.__dict__.items():
        if k == '_parent':
            continue
        setattr(new, k, clone(v))
    return new
