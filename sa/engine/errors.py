class AnalysisError(Exception):
    """The analysis itself could not be carried out (anchor vanished, construct not modelled)."""
