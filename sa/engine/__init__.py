"""Static-analysis engine for sdc11073 (stdlib only)."""
